#!/bin/sh
# Builds the fact-extraction driver and warms the dependency cache (offline, from files on disk only).
set -e
cd "$(dirname "$0")"
export CARGO_NET_OFFLINE=true
(cd driver && cargo +nightly build --release --offline)
python3 -m analysis.extract D
# thorough tier: second build configuration (libdeflate variants of the BGZF / CRAM gzip codecs)
python3 -m analysis.extract L
echo "setup ok"
