// noodles-facts: a rustc_private driver that dumps, for each workspace crate it is wrapped around,
// a line-oriented JSON fact file: MIR bodies (mir_built, pre-coroutine-transform) with resolved
// callees, evaluated constants, HIR match tables, ADT definitions, trait impls and closure captures.
// No analysis happens here; the rules live in /verif/analysis. See /verif/DESIGN.md §3.1.
#![feature(rustc_private)]
#![allow(clippy::all)]

extern crate rustc_abi;
extern crate rustc_ast;
extern crate rustc_data_structures;
extern crate rustc_driver;
extern crate rustc_hir;
extern crate rustc_interface;
extern crate rustc_middle;
extern crate rustc_session;
extern crate rustc_span;

mod hirfacts;
mod json;
mod mirfacts;

use rustc_driver::Compilation;
use rustc_hir::def::DefKind;
use rustc_middle::ty::TyCtxt;
use std::io::Write;

pub struct Cb;

impl rustc_driver::Callbacks for Cb {
    fn after_expansion<'tcx>(
        &mut self,
        _c: &rustc_interface::interface::Compiler,
        tcx: TyCtxt<'tcx>,
    ) -> Compilation {
        let out_dir = match std::env::var("NOODLES_FACTS_DIR") {
            Ok(d) => d,
            Err(_) => return Compilation::Continue,
        };
        let crate_name = tcx.crate_name(rustc_hir::def_id::LOCAL_CRATE).to_string();
        // Only analyse workspace library/bin crates, not build scripts.
        if crate_name == "build_script_build" {
            return Compilation::Continue;
        }
        let mut out = String::with_capacity(1 << 22);
        let is_test = tcx.sess.opts.test;
        out.push_str(&format!(
            "{{\"k\":\"crate\",\"name\":{},\"test\":{}}}\n",
            json::s(&crate_name),
            is_test
        ));

        // 1. Clone all MIR bodies first (before any query that may steal them).
        let mut bodies = Vec::new();
        let mut fallback = 0usize;
        for ldid in tcx.hir_body_owners() {
            let kind = tcx.def_kind(ldid);
            match kind {
                DefKind::Fn
                | DefKind::AssocFn
                | DefKind::Closure
                | DefKind::Const { .. }
                | DefKind::AssocConst { .. }
                | DefKind::Static { .. }
                | DefKind::AnonConst
                | DefKind::InlineConst => {}
                _ => continue,
            }
            let is_fnlike = matches!(kind, DefKind::Fn | DefKind::AssocFn | DefKind::Closure);
            let steal = tcx.mir_built(ldid);
            if !steal.is_stolen() {
                bodies.push((ldid, steal.borrow().clone(), false));
            } else if is_fnlike {
                fallback += 1;
                if tcx.is_const_fn(ldid.to_def_id()) {
                    bodies.push((ldid, tcx.mir_for_ctfe(ldid).clone(), true));
                } else {
                    bodies.push((ldid, tcx.optimized_mir(ldid).clone(), true));
                }
            } else {
                fallback += 1;
                bodies.push((ldid, tcx.mir_for_ctfe(ldid).clone(), true));
            }
        }
        let nbodies = bodies.len();
        // 2. Emit.
        for (ldid, body, fb) in &bodies {
            mirfacts::emit_body(tcx, *ldid, body, *fb, &mut out);
        }
        hirfacts::emit_items(tcx, &mut out);
        out.push_str(&format!(
            "{{\"k\":\"end\",\"name\":{},\"bodies\":{},\"fallback\":{}}}\n",
            json::s(&crate_name),
            nbodies,
            fallback
        ));
        let path = format!(
            "{}/{}{}.jsonl",
            out_dir,
            crate_name,
            if is_test { ".test" } else { "" }
        );
        let tmp = format!("{}.{}.tmp", path, std::process::id());
        {
            let mut f = std::fs::File::create(&tmp).expect("create facts file");
            f.write_all(out.as_bytes()).expect("write facts");
        }
        std::fs::rename(&tmp, &path).expect("rename facts file");
        Compilation::Continue
    }
}

fn main() {
    let mut args: Vec<String> = std::env::args().collect();
    // RUSTC_WORKSPACE_WRAPPER passes the real rustc path as argv[1].
    if args.len() > 1 && (args[1].ends_with("rustc") || args[1].contains("/rustc")) {
        args.remove(1);
    }
    rustc_driver::run_compiler(&args, &mut Cb);
}
