use crate::json;
use crate::mirfacts::{const_value_fields, key_of, loc, ty_s};
use rustc_hir as hir;
use rustc_hir::def::{DefKind, Res};
use rustc_hir::def_id::LocalDefId;
use rustc_hir::intravisit::{self, Visitor};
use rustc_middle::ty::{self, TyCtxt, TypeckResults};

fn lit_s(lit: &hir::Lit, negated: bool) -> String {
    use rustc_ast::ast::LitKind;
    let neg = if negated { "-" } else { "" };
    match &lit.node {
        LitKind::Str(s, _) => format!("s{:?}", s.as_str()),
        LitKind::ByteStr(b, _) => {
            let bytes: &[u8] = b.as_byte_str();
            format!("b\"{}\"", bytes.iter().map(|x| format!("\\x{:02x}", x)).collect::<String>())
        }
        LitKind::CStr(..) => "cstr".to_string(),
        LitKind::Byte(b) => format!("{}{}", neg, b),
        LitKind::Char(c) => format!("{}", *c as u32),
        LitKind::Int(v, _) => format!("{}{}", neg, v.get()),
        LitKind::Float(s, _) => format!("{}{}f", neg, s.as_str()),
        LitKind::Bool(b) => format!("{}", b),
        LitKind::Err(_) => "err".to_string(),
    }
}

struct Cx<'a, 'tcx> {
    tcx: TyCtxt<'tcx>,
    tr: &'tcx TypeckResults<'tcx>,
    owner: String,
    out: &'a mut String,
}

impl<'a, 'tcx> Cx<'a, 'tcx> {
    fn res_s(&self, res: Res) -> String {
        match res {
            Res::Def(kind, did) => {
                let k = key_of(self.tcx, did);
                match kind {
                    DefKind::Const { .. } | DefKind::AssocConst { .. } => {
                        if let Some(v) = eval_const_item(self.tcx, did) {
                            format!("{}={{{}}}", k, v)
                        } else {
                            k
                        }
                    }
                    DefKind::Ctor(..) => {
                        // report the variant / struct path rather than the ctor
                        let p = self.tcx.parent(did);
                        key_of(self.tcx, p)
                    }
                    _ => k,
                }
            }
            Res::Local(_) => "$local".to_string(),
            Res::SelfCtor(_) => "Self".to_string(),
            Res::SelfTyAlias { .. } | Res::SelfTyParam { .. } => "Self".to_string(),
            Res::PrimTy(p) => format!("{:?}", p),
            _ => "$res".to_string(),
        }
    }

    fn qpath_s(&self, qpath: &hir::QPath<'tcx>, id: hir::HirId) -> String {
        self.res_s(self.tr.qpath_res(qpath, id))
    }

    fn patexpr_s(&self, e: &hir::PatExpr<'tcx>) -> String {
        match &e.kind {
            hir::PatExprKind::Lit { lit, negated } => lit_s(lit, *negated),
            hir::PatExprKind::Path(q) => self.qpath_s(q, e.hir_id),
        }
    }

    fn pat_s(&self, p: &hir::Pat<'tcx>, depth: usize) -> String {
        if depth > 6 {
            return "…".to_string();
        }
        use hir::PatKind::*;
        match &p.kind {
            Missing => "_".into(),
            Wild => "_".into(),
            Never => "!".into(),
            Binding(_, _, id, sub) => match sub {
                Some(s) => format!("{}@{}", id.name, self.pat_s(s, depth + 1)),
                None => format!("${}", id.name),
            },
            Struct(q, fields, _) => {
                let fs: Vec<String> = fields
                    .iter()
                    .map(|f| format!("{}:{}", f.ident.name, self.pat_s(f.pat, depth + 1)))
                    .collect();
                format!("{}{{{}}}", self.qpath_s(q, p.hir_id), fs.join(","))
            }
            TupleStruct(q, pats, _) => {
                let fs: Vec<String> = pats.iter().map(|x| self.pat_s(x, depth + 1)).collect();
                format!("{}({})", self.qpath_s(q, p.hir_id), fs.join(","))
            }
            Or(pats) => {
                let fs: Vec<String> = pats.iter().map(|x| self.pat_s(x, depth + 1)).collect();
                fs.join(" | ")
            }
            Tuple(pats, _) => {
                let fs: Vec<String> = pats.iter().map(|x| self.pat_s(x, depth + 1)).collect();
                format!("({})", fs.join(","))
            }
            Box(x) | Deref(x) => self.pat_s(x, depth + 1),
            Ref(x, _, _) => self.pat_s(x, depth + 1),
            Expr(e) => self.patexpr_s(e),
            Guard(x, _) => format!("{} if …", self.pat_s(x, depth + 1)),
            Range(lo, hi, end) => {
                let l = lo.map(|e| self.patexpr_s(e)).unwrap_or_default();
                let h = hi.map(|e| self.patexpr_s(e)).unwrap_or_default();
                let sep = match end {
                    hir::RangeEnd::Included => "..=",
                    hir::RangeEnd::Excluded => "..",
                };
                format!("{}{}{}", l, sep, h)
            }
            Slice(a, m, b) => {
                let mut fs: Vec<String> = a.iter().map(|x| self.pat_s(x, depth + 1)).collect();
                if m.is_some() {
                    fs.push("..".into());
                }
                fs.extend(b.iter().map(|x| self.pat_s(x, depth + 1)));
                format!("[{}]", fs.join(","))
            }
            Err(_) => "err".into(),
        }
    }

    fn expr_s(&self, e: &hir::Expr<'tcx>, depth: usize) -> String {
        if depth > 5 {
            return "…".to_string();
        }
        use hir::ExprKind::*;
        match &e.kind {
            Lit(l) => lit_s(l, false),
            Unary(hir::UnOp::Neg, inner) => match &inner.kind {
                Lit(l) => lit_s(l, true),
                _ => format!("-{}", self.expr_s(inner, depth + 1)),
            },
            Unary(op, inner) => format!("{:?}({})", op, self.expr_s(inner, depth + 1)),
            Path(q) => self.qpath_s(q, e.hir_id),
            Call(f, args) => {
                let a: Vec<String> = args.iter().map(|x| self.expr_s(x, depth + 1)).collect();
                format!("{}({})", self.expr_s(f, depth + 1), a.join(","))
            }
            MethodCall(seg, recv, args, _) => {
                let name = match self.tr.type_dependent_def_id(e.hir_id) {
                    Some(d) => key_of(self.tcx, d),
                    None => seg.ident.name.to_string(),
                };
                let mut a: Vec<String> = vec![self.expr_s(recv, depth + 1)];
                a.extend(args.iter().map(|x| self.expr_s(x, depth + 1)));
                format!("{}({})", name, a.join(","))
            }
            Struct(q, fields, _) => {
                let fs: Vec<String> = fields
                    .iter()
                    .map(|f| format!("{}:{}", f.ident.name, self.expr_s(f.expr, depth + 1)))
                    .collect();
                format!("{}{{{}}}", self.qpath_s(q, e.hir_id), fs.join(","))
            }
            Tup(xs) => {
                let a: Vec<String> = xs.iter().map(|x| self.expr_s(x, depth + 1)).collect();
                format!("({})", a.join(","))
            }
            Array(xs) => {
                let a: Vec<String> = xs.iter().map(|x| self.expr_s(x, depth + 1)).collect();
                format!("[{}]", a.join(","))
            }
            AddrOf(_, _, x) => format!("&{}", self.expr_s(x, depth + 1)),
            DropTemps(x) | Use(x, _) => self.expr_s(x, depth),
            Block(b, _) => {
                if b.stmts.is_empty() {
                    match b.expr {
                        Some(x) => self.expr_s(x, depth),
                        None => "()".to_string(),
                    }
                } else {
                    "{…}".to_string()
                }
            }
            Cast(x, _) => {
                format!("({} as {})", self.expr_s(x, depth + 1), ty_s(self.tr.expr_ty(e)))
            }
            Ret(Some(x)) => format!("return {}", self.expr_s(x, depth + 1)),
            Ret(None) => "return".to_string(),
            Binary(op, a, b) => format!(
                "({} {} {})",
                self.expr_s(a, depth + 1),
                op.node.as_str(),
                self.expr_s(b, depth + 1)
            ),
            Field(x, id) => format!("{}.{}", self.expr_s(x, depth + 1), id.name),
            Index(a, b, _) => {
                format!("{}[{}]", self.expr_s(a, depth + 1), self.expr_s(b, depth + 1))
            }
            Match(..) => "match…".to_string(),
            If(..) => "if…".to_string(),
            Closure(..) => "closure…".to_string(),
            Break(..) => "break".to_string(),
            Continue(..) => "continue".to_string(),
            _ => "…".to_string(),
        }
    }
}

impl<'a, 'tcx> Visitor<'tcx> for Cx<'a, 'tcx> {
    fn visit_expr(&mut self, e: &'tcx hir::Expr<'tcx>) {
        match &e.kind {
            hir::ExprKind::Match(scrut, arms, src) => {
                let keep = matches!(src, hir::MatchSource::Normal | hir::MatchSource::Postfix);
                if keep {
                    let (file, line) = loc(self.tcx, e.span);
                    let sty = ty_s(self.tr.expr_ty(scrut));
                    let ety = ty_s(self.tr.expr_ty(e));
                    let mac = crate::mirfacts::expn(e.span);
                    let mut al: Vec<String> = Vec::new();
                    for arm in arms.iter() {
                        al.push(format!(
                            "{{\"p\":{},\"g\":{},\"v\":{}}}",
                            json::s(&self.pat_s(arm.pat, 0)),
                            arm.guard.is_some(),
                            json::s(&self.expr_s(arm.body, 0))
                        ));
                    }
                    self.out.push_str(&format!(
                        "{{\"k\":\"match\",\"fn\":{},\"file\":{},\"line\":{},\"sty\":{},\"ety\":{},\"scrut\":{},\"mac\":{},\"arms\":{}}}\n",
                        json::s(&self.owner),
                        json::s(&file),
                        line,
                        json::s(&sty),
                        json::s(&ety),
                        json::s(&self.expr_s(scrut, 0)),
                        json::opt_s(mac.as_deref()),
                        json::list(&al)
                    ));
                }
            }
            hir::ExprKind::Let(l) => {
                let (file, line) = loc(self.tcx, e.span);
                let sty = ty_s(self.tr.expr_ty(l.init));
                self.out.push_str(&format!(
                    "{{\"k\":\"let\",\"fn\":{},\"file\":{},\"line\":{},\"sty\":{},\"scrut\":{},\"p\":{}}}\n",
                    json::s(&self.owner),
                    json::s(&file),
                    line,
                    json::s(&sty),
                    json::s(&self.expr_s(l.init, 0)),
                    json::s(&self.pat_s(l.pat, 0))
                ));
            }
            _ => {}
        }
        intravisit::walk_expr(self, e);
    }
}

pub fn eval_const_item<'tcx>(tcx: TyCtxt<'tcx>, did: rustc_hir::def_id::DefId) -> Option<String> {
    if tcx.generics_of(did).requires_monomorphization(tcx) {
        return None;
    }
    // A trait's associated const without a concrete impl cannot be evaluated.
    if matches!(tcx.def_kind(did), DefKind::AssocConst { .. }) && tcx.trait_of_assoc(did).is_some() {
        return None;
    }
    let ty = tcx.type_of(did).instantiate_identity().skip_norm_wip();
    let r = std::panic::catch_unwind(std::panic::AssertUnwindSafe(|| tcx.const_eval_poly(did)));
    match r {
        Ok(Ok(v)) => {
            let s = const_value_fields(tcx, v, ty);
            if s.is_empty() {
                None
            } else {
                Some(s)
            }
        }
        _ => None,
    }
}

/// Raw bytes of a (pointer-free, small) static's initializer.
pub fn eval_static_item<'tcx>(tcx: TyCtxt<'tcx>, did: rustc_hir::def_id::DefId) -> Option<String> {
    let r = std::panic::catch_unwind(std::panic::AssertUnwindSafe(|| tcx.eval_static_initializer(did)));
    match r {
        Ok(Ok(alloc)) => {
            let a = alloc.inner();
            if a.len() > 4096 || !a.provenance().ptrs().is_empty() {
                return None;
            }
            let b = a.inspect_with_uninit_and_ptr_outside_interpreter(0..a.len());
            let mut h = String::with_capacity(b.len() * 2);
            for x in b {
                h.push_str(&format!("{:02x}", x));
            }
            Some(format!("\"raw\":\"{}\"", h))
        }
        _ => None,
    }
}

pub fn emit_items<'tcx>(tcx: TyCtxt<'tcx>, out: &mut String) {
    // match / let facts per body owner
    let owners: Vec<LocalDefId> = tcx.hir_body_owners().collect();
    for ldid in owners.iter().copied() {
        let kind = tcx.def_kind(ldid);
        if !matches!(
            kind,
            DefKind::Fn
                | DefKind::AssocFn
                | DefKind::Closure
                | DefKind::Const { .. }
                | DefKind::AssocConst { .. }
                | DefKind::Static { .. }
        ) {
            continue;
        }
        let body = tcx.hir_body_owned_by(ldid);
        let tr = tcx.typeck(ldid);
        let mut cx = Cx { tcx, tr, owner: key_of(tcx, ldid.to_def_id()), out };
        cx.visit_expr(body.value);
    }
    // const items
    for ldid in owners.iter().copied() {
        let kind = tcx.def_kind(ldid);
        if !matches!(kind, DefKind::Const { .. } | DefKind::AssocConst { .. } | DefKind::Static { .. }) {
            continue;
        }
        let did = ldid.to_def_id();
        let ty = tcx.type_of(did).instantiate_identity().skip_norm_wip();
        let (file, line) = loc(tcx, tcx.def_span(did));
        let v = if matches!(kind, DefKind::Static { .. }) { eval_static_item(tcx, did) } else { eval_const_item(tcx, did) };
        out.push_str(&format!(
            "{{\"k\":\"const\",\"key\":{},\"ty\":{},\"file\":{},\"line\":{}{}}}\n",
            json::s(&key_of(tcx, did)),
            json::s(&ty_s(ty)),
            json::s(&file),
            line,
            match v {
                Some(s) => format!(",{}", s),
                None => String::new(),
            }
        ));
    }
    // ADTs, impls, traits
    for id in tcx.hir_free_items() {
        let did = id.owner_id.to_def_id();
        match tcx.def_kind(did) {
            DefKind::Struct | DefKind::Enum | DefKind::Union => {
                let adt = tcx.adt_def(did);
                let mut vs: Vec<String> = Vec::new();
                let discrs: Vec<(rustc_abi::VariantIdx, ty::util::Discr<'tcx>)> =
                    if adt.is_enum() { adt.discriminants(tcx).collect() } else { Vec::new() };
                for (vidx, v) in adt.variants().iter_enumerated() {
                    let mut fs: Vec<String> = Vec::new();
                    for f in v.fields.iter() {
                        let fty = tcx.type_of(f.did).instantiate_identity().skip_norm_wip();
                        let vis = match f.vis {
                            ty::Visibility::Public => "pub".to_string(),
                            ty::Visibility::Restricted(m) => {
                                if m.is_crate_root() {
                                    "crate".to_string()
                                } else {
                                    format!("in:{}", key_of(tcx, m))
                                }
                            }
                        };
                        fs.push(format!(
                            "{{\"name\":{},\"ty\":{},\"vis\":{}}}",
                            json::s(&f.name.to_string()),
                            json::s(&ty_s(fty)),
                            json::s(&vis)
                        ));
                    }
                    let d = discrs
                        .iter()
                        .find(|(i, _)| *i == vidx)
                        .map(|(_, d)| {
                            // sign-extend per discr type
                            let signed = matches!(d.ty.kind(), ty::Int(_));
                            if signed {
                                let size = tcx
                                    .layout_of(ty::TypingEnv::fully_monomorphized().as_query_input(d.ty))
                                    .map(|l| l.size)
                                    .ok();
                                match size {
                                    Some(sz) => format!("{}", sz.sign_extend(d.val)),
                                    None => format!("{}", d.val),
                                }
                            } else {
                                format!("{}", d.val)
                            }
                        })
                        .unwrap_or_else(|| "null".to_string());
                    vs.push(format!(
                        "{{\"name\":{},\"discr\":{},\"fields\":{}}}",
                        json::s(&v.name.to_string()),
                        d,
                        json::list(&fs)
                    ));
                }
                let (file, line) = loc(tcx, tcx.def_span(did));
                out.push_str(&format!(
                    "{{\"k\":\"adt\",\"key\":{},\"kind\":{},\"file\":{},\"line\":{},\"variants\":{}}}\n",
                    json::s(&key_of(tcx, did)),
                    json::s(&format!("{:?}", tcx.def_kind(did))),
                    json::s(&file),
                    line,
                    json::list(&vs)
                ));
            }
            DefKind::Impl { of_trait } => {
                let self_ty = ty_s(tcx.type_of(did).instantiate_identity().skip_norm_wip());
                let tr = if of_trait {
                    Some(key_of(tcx, tcx.impl_trait_ref(did).instantiate_identity().skip_norm_wip().def_id))
                } else {
                    None
                };
                let mut ms: Vec<String> = Vec::new();
                for &ai in tcx.associated_item_def_ids(did) {
                    if matches!(tcx.def_kind(ai), DefKind::AssocFn) {
                        let titem = tcx
                            .opt_associated_item(ai)
                            .and_then(|a| a.trait_item_def_id())
                            .map(|d| key_of(tcx, d));
                        ms.push(format!(
                            "{{\"name\":{},\"key\":{},\"trait_item\":{}}}",
                            json::s(&tcx.item_name(ai).to_string()),
                            json::s(&key_of(tcx, ai)),
                            json::opt_s(titem.as_deref())
                        ));
                    }
                }
                let (file, line) = loc(tcx, tcx.def_span(did));
                out.push_str(&format!(
                    "{{\"k\":\"impl\",\"trait\":{},\"self\":{},\"file\":{},\"line\":{},\"methods\":{}}}\n",
                    json::opt_s(tr.as_deref()),
                    json::s(&self_ty),
                    json::s(&file),
                    line,
                    json::list(&ms)
                ));
            }
            DefKind::Trait => {
                let mut ms: Vec<String> = Vec::new();
                for &ai in tcx.associated_item_def_ids(did) {
                    if matches!(tcx.def_kind(ai), DefKind::AssocFn) {
                        let has_default = tcx.associated_item(ai).defaultness(tcx).has_value();
                        ms.push(format!(
                            "{{\"name\":{},\"key\":{},\"provided\":{}}}",
                            json::s(&tcx.item_name(ai).to_string()),
                            json::s(&key_of(tcx, ai)),
                            has_default
                        ));
                    }
                }
                out.push_str(&format!(
                    "{{\"k\":\"trait\",\"key\":{},\"methods\":{}}}\n",
                    json::s(&key_of(tcx, did)),
                    json::list(&ms)
                ));
            }
            _ => {}
        }
    }
}
