use crate::json;
use rustc_hir::def::DefKind;
use rustc_hir::def_id::{DefId, LocalDefId};
use rustc_middle::mir::{
    self, AggregateKind, AssertKind, BasicBlock, Body, BorrowKind, ConstValue, Operand, Place,
    ProjectionElem, Rvalue, StatementKind, TerminatorKind,
};
use rustc_middle::ty::print::{with_crate_prefix, with_no_trimmed_paths, with_no_visible_paths};
use rustc_middle::ty::{self, Instance, Ty, TyCtxt, TypingEnv};
use rustc_span::Span;

pub fn key_of(tcx: TyCtxt<'_>, did: DefId) -> String {
    fix_crate(tcx, with_crate_prefix!(with_no_visible_paths!(with_no_trimmed_paths!(tcx.def_path_str(did)))))
}

/// `with_crate_prefix!` prints the local crate as `crate::`; substitute its real name so keys are
/// identical whether a function is seen from its own crate or from a dependent one.
pub fn fix_crate(tcx: TyCtxt<'_>, s: String) -> String {
    if !s.contains("crate::") {
        return s;
    }
    let name = tcx.crate_name(rustc_hir::def_id::LOCAL_CRATE).to_string();
    let mut out = String::with_capacity(s.len() + 16);
    let b = s.as_bytes();
    let mut i = 0;
    while i < b.len() {
        if s[i..].starts_with("crate::")
            && (i == 0 || !(b[i - 1].is_ascii_alphanumeric() || b[i - 1] == b'_'))
        {
            out.push_str(&name);
            out.push_str("::");
            i += 7;
        } else {
            let ch = s[i..].chars().next().unwrap();
            out.push(ch);
            i += ch.len_utf8();
        }
    }
    out
}

pub fn ty_s(t: Ty<'_>) -> String {
    let s = with_crate_prefix!(with_no_visible_paths!(with_no_trimmed_paths!(format!("{}", t))));
    if s.contains("crate::") {
        rustc_middle::ty::tls::with(|tcx| fix_crate(tcx, s))
    } else {
        s
    }
}

pub fn loc(tcx: TyCtxt<'_>, span: Span) -> (String, usize) {
    let sp = span.source_callsite();
    let sm = tcx.sess.source_map();
    let l = sm.lookup_char_pos(sp.lo());
    let name = match &l.file.name {
        rustc_span::FileName::Real(r) => match r.local_path() {
            Some(p) => p.to_string_lossy().to_string(),
            None => format!("{:?}", r),
        },
        other => format!("{:?}", other),
    };
    (name, l.line)
}

/// Macro / desugaring backtrace of a span, innermost first, e.g. "panic>todo" or "?".
pub fn expn(span: Span) -> Option<String> {
    if !span.from_expansion() {
        return None;
    }
    let mut names: Vec<String> = Vec::new();
    for ed in span.macro_backtrace() {
        match ed.kind {
            rustc_span::ExpnKind::Macro(_, name) => names.push(name.to_string()),
            rustc_span::ExpnKind::Desugaring(k) => names.push(format!("desugar:{:?}", k)),
            rustc_span::ExpnKind::AstPass(_) => names.push("astpass".into()),
            rustc_span::ExpnKind::Root => {}
        }
    }
    Some(names.join(">"))
}

fn place_s<'tcx>(tcx: TyCtxt<'tcx>, body: &Body<'tcx>, p: &Place<'tcx>) -> String {
    let mut projs: Vec<String> = Vec::new();
    let mut cur = mir::PlaceTy::from_ty(body.local_decls[p.local].ty);
    for elem in p.projection.iter() {
        let s = match elem {
            ProjectionElem::Deref => "\"*\"".to_string(),
            ProjectionElem::Field(f, _) => {
                let (owner, name) = match cur.ty.kind() {
                    ty::Adt(adt, _) => {
                        let vidx = cur.variant_index.unwrap_or(rustc_abi::FIRST_VARIANT);
                        let v = adt.variant(vidx);
                        let fname = v
                            .fields
                            .get(f)
                            .map(|fd| fd.name.to_string())
                            .unwrap_or_else(|| f.as_usize().to_string());
                        (key_of(tcx, adt.did()), fname)
                    }
                    ty::Tuple(_) => ("(tuple)".to_string(), f.as_usize().to_string()),
                    ty::Closure(d, _) | ty::Coroutine(d, _) | ty::CoroutineClosure(d, _) => {
                        (key_of(tcx, *d), format!("upvar{}", f.as_usize()))
                    }
                    _ => ("?".to_string(), f.as_usize().to_string()),
                };
                format!("[\"f\",{},{},{}]", f.as_usize(), json::s(&name), json::s(&owner))
            }
            ProjectionElem::Index(l) => format!("[\"i\",{}]", l.as_usize()),
            ProjectionElem::ConstantIndex { offset, min_length, from_end } => {
                format!("[\"ci\",{},{},{}]", offset, min_length, from_end)
            }
            ProjectionElem::Subslice { from, to, from_end } => {
                format!("[\"ss\",{},{},{}]", from, to, from_end)
            }
            ProjectionElem::Downcast(name, vidx) => {
                let n = name.map(|n| n.to_string()).unwrap_or_else(|| vidx.as_usize().to_string());
                format!("[\"dc\",{}]", json::s(&n))
            }
            ProjectionElem::OpaqueCast(_) => "\"oc\"".to_string(),
            ProjectionElem::UnwrapUnsafeBinder(_) => "\"ub\"".to_string(),
        };
        projs.push(s);
        cur = cur.projection_ty(tcx, elem);
    }
    format!("[{},{}]", p.local.as_usize(), json::list(&projs))
}

fn bytes_of_alloc<'tcx>(
    tcx: TyCtxt<'tcx>,
    alloc_id: rustc_middle::mir::interpret::AllocId,
    offset: u64,
    len: u64,
) -> Option<Vec<u8>> {
    let ga = tcx.try_get_global_alloc(alloc_id)?;
    let alloc = match ga {
        rustc_middle::mir::interpret::GlobalAlloc::Memory(a) => a,
        _ => return None,
    };
    let a = alloc.inner();
    let start = offset as usize;
    let end = start.checked_add(len as usize)?;
    if end > a.len() {
        return None;
    }
    Some(a.inspect_with_uninit_and_ptr_outside_interpreter(start..end).to_vec())
}

fn hex(b: &[u8]) -> String {
    let mut s = String::with_capacity(b.len() * 2);
    for x in b {
        s.push_str(&format!("{:02x}", x));
    }
    s
}

/// Render an evaluated constant value: returns JSON object fields (without braces).
pub fn const_value_fields<'tcx>(tcx: TyCtxt<'tcx>, val: ConstValue, ty: Ty<'tcx>) -> String {
    let mut f = Vec::new();
    match val {
        ConstValue::Scalar(sc) => {
            if let Ok(si) = sc.try_to_scalar_int() {
                let size = si.size();
                let bits = si.to_bits(size);
                let signed = matches!(ty.kind(), ty::Int(_));
                let v: i128 = if signed { size.sign_extend(bits) as i128 } else { bits as i128 };
                if ty.is_bool() || ty.is_integral() || ty.is_char() {
                    f.push(format!("\"v\":{}", v));
                } else {
                    f.push(format!("\"bits\":{}", bits));
                }
            } else if let mir::interpret::Scalar::Ptr(ptr, _) = sc {
                // reference to sized data: dump pointee bytes
                if let Some(pointee) = ty.builtin_deref(true) {
                    let (prov, off) = ptr.into_raw_parts();
                    let aid = prov.alloc_id();
                    if let Ok(layout) =
                        tcx.layout_of(TypingEnv::fully_monomorphized().as_query_input(pointee))
                    {
                        if layout.is_sized() {
                            if let Some(b) =
                                bytes_of_alloc(tcx, aid, off.bytes(), layout.size.bytes())
                            {
                                if b.len() <= 4096 {
                                    f.push(format!("\"raw\":\"{}\"", hex(&b)));
                                }
                            }
                        }
                    }
                }
            }
        }
        ConstValue::ZeroSized => {
            f.push("\"zst\":true".to_string());
        }
        ConstValue::Slice { alloc_id, meta } => {
            // &str or &[T]
            if let Some(pointee) = ty.builtin_deref(true) {
                let elem_size = match pointee.kind() {
                    ty::Str => Some(1u64),
                    ty::Slice(e) => tcx
                        .layout_of(TypingEnv::fully_monomorphized().as_query_input(*e))
                        .ok()
                        .map(|l| l.size.bytes()),
                    _ => None,
                };
                if let Some(es) = elem_size {
                    if let Some(b) = bytes_of_alloc(tcx, alloc_id, 0, es * meta) {
                        if b.len() <= 4096 {
                            f.push(format!("\"raw\":\"{}\"", hex(&b)));
                            f.push(format!("\"n\":{}", meta));
                        }
                    }
                }
            }
        }
        ConstValue::Indirect { alloc_id, offset }
            if matches!(ty.builtin_deref(true).map(|t| t.kind()), Some(ty::Slice(_)) | Some(ty::Str)) =>
        {
            // a wide pointer stored in memory: (ptr with provenance, len)
            if let Some(rustc_middle::mir::interpret::GlobalAlloc::Memory(alloc)) = tcx.try_get_global_alloc(alloc_id) {
                let a = alloc.inner();
                let off = offset.bytes() as usize;
                if off + 16 <= a.len() {
                    let raw = a.inspect_with_uninit_and_ptr_outside_interpreter(off..off + 16);
                    let addend = u64::from_le_bytes(raw[0..8].try_into().unwrap());
                    let len = u64::from_le_bytes(raw[8..16].try_into().unwrap());
                    let target = a.provenance().ptrs().iter().find(|(o, _)| o.bytes() as usize == off).map(|(_, p)| p.alloc_id());
                    let es = match ty.builtin_deref(true).map(|t| t.kind()) {
                        Some(ty::Slice(e)) => tcx
                            .layout_of(TypingEnv::fully_monomorphized().as_query_input(*e))
                            .ok()
                            .map(|l| l.size.bytes()),
                        _ => Some(1),
                    };
                    if let (Some(t), Some(es)) = (target, es) {
                        if let Some(b) = bytes_of_alloc(tcx, t, addend, es * len) {
                            if b.len() <= 4096 {
                                f.push(format!("\"raw\":\"{}\"", hex(&b)));
                                f.push(format!("\"n\":{}", len));
                            }
                        }
                    }
                }
            }
        }
        ConstValue::Indirect { alloc_id, offset } => {
            if let Ok(layout) = tcx.layout_of(TypingEnv::fully_monomorphized().as_query_input(ty)) {
                if layout.is_sized() {
                    if let Some(b) = bytes_of_alloc(tcx, alloc_id, offset.bytes(), layout.size.bytes())
                    {
                        if b.len() <= 4096 {
                            f.push(format!("\"raw\":\"{}\"", hex(&b)));
                        }
                    }
                }
            }
        }
    }
    f.join(",")
}

fn const_s<'tcx>(tcx: TyCtxt<'tcx>, env: TypingEnv<'tcx>, c: &mir::ConstOperand<'tcx>) -> String {
    let ty = c.const_.ty();
    let mut fields: Vec<String> = vec![format!("\"ty\":{}", json::s(&ty_s(ty)))];
    match ty.kind() {
        ty::FnDef(did, args) => {
            let (k, tr, self_ty) = resolve_callee(tcx, env, *did, args);
            fields.push(format!("\"fn\":{}", json::s(&k)));
            if tr {
                fields.push("\"tr\":true".to_string());
            }
            if let Some(s) = self_ty {
                fields.push(format!("\"self\":{}", json::s(&s)));
            }
            fields.push(format!("\"ga\":{}", json::s(&fix_crate(tcx, with_crate_prefix!(with_no_visible_paths!(with_no_trimmed_paths!(format!("{:?}", args))))))));
        }
        ty::Closure(did, _) | ty::Coroutine(did, _) | ty::CoroutineClosure(did, _) => {
            fields.push(format!("\"closure\":{}", json::s(&key_of(tcx, *did))));
        }
        _ => {
            if let mir::Const::Unevaluated(uv, _) = c.const_ {
                fields.push(format!("\"def\":{}", json::s(&key_of(tcx, uv.def))));
                if uv.promoted.is_some() {
                    fields.push("\"promoted\":true".to_string());
                }
            }
            // Promoteds cannot be evaluated before borrowck produced them; skip them.
            let is_promoted =
                matches!(c.const_, mir::Const::Unevaluated(uv, _) if uv.promoted.is_some());
            if !is_promoted {
                let generic = match c.const_ {
                    mir::Const::Unevaluated(uv, _) => {
                        use rustc_middle::ty::TypeVisitableExt;
                        uv.args.has_non_region_param()
                    }
                    _ => false,
                };
                if !generic {
                    if let Ok(v) = c.const_.eval(tcx, env, rustc_span::DUMMY_SP) {
                        let s = const_value_fields(tcx, v, ty);
                        if !s.is_empty() {
                            fields.push(s);
                        }
                    }
                }
            }
        }
    }
    format!("{{{}}}", fields.join(","))
}

fn op_s<'tcx>(tcx: TyCtxt<'tcx>, env: TypingEnv<'tcx>, body: &Body<'tcx>, o: &Operand<'tcx>) -> String {
    match o {
        Operand::Copy(p) => format!("[\"c\",{}]", place_s(tcx, body, p)),
        Operand::Move(p) => format!("[\"m\",{}]", place_s(tcx, body, p)),
        Operand::Constant(c) => format!("[\"k\",{}]", const_s(tcx, env, c)),
        #[allow(unreachable_patterns)]
        _ => "[\"?\"]".to_string(),
    }
}

/// Returns (callee key, unresolved-trait-method?, self type for trait methods)
pub fn resolve_callee<'tcx>(
    tcx: TyCtxt<'tcx>,
    env: TypingEnv<'tcx>,
    did: DefId,
    args: ty::GenericArgsRef<'tcx>,
) -> (String, bool, Option<String>) {
    let is_trait_item = tcx.trait_of_assoc(did).is_some();
    let self_ty = if is_trait_item && args.len() > 0 {
        args.get(0).and_then(|a| a.as_type()).map(|t| ty_s(t))
    } else {
        None
    };
    if !is_trait_item {
        return (key_of(tcx, did), false, None);
    }
    let resolved = std::panic::catch_unwind(std::panic::AssertUnwindSafe(|| {
        Instance::try_resolve(tcx, env, did, args)
    }));
    match resolved {
        Ok(Ok(Some(inst))) => {
            let rd = inst.def_id();
            if rd != did {
                // resolved to an impl method (or closure body etc.)
                (key_of(tcx, rd), false, self_ty)
            } else {
                // default method body of the trait or still unresolved
                let still_generic = match inst.def {
                    ty::InstanceKind::Item(_) => {
                        // provided method resolved to the trait's own default body:
                        // treat as resolved only if the receiver is concrete.
                        use rustc_middle::ty::TypeVisitableExt;
                        args.get(0).and_then(|a| a.as_type()).map(|t| t.has_non_region_param() || matches!(t.kind(), ty::Dynamic(..))).unwrap_or(true)
                    }
                    ty::InstanceKind::Virtual(..) => true,
                    _ => false,
                };
                (key_of(tcx, rd), still_generic, self_ty)
            }
        }
        _ => (key_of(tcx, did), true, self_ty),
    }
}

fn rvalue_s<'tcx>(tcx: TyCtxt<'tcx>, env: TypingEnv<'tcx>, body: &Body<'tcx>, rv: &Rvalue<'tcx>) -> String {
    match rv {
        Rvalue::Use(o, ..) => format!("[\"use\",{}]", op_s(tcx, env, body, o)),
        Rvalue::Repeat(o, n) => format!(
            "[\"repeat\",{},{}]",
            op_s(tcx, env, body, o),
            json::s(&with_no_trimmed_paths!(format!("{}", n)))
        ),
        Rvalue::Ref(_, bk, p) => {
            let m = match bk {
                BorrowKind::Shared => "s",
                BorrowKind::Fake(_) => "f",
                BorrowKind::Mut { .. } => "m",
            };
            format!("[\"ref\",\"{}\",{}]", m, place_s(tcx, body, p))
        }
        Rvalue::RawPtr(k, p) => format!("[\"rawptr\",{},{}]", json::s(&format!("{:?}", k)), place_s(tcx, body, p)),
        Rvalue::Cast(kind, o, to) => {
            let from = o.ty(&body.local_decls, tcx);
            let ks = match kind {
                mir::CastKind::IntToInt => "IntToInt".to_string(),
                mir::CastKind::FloatToInt => "FloatToInt".to_string(),
                mir::CastKind::IntToFloat => "IntToFloat".to_string(),
                mir::CastKind::FloatToFloat => "FloatToFloat".to_string(),
                mir::CastKind::Transmute => "Transmute".to_string(),
                mir::CastKind::PtrToPtr => "PtrToPtr".to_string(),
                mir::CastKind::PointerCoercion(pc, _) => format!("Coerce:{:?}", pc),
                other => format!("{:?}", other),
            };
            format!(
                "[\"cast\",{},{},{},{}]",
                json::s(&ks),
                op_s(tcx, env, body, o),
                json::s(&ty_s(from)),
                json::s(&ty_s(*to))
            )
        }
        Rvalue::BinaryOp(op, ab) => {
            let (a, b) = &**ab;
            format!(
                "[\"bin\",{},{},{}]",
                json::s(&format!("{:?}", op)),
                op_s(tcx, env, body, a),
                op_s(tcx, env, body, b)
            )
        }
        Rvalue::UnaryOp(op, a) => {
            format!("[\"un\",{},{}]", json::s(&format!("{:?}", op)), op_s(tcx, env, body, a))
        }
        Rvalue::Discriminant(p) => format!("[\"discr\",{}]", place_s(tcx, body, p)),
        Rvalue::Aggregate(kind, ops) => {
            let (k, name, variant) = match &**kind {
                AggregateKind::Array(t) => ("array", ty_s(*t), String::new()),
                AggregateKind::Tuple => ("tuple", String::new(), String::new()),
                AggregateKind::Adt(did, vidx, _, _, _) => {
                    let adt = tcx.adt_def(*did);
                    let vname = if adt.is_enum() {
                        adt.variant(*vidx).name.to_string()
                    } else {
                        String::new()
                    };
                    ("adt", key_of(tcx, *did), vname)
                }
                AggregateKind::Closure(did, _) => ("closure", key_of(tcx, *did), String::new()),
                AggregateKind::Coroutine(did, _) => ("coroutine", key_of(tcx, *did), String::new()),
                AggregateKind::CoroutineClosure(did, _) => {
                    ("coroutine_closure", key_of(tcx, *did), String::new())
                }
                AggregateKind::RawPtr(..) => ("rawptr", String::new(), String::new()),
            };
            let opl: Vec<String> = ops.iter().map(|o| op_s(tcx, env, body, o)).collect();
            format!(
                "[\"agg\",\"{}\",{},{},{}]",
                k,
                json::s(&name),
                json::s(&variant),
                json::list(&opl)
            )
        }
        Rvalue::CopyForDeref(p) => format!("[\"use\",[\"c\",{}]]", place_s(tcx, body, p)),
        other => format!("[\"other\",{}]", json::s(&format!("{:?}", other).chars().take(80).collect::<String>())),
    }
}

fn bb_id(b: BasicBlock) -> usize {
    b.as_usize()
}

pub fn emit_body<'tcx>(
    tcx: TyCtxt<'tcx>,
    ldid: LocalDefId,
    body: &Body<'tcx>,
    fallback: bool,
    out: &mut String,
) {
    let did = ldid.to_def_id();
    let kind = tcx.def_kind(did);
    let env = TypingEnv::post_analysis(tcx, did);
    let key = key_of(tcx, did);
    let (file, line) = loc(tcx, body.span);
    let is_closure = matches!(kind, DefKind::Closure);
    let parent = if is_closure || matches!(kind, DefKind::AnonConst | DefKind::InlineConst) {
        Some(key_of(tcx, tcx.local_parent(ldid).to_def_id()))
    } else {
        None
    };
    let root = key_of(tcx, tcx.typeck_root_def_id(did));
    let fnlike = matches!(kind, DefKind::Fn | DefKind::AssocFn);
    let vis = if fnlike {
        match tcx.visibility(did) {
            ty::Visibility::Public => "pub".to_string(),
            ty::Visibility::Restricted(m) => {
                if m.is_crate_root() {
                    "crate".to_string()
                } else {
                    format!("in:{}", key_of(tcx, m))
                }
            }
        }
    } else {
        "n/a".to_string()
    };
    let is_async = fnlike && tcx.asyncness(did).is_async();
    let is_const = fnlike && tcx.is_const_fn(did);
    let corok = if is_closure { tcx.coroutine_kind(did).map(|k| format!("{:?}", k)) } else { None };
    let (trait_name, impl_self, trait_item) = if fnlike {
        if let Some(impl_did) = tcx.impl_of_assoc(did) {
            let self_ty = ty_s(tcx.type_of(impl_did).instantiate_identity().skip_norm_wip());
            if let Some(tr) = tcx.impl_opt_trait_ref(impl_did) {
                let tr = tr.instantiate_identity().skip_norm_wip();
                let titem = tcx
                    .opt_associated_item(did)
                    .and_then(|ai| ai.trait_item_def_id())
                    .map(|d| key_of(tcx, d));
                (Some(key_of(tcx, tr.def_id)), Some(self_ty), titem)
            } else {
                (None, Some(self_ty), None)
            }
        } else if let Some(tr) = tcx.trait_of_assoc(did) {
            (Some(key_of(tcx, tr)), Some("Self".to_string()), Some(key.clone()))
        } else {
            (None, None, None)
        }
    } else {
        (None, None, None)
    };
    let in_test = in_cfg_test(tcx, ldid);

    out.push_str("{\"k\":\"fn\",\"key\":");
    out.push_str(&json::s(&key));
    out.push_str(&format!(
        ",\"kind\":{},\"file\":{},\"line\":{},\"vis\":{},\"async\":{},\"const\":{},\"closure\":{},\"coro\":{},\"parent\":{},\"root\":{},\"trait\":{},\"impl_self\":{},\"trait_item\":{},\"fallback\":{},\"test\":{},\"argc\":{}",
        json::s(&format!("{:?}", kind)),
        json::s(&file),
        line,
        json::s(&vis),
        is_async,
        is_const,
        is_closure,
        json::opt_s(corok.as_deref()),
        json::opt_s(parent.as_deref()),
        json::s(&root),
        json::opt_s(trait_name.as_deref()),
        json::opt_s(impl_self.as_deref()),
        json::opt_s(trait_item.as_deref()),
        fallback,
        in_test,
        body.arg_count
    ));
    // locals
    let mut locals: Vec<String> = Vec::new();
    for (_l, d) in body.local_decls.iter_enumerated() {
        locals.push(json::s(&ty_s(d.ty)));
    }
    out.push_str(",\"locals\":");
    out.push_str(&json::list(&locals));
    // user variable names
    let mut names: Vec<String> = Vec::new();
    for vdi in &body.var_debug_info {
        if let mir::VarDebugInfoContents::Place(p) = &vdi.value {
            if p.projection.is_empty() {
                names.push(format!("[{},{}]", p.local.as_usize(), json::s(&vdi.name.to_string())));
            } else {
                names.push(format!(
                    "[{},{},{}]",
                    p.local.as_usize(),
                    json::s(&vdi.name.to_string()),
                    place_s(tcx, body, p)
                ));
            }
        }
    }
    out.push_str(",\"names\":");
    out.push_str(&json::list(&names));
    // closure captures
    if is_closure {
        let caps: Vec<String> = tcx
            .closure_captures(ldid)
            .iter()
            .map(|c| json::s(&ty_s(c.place.ty())))
            .collect();
        out.push_str(",\"captures\":");
        out.push_str(&json::list(&caps));
    }
    // blocks
    out.push_str(",\"blocks\":[");
    for (bb, data) in body.basic_blocks.iter_enumerated() {
        if bb_id(bb) > 0 {
            out.push(',');
        }
        out.push_str("{\"s\":[");
        let mut first = true;
        for st in &data.statements {
            let s = match &st.kind {
                StatementKind::Assign(b) => {
                    let (p, rv) = &**b;
                    let (_, ln) = loc(tcx, st.source_info.span);
                    Some(format!(
                        "[\"=\",{},{},{}]",
                        place_s(tcx, body, p),
                        rvalue_s(tcx, env, body, rv),
                        ln
                    ))
                }
                StatementKind::SetDiscriminant { place, variant_index } => Some(format!(
                    "[\"sd\",{},{}]",
                    place_s(tcx, body, place),
                    variant_index.as_usize()
                )),
                _ => None,
            };
            if let Some(s) = s {
                if !first {
                    out.push(',');
                }
                first = false;
                out.push_str(&s);
            }
        }
        out.push_str("],\"t\":");
        let term = data.terminator();
        let (_, tline) = loc(tcx, term.source_info.span);
        let ex = expn(term.source_info.span);
        let t = match &term.kind {
            TerminatorKind::Goto { target } => format!("[\"goto\",{}]", bb_id(*target)),
            TerminatorKind::SwitchInt { discr, targets } => {
                let mut vs: Vec<String> = Vec::new();
                for (v, t) in targets.iter() {
                    vs.push(format!("[{},{}]", v, bb_id(t)));
                }
                let dty = discr.ty(&body.local_decls, tcx);
                format!(
                    "[\"sw\",{},{},{},{}]",
                    op_s(tcx, env, body, discr),
                    json::list(&vs),
                    bb_id(targets.otherwise()),
                    json::s(&ty_s(dty))
                )
            }
            TerminatorKind::Return => "[\"ret\"]".to_string(),
            TerminatorKind::Unreachable => "[\"unreach\"]".to_string(),
            TerminatorKind::UnwindResume => "[\"resume\"]".to_string(),
            TerminatorKind::UnwindTerminate(_) => "[\"abort\"]".to_string(),
            TerminatorKind::CoroutineDrop => "[\"cdrop\"]".to_string(),
            TerminatorKind::Drop { place, target, .. } => {
                format!("[\"drop\",{},{}]", place_s(tcx, body, place), bb_id(*target))
            }
            TerminatorKind::Call { func, args, destination, target, call_source, fn_span, .. } => {
                let mut f: Vec<String> = Vec::new();
                match func {
                    Operand::Constant(c) => {
                        if let ty::FnDef(fdid, fargs) = c.const_.ty().kind() {
                            let (k, tr, self_ty) = resolve_callee(tcx, env, *fdid, fargs);
                            f.push(format!("\"f\":{}", json::s(&k)));
                            let orig = key_of(tcx, *fdid);
                            if orig != k {
                                f.push(format!("\"of\":{}", json::s(&orig)));
                            }
                            if tr {
                                f.push("\"tr\":true".to_string());
                            }
                            if let Some(s) = self_ty {
                                f.push(format!("\"self\":{}", json::s(&s)));
                            }
                            f.push(format!(
                                "\"ga\":{}",
                                json::s(&fix_crate(tcx, with_crate_prefix!(with_no_visible_paths!(with_no_trimmed_paths!(format!("{:?}", fargs))))))
                            ));
                        } else {
                            f.push(format!("\"fop\":{}", op_s(tcx, env, body, func)));
                        }
                    }
                    _ => {
                        f.push(format!("\"fop\":{}", op_s(tcx, env, body, func)));
                        f.push(format!(
                            "\"fty\":{}",
                            json::s(&ty_s(func.ty(&body.local_decls, tcx)))
                        ));
                    }
                }
                let al: Vec<String> = args.iter().map(|a| op_s(tcx, env, body, &a.node)).collect();
                f.push(format!("\"args\":{}", json::list(&al)));
                f.push(format!("\"dest\":{}", place_s(tcx, body, destination)));
                f.push(format!(
                    "\"t\":{}",
                    target.map(|t| bb_id(t).to_string()).unwrap_or_else(|| "null".to_string())
                ));
                let (_, cl) = loc(tcx, *fn_span);
                f.push(format!("\"line\":{}", cl));
                f.push(format!("\"src\":{}", json::s(&format!("{:?}", call_source))));
                if let Some(e) = expn(*fn_span).or(ex.clone()) {
                    f.push(format!("\"mac\":{}", json::s(&e)));
                }
                format!("[\"call\",{{{}}}]", f.join(","))
            }
            TerminatorKind::TailCall { .. } => "[\"tailcall\"]".to_string(),
            TerminatorKind::Assert { cond, expected, msg, target, .. } => {
                let (k, ops): (&str, Vec<&Operand<'tcx>>) = match &**msg {
                    AssertKind::BoundsCheck { len, index } => ("BoundsCheck", vec![len, index]),
                    AssertKind::Overflow(op, a, b) => {
                        let n = match op {
                            mir::BinOp::Add => "Overflow:Add",
                            mir::BinOp::Sub => "Overflow:Sub",
                            mir::BinOp::Mul => "Overflow:Mul",
                            mir::BinOp::Shl => "Overflow:Shl",
                            mir::BinOp::Shr => "Overflow:Shr",
                            _ => "Overflow:Other",
                        };
                        (n, vec![a, b])
                    }
                    AssertKind::OverflowNeg(a) => ("Overflow:Neg", vec![a]),
                    AssertKind::DivisionByZero(a) => ("DivisionByZero", vec![a]),
                    AssertKind::RemainderByZero(a) => ("RemainderByZero", vec![a]),
                    AssertKind::ResumedAfterReturn(_) => ("Resumed", vec![]),
                    AssertKind::ResumedAfterPanic(_) => ("Resumed", vec![]),
                    AssertKind::ResumedAfterDrop(_) => ("Resumed", vec![]),
                    AssertKind::MisalignedPointerDereference { .. } => ("Misaligned", vec![]),
                    AssertKind::NullPointerDereference => ("NullDeref", vec![]),
                    AssertKind::InvalidEnumConstruction(_) => ("InvalidEnum", vec![]),
                };
                let opl: Vec<String> = ops.iter().map(|o| op_s(tcx, env, body, o)).collect();
                format!(
                    "[\"assert\",\"{}\",{},{},{},{},{}]",
                    k,
                    op_s(tcx, env, body, cond),
                    expected,
                    bb_id(*target),
                    json::list(&opl),
                    tline
                )
            }
            TerminatorKind::Yield { value, resume, resume_arg, .. } => format!(
                "[\"yield\",{},{},{}]",
                op_s(tcx, env, body, value),
                bb_id(*resume),
                place_s(tcx, body, resume_arg)
            ),
            TerminatorKind::FalseEdge { real_target, imaginary_target } => {
                format!("[\"fe\",{},{}]", bb_id(*real_target), bb_id(*imaginary_target))
            }
            TerminatorKind::FalseUnwind { real_target, .. } => {
                format!("[\"fu\",{}]", bb_id(*real_target))
            }
            TerminatorKind::InlineAsm { .. } => "[\"asm\"]".to_string(),
        };
        out.push_str(&t);
        out.push_str(&format!(",\"l\":{}", tline));
        if data.is_cleanup {
            out.push_str(",\"cu\":true");
        }
        out.push('}');
    }
    out.push_str("]}\n");
}

pub fn in_cfg_test(tcx: TyCtxt<'_>, ldid: LocalDefId) -> bool {
    // A crate compiled without --test has no cfg(test) items at all; under --test mark items
    // inside modules named `tests`/`test` or carrying #[test].
    if !tcx.sess.opts.test {
        return false;
    }
    let p = key_of(tcx, ldid.to_def_id());
    p.contains("::tests::") || p.contains("::test::")
}
