// Minimal JSON string helpers (no serde available to a zero-dependency driver).

pub fn esc(s: &str, out: &mut String) {
    out.push('"');
    for c in s.chars() {
        match c {
            '"' => out.push_str("\\\""),
            '\\' => out.push_str("\\\\"),
            '\n' => out.push_str("\\n"),
            '\r' => out.push_str("\\r"),
            '\t' => out.push_str("\\t"),
            c if (c as u32) < 0x20 => out.push_str(&format!("\\u{:04x}", c as u32)),
            c => out.push(c),
        }
    }
    out.push('"');
}

pub fn s(x: &str) -> String {
    let mut o = String::with_capacity(x.len() + 2);
    esc(x, &mut o);
    o
}

pub fn opt_s(x: Option<&str>) -> String {
    match x {
        Some(v) => s(v),
        None => "null".to_string(),
    }
}

pub fn list(items: &[String]) -> String {
    let mut o = String::from("[");
    for (i, it) in items.iter().enumerate() {
        if i > 0 {
            o.push(',');
        }
        o.push_str(it);
    }
    o.push(']');
    o
}
