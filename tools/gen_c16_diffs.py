#!/usr/bin/env python3
"""Development tool (never run by a check): freezes today's sync/async token differences per public entry pair into
tables/C16_diffs.json. Hand-written reasons in tables/C16_reasons.json are kept separately and merged at check time."""
import json
import os
import sys

VERIF = os.path.dirname(os.path.dirname(os.path.abspath(__file__)))
sys.path.insert(0, VERIF)
from analysis import a9, extract, facts  # noqa: E402


def main():
    d, _ = extract.facts_dir("D")
    fb = facts.load({"D": d})
    ps, un = a9.pairs(fb)
    mods = a9.private_modules(fb)
    out = {}
    for a, s in sorted(ps):
        if fb.fns[a].vis not in ("pub", "n/a"):
            continue
        oa, os_, ra, rs = a9.region_diff(fb, a, s, mods)
        if oa or os_:
            out[a] = {"async_only": [list(t) for t in oa], "sync_only": [list(t) for t in os_]}
    # type-level groups that contain an async function without a same-path twin (poll state machines, Query types ...)
    ga, gs = a9.type_groups(fb)
    unset = set(un)
    groups = {}
    ngroups = 0
    for owner, akeys in sorted(ga.items()):
        if owner not in gs or not any(k in unset for k in akeys):
            continue
        ngroups += 1
        oa, os_, ra, rs = a9.group_diff(fb, akeys, gs[owner], mods)
        if oa or os_:
            groups[owner] = {"async_only": [list(t) for t in oa], "sync_only": [list(t) for t in os_]}
    print("%d type-level groups with unpaired async methods, %d differ" % (ngroups, len(groups)))
    with open(os.path.join(VERIF, "tables", "C16_diffs.json"), "w") as fh:
        json.dump({"_comment": "frozen token differences between each public async entry point's twin-private region and its sync twin's. "
                               "Untriaged unless tables/C16_reasons.json names the pair. The check reports tokens that are NOT listed here.",
                   "pairs": out, "groups": groups, "unpaired_async": sorted(un)}, fh, indent=0, sort_keys=True)
    print("%d public entry pairs differ today (of %d); %d async functions have no same-path sync twin" % (
        len(out), sum(1 for a, s in ps if fb.fns[a].vis in ("pub", "n/a")), len(un)))


if __name__ == "__main__":
    main()
