#!/bin/sh
# Development helper (never run by a check): applies a patch to /repo, runs every check (quick tier) with the evidence
# redirected to a scratch directory, prints the VIOLATION keys, and undoes the patch straight afterwards.
#   tools/try_patch.sh <patch> [ids...]
p="$1"; shift
ids="${*:-C01 C02 C03 C04 C05 C06 C07 C09 C10 C11 C12 C13 C14 C15 C16 C17 C18 C19 C20}"
ev=$(mktemp -d)
git -C /repo apply "$p" || exit 2
for id in $ids; do
  VERIF_EVIDENCE_DIR=$ev /verif/check $id quick 2>&1 | grep -E "^VIOLATION|violation:|  key=" | sed "s/^/$id: /" | cut -c1-420
done
git -C /repo checkout -- .
git -C /repo status --short | head -3
python3 - "$ev" <<'P'
import json,sys,glob,os
for f in sorted(glob.glob(sys.argv[1]+"/*.json")):
    d=json.load(open(f))
    v=[x for x in d.get("violations",[])] if isinstance(d.get("violations"),list) else []
    for x in v: print(os.path.basename(f)[:-5], "KEY", (x.get("key") if isinstance(x,dict) else x))
P
rm -rf "$ev"
