#!/usr/bin/env python3
"""Development helper: saves a confirmed seeded change from /tmp/wt/<wid>-out to /verif/seeded/<name>/ and removes the worktree.
usage: save_seed.py <wid> <name> <meta.json fragment file>"""
import json, os, re, shutil, subprocess, sys
wid, name, metaf = sys.argv[1:4]
pid = wid[:3]
dst = "/verif/seeded/" + name
os.makedirs(dst, exist_ok=True)
src = "/tmp/wt/%s-out" % wid
shutil.copy(src + "/patch.diff", dst + "/patch.diff")
if os.path.exists(src + "/notes.md"):
    shutil.copy(src + "/notes.md", dst + "/notes.md")
if os.path.exists(dst + "/demo"):
    shutil.rmtree(dst + "/demo")
shutil.copytree(src + "/demo", dst + "/demo", ignore=shutil.ignore_patterns("target"))
ct = dst + "/demo/Cargo.toml"
s = open(ct).read()
s = re.sub(r'path = "(?:\.\./\.\./|/tmp/wt/)%s/' % wid, 'path = "/repo/', s)
open(ct, "w").write(s)
m = {"property": pid}
m.update(json.load(open(metaf)))
m["origin"] = "independent sub-agent given only the property text and a scratch worktree (second round: asked for a change of a different kind than the first seed)"
m["ran"] = "git -C /repo apply seeded/%s/patch.diff; ./check <ids>; git -C /repo checkout -- ." % name
json.dump(m, open(dst + "/meta.json", "w"), indent=1)
subprocess.call(["git", "-C", "/repo", "worktree", "remove", "--force", "/tmp/wt/" + wid])
for p in ("/tmp/wt/%s-out" % wid, "/tmp/wt/%s-target" % wid):
    shutil.rmtree(p, ignore_errors=True)
for f in os.listdir("/tmp/wt"):
    if f.startswith(wid + "-") and f.endswith((".log", ".txt")):
        os.remove("/tmp/wt/" + f)
print("saved", dst, os.listdir(dst))
