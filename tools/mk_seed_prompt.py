#!/usr/bin/env python3
"""Development helper: writes /tmp/wt/<pid>b-prompt.txt for a second-round seeding sub-agent (property text + anchors +
the summary of the first-round seed so that it picks something different). Contains nothing from /verif's checks."""
import glob, json, sys
prev = {}
for m in sorted(glob.glob('/verif/seeded/*/meta.json')):
    d = json.load(open(m))
    prev.setdefault(d['property'], []).append(d['summary'].split('. ')[0][:300])
props = {}
for l in open('/verif/properties.jsonl'):
    p = json.loads(l)
    props[p['id']] = p
suffix = sys.argv[1]
for pid in sys.argv[2:]:
    p = props[pid]
    w = pid + suffix
    others = " / ".join('"%s"' % x for x in prev.get(pid, []))
    prompt = f"""You are helping to test a verification framework by playing the role of a developer who introduces a subtle regression.

Workspace: a git worktree of the Rust workspace zaeleus/noodles (bioinformatics format readers/writers) at /tmp/wt/{w}. Work ONLY inside /tmp/wt/{w} and /tmp/wt/{w}-out. Do NOT read or touch /verif or /repo. There is no network: always pass --offline to cargo and use `CARGO_TARGET_DIR=/tmp/wt/{w}-target` for every cargo command. Do not commit anything.

The property (full text with anchors in /tmp/wt/{w}-property.txt — read it first):

{pid} — {p['title']}. {p['statement']}

Quantified over: {p['quantifier']['text']}

Anchor files named by the property: {', '.join(p['anchors']['files'])}

Task: make ONE small source change to the noodles library code that BREAKS this property while (a) the whole workspace still compiles (`cargo check --workspace --offline --all-features`) and (b) the existing unit tests still pass: run `cargo test --workspace --offline --lib` and make sure nothing fails (1125 tests). The change must need a particular input, call history, schedule or fault position to manifest — something the existing single-literal unit tests do not exercise. Make it look like a plausible refactoring slip or a well-meant optimisation, not sabotage.

Other developers already made these changes for the same property, so do something of a DIFFERENT kind, in a different function and preferably a different file, exercising a different clause of the property: {others}. Prefer a clause or an anchor file that looks less obvious (async twins, multithreaded variants, index files, the less common format or code path).

Then write a demonstration: a small Rust program (own cargo project under /tmp/wt/{w}-out/demo/ with path dependencies on the needed noodles crates under /tmp/wt/{w}; copy /tmp/wt/{w}/Cargo.lock next to the demo's Cargo.toml; add an empty `[workspace]` table) that exercises the property over a reasonable set of inputs and exits non-zero when the property is violated. It must FAIL with your change applied and PASS on the unmodified code (revert with `git apply -R /tmp/wt/{w}-out/patch.diff` and re-apply with `git apply`; do NOT use `git stash`, its ref is shared between worktrees). Verify both, using `CARGO_TARGET_DIR=/tmp/wt/{w}-target`.

Deliverables in /tmp/wt/{w}-out/: patch.diff (`git diff` of ONLY the noodles source change), demo/ (without build output), notes.md (what the change is, why it breaks the property, what input/history it needs, commands and results). Leave the worktree with the change applied. Keep your final answer short: the change, the file, test result, demo result."""
    open(f'/tmp/wt/{w}-prompt.txt', 'w').write(prompt)
    print(w, len(prompt))
