#!/usr/bin/env python3
"""Regenerates /verif/MANIFEST.json from the table below (kept next to the checks so the two stay in step)."""
import json
import os

VERIF = os.path.dirname(os.path.dirname(os.path.abspath(__file__)))

CLAIMED = {
    "C01": {
        "text": "Structural necessary conditions of the BGZF identity decided on every path of the MIR: constants and the "
                "block budget vs SAMv1 §4.1 (rustc const-eval), staging-buffer ownership and min() bound, checked BSIZE/ISIZE "
                "conversions, finalisation must-pass-through (flush, write_frame, EOF marker in finish/try_finish/Drop), and "
                "reader integrity guards (CRC32, ISIZE, header, frame size), and the direct-read fast path leaving the block consumed (last-writer rule). Not the payload round trip itself.",
        "note": "trusts zlib-rs deflate/inflate and std write_all/read_exact; decides shape, not values; R9 async poll_flush hands the split block to the sink before any Pending return; round 8: R10 raw write sites of the BGZF writers are delegations or advance loops (seed: EOF marker with one poll_write)",
        "technique": "static analysis: MIR must-pass-through + guard dominance + who-may-write + const relations (rustc_private driver)",
        "design_ref": "§5 C01",
    },
}

CLAIMED.update({
    "C12": {
        "text": "Transfer discipline decided for every raw read / fill_buf call site of the workspace (sync and async): each site is "
                "classified from the MIR as delegation, loop (with Interrupted retry), scan-in-loop or peek-1; a site that takes a "
                "short read for the whole transfer or needs k>1 bytes of one fill_buf window is a violation. Also the EOF-vs-partial "
                "guard of the read-N-or-EOF helpers (incl. cursor accumulation), LF/CR stripping of the line readers, CR of a CRLF split across two windows, copy-before-consume "
                "in every copying scanner. Necessary conditions only: content "
                "equality under every chunking is not decided.",
        "note": "trusts std/tokio read_exact/read_until/BufReader contracts; known finding F6 (noodles-util autodetection) listed by exact key; genuine defect F16 (async FASTA CRLF across windows) found by R6 and repaired (fix: 981b297); R9 keeps the latent CrcReader slip (digests the whole filled part) unreachable; genuine defect F33 (FASTQ name keeps the CR across a refill) found after teaching R6's matcher memchr3, repaired (fix: 750caf3); genuine defect F47 (Interrupted through the text readers' fill_buf loops, 15 sites) repaired (fix: d617af0; R11); round 8: R12 header sub-reader state agreement; the discard_to_end remainder of F47 repaired (fix: a2c696e), R11 now without exemption",
        "technique": "static analysis: call-site classification by natural loops, enclosing trait method and forward data flow of the returned slice (MIR)",
        "design_ref": "§5 C12",
    },
    "C14": {
        "text": "Error discipline decided workspace-wide on MIR: every discarded Result (let _ / .ok() / drop / unused) and every io::Result "
                "match whose Err arm reaches a success exit must be in a confirmed table; no raw write outside delegation or a zero-checked "
                "advance loop; finish/try_finish/shutdown/Drop of every writer pass the flush of staged data and the format terminator; "
                "MT writer joins and propagates; no raw sink flush/write inside a staging write(); a writer created and dropped inside one function is flushed/finished on every Ok path (an escaping Interrupted makes write_all duplicate data). "
                "Necessary conditions: an error can only be hidden through one of these shapes.",
        "note": "trusts write_all semantics; known finding F10 (bam alignment Write::finish no-op) listed by exact key; genuine defect F23 (six index fs::write helpers returned Ok without flushing) found through R6 and repaired (fix: 0ef2a68); genuine defect F36 (async BGZF shutdown order) repaired (fix: f30bfbd; R3 rewritten as an ordering rule); R7 local BufWriter flushed; round 7: genuine defect F50 (SAM finish no-op behind builder buffers) repaired (fix: 659a733); the NOOP_OK exemption table is empty",
        "technique": "static analysis: def-use discard detection, Err-edge reachability, must-pass-through with wrapper summaries (MIR)",
        "design_ref": "§5 C14",
    },
})

CLAIMED.update({
    "C02": {
        "text": "Structural necessary conditions of tell/seek consistency: typestate 'no stale block after reposition' in all four seek "
                "implementations (must-pass-through from the inner seek to every success exit), the in-block offset stored only on the "
                "edge where it was compared with the loaded block's length, one definition of the virtual position with confirmed "
                "writers of every position field, the paired-guard constant of the direct-read fast path, every emitted frame advancing the writer position by its size, "
                "and every stamped block moving the reader's running position past it (all four reader variants). The reference-model "
                "equality over histories and gzi boundary arithmetic are not decided.",
        "note": "trusts inner Seek::seek; two genuine defects found by these rules were repaired (fix: commits 4ec97ac, 96ce989); genuine defect F29 (async poll_seek answered a repeated request without seeking) repaired (fix: d58c4c8; rule R7); the gzi exact-hit seed (round 4) stays invisible (value-level); genuine defect F42 (async seek: unvalidated offset, position lost at end of stream; it had been excused in R2's caller table) repaired (fix: 788e61a); round 8: R1 clause — both seeks re-stamp the discarded block themselves (seed: tell() after a seek to the end)",
        "technique": "static analysis: must-pass-through typestate, guard dominance, who-may-write/who-may-call tables (MIR)",
        "design_ref": "§5 C02",
    },
})

CLAIMED.update({
    "C03": {
        "text": "Schedule independence argued from ownership and FIFO tickets, each decided on the resolved program: closure-capture "
                "facts show the sink/source is owned by one thread and workers hold only their payload and result slot; the ticket "
                "(a Receiver, checked from resolved generic args) is enqueued in the caller's body before the work is spawned "
                "(dominance); the consumer blocks on the dequeued ticket (callee is Receiver::recv, never try_recv) before write_frame; "
                "EOF marker before Ok; MT and ST writers share the chunking constant (evaluated) and codecs; no explicit panic in the MT writer (the Done state entered after a sink failure is an error exit). Termination of finish() is not decided.",
        "note": "trusts crossbeam FIFO, rayon::spawn-once, JoinHandle::join; no yield hook is needed by this technique; genuine defect F9 (finish() panicked after a surfaced sink failure) repaired (fix: e72c97b); R9 sibling rule: every BGZF reader skips empty blocks; round 8: genuine defect F64 (failed block: buffer dropped, position not advanced) repaired (fix: f8994d2; R10); round 9: R11 the caller's bytes reach only the staging buffer (seed: block cut straight from the caller's slice)",
        "technique": "static analysis: closure-capture ownership, dominance of ticket send over spawn, callee identity of blocking receives (MIR)",
        "design_ref": "§5 C03",
    },
})

CLAIMED.update({
    "C15": {
        "text": "Panic-site inventory over the call-graph closure (CHA) of every public read-side entry point: explicit panics are "
                "hand-triaged (safe with reason / genuine defect = known finding / unproven), constant-index and constant-divisor sites "
                "are discharged automatically, every other unwrap/index/slice/div/shift site is held against a frozen per-function "
                "baseline that is explicitly not a claim of safety. Decides: no new panic-capable construct in decode-reachable code, "
                "and the guards that keep lazy views safe. Does not decide loops, stack or allocation, nor the baseline sites themselves.",
        "note": "baseline sites are undecided (evidence counts them); 23 known-finding keys (F5, F15) by exact key and multiplicity; seven read-side panics repaired (fix: 5f315e7, 393a12a, 205b072, 474c4ae, e6f4867, 3c0880c, 0fe9510); genuine defect F30 (line readers stripped a CR of an earlier field: accessor panic on a record returned Ok) repaired (fix: bcc5e0d; rule P); rule L: fill_buf loops end at EOF; genuine defect F34 (unfused lazy field iterators) repaired (fix: 696297b; rule F); F41 (hostile CRAM mate distance panicked; fix: e24db8a; guard rule G); round 7: genuine defects F51 (CG of any subtype; fix: 1b80ca6; rule C), F52 (capacity from a 64-bit count; fix: f751d59; rule A), F53 (GFF attributes iterator; fix: 2f35186; rule F generalised), F54 (character count as byte offset, three sites; fixes: c6a6d13, 88b7da5, b866943; rule U) repaired",
        "technique": "static analysis: whole-workspace call graph with class-hierarchy expansion, panic-construct inventory on MIR, constant-folding discharge, ratchet against reviewed tables",
        "design_ref": "§5 C15",
    },
})

CLAIMED.update({
    "C09": {
        "text": "Escaping half of the VCF round trip decided structurally: the evaluated percent-encode sets (and the character writers' "
                "matches! patterns) contain the VCF §1.2 reserved bytes and every delimiter constant the column's readers split on; "
                "a column encoded on write is decoded in every read view (eager, lazy, array iterators: callers of the shared decoder); "
                "lone '.' escape present; Character values decoded by every reader that extracts a single character; variant span has one provided implementation; every success path of the parser resets each column of a reused "
                "RecordBuf (samples tabled as not decided); line buffers are reset before each appended line. Value equality over the grammar is not decided.",
        "note": "trusts the percent-encoding crate; delimiter harvest is by named constants with a floor; genuine defects F17 (per-window UTF-8 validation) and F18 (eager Character not decoded) repaired (fix: ee4ec0f, 1c67b13); two seeded changes of value-level kind are documented misses; R11 element-wise reset of the per-sample rows; genuine defect F46 (FORMAT numbers of VCF 4.5 written but not parsed) repaired (fix: ecfda04; R13); R12 decode after split; round 8: R14 stateful closing-quote scan of the header string parser; genuine defect F55 (header writer dropped IDX) repaired (fix: 3212899; rule R15 field coverage)",
        "technique": "static analysis: evaluated AsciiSet constants vs spec table, HIR match-pattern sets, caller sets of encode/decode helpers, trait impl table",
        "design_ref": "§5 C09",
    },
    "C11": {
        "text": "Guards of indexed FASTA access decided on MIR: offset returned only after start was compared with the sequence length, "
                "bounded copy min(remaining, window) in the limited sequence reader, indexer's consistency comparisons reach error exits "
                "and records are emitted only after the last-line test, fill_buf scanners are not window-assuming, FASTQ read_record resets the reused "
                "record with a field-complete clear(), append-buffer discipline of all FASTA/FASTQ readers, CR handling of the sequence scanners independent of the fill_buf window. Offset arithmetic is not decided.",
        "note": "one genuine defect found by R1 was repaired (fix: 95ab786); the `%`-operand arithmetic mutant of DESIGN §2 stays invisible; round 8: R10 no ordered lookup over the file-ordered fai records",
        "technique": "static analysis: guard dominance, data-flow of min() into extend/consume, must-pass-through (MIR)",
        "design_ref": "§5 C11",
    },
    "C18": {
        "text": "Escaping clauses decided structurally: per GFF3 column encoded-on-write iff decoded-in-every-read-view (caller sets), evaluated "
                "attribute/seqid encode sets vs the GFF3 spec and vs reader delimiter constants, GTF escape set of the writer equals the set "
                "the reader accepts after a backslash (match-pattern tables), values always quoted, owned record built from the lazy accessors, "
                "line buffers reset before every appended line (incl. the blank-line skip loop), BED field scanner copies before it consumes, "
                "the GTF closing-quote scan knows the escape character, owned GFF comments are built from as_comment, BED read_record_N resets every reused field.",
        "note": "known findings F7 (seqid encoded, never decoded) and F15 by exact key; genuine defects F27 (93f23c6) and F28 (c4084e9) found by R3/R4 and repaired; equality over arbitrary UTF-8 not decided; R8 no float->int / narrowing `as` casts in the text writers; round 7: R3 escape-state clause (seed: closing quote by look-behind of one byte); round 9: R9 the lazy directive view does not trim",
        "technique": "static analysis: evaluated AsciiSet constants, HIR match-pattern sets, caller sets of encode/decode helpers",
        "design_ref": "§5 C18",
    },
})

CLAIMED.update({
    "C16": {
        "text": "Cross-check of every public async function against its same-path sync twin (286 pairs) and of async types against the "
                "same-path sync types (34 groups): semantic token sets of the twin-private call regions (shared-code calls, transfer "
                "widths/endianness with multiplicity, constants, ErrorKinds, try_from type pairs, casts) must be equal modulo a frozen, "
                "partly triaged difference table. Decides: no twin was edited alone (dropped validate/intersects/resolve, changed width, "
                "endianness, magic or conversion), plus the stamp/position pairing of the async BGZF reader. Does not decide equality under every poll schedule, nor order of operations.",
        "note": "the sync side is pinned by the unit tests; frozen differences are recorded behaviour, not claimed equivalent; a benign one-sided edit that adds a token is reported (documented precision limit); genuine defect F29 repaired (fix: d58c4c8; rules R4 drained value vs Pending, R5 state machine); genuine defect F32 (async CSI writer omitted n_ref; it sat in the frozen difference table) repaired (fix: b31c2e2); round 7: genuine defects F48 (async CSI loffset; fix: a197616) and F49 (async FASTA read_sequence count; fix: d7fa034; R8) repaired; R7 digesting-wrapper rule shared with C12.R9; round 9: R9 loop-exit signature of plain helper twins (seed: ancestor walk of the async CSI writer stops early)",
        "technique": "static analysis: Engler-style sibling cross-checking over resolved call regions and MIR token multisets",
        "design_ref": "§5 C16",
    },
})

CLAIMED.update({
    "C05": {
        "text": "Structural necessary conditions of the BAM record codec: no non-constant narrowing `as` cast in the encoder/writer closure "
                "that the interval domain or a confirmed table does not cover, lengths/counts through try_from, CIGAR-overflow pairing "
                "(CG tag on encode, resolve on decode, lazy view) by must-pass-through, confirmed writers of the raw record buffer with "
                "validation on both read paths, dec∘enc = id exhaustively for the kind/type/subtype tables, reg2bin geometry constants, and the reused-destination rule: every success path of "
                "decode() overwrites or clears each RecordBuf column; the length-prefix read loop advances its cursor and returns Ok only on nothing-or-everything. Whole-record equality and value boundaries are not decided.",
        "note": "interval reasoning is dominance-based; three casts are tabled with reasons; R10 writer scratch buffer cleared before the fill; genuine defect F44 (two CG fields when a lazy record with a long CIGAR is re-written) repaired (fix: b489e11; R3); round 8: R11 overflow-CIGAR placeholder length = l_seq; genuine defect F58 (lazy Subsequence iterator dropped bases) repaired (fix: 4a87093; rule R12)",
        "technique": "static analysis: interval domain over MIR for casts, must-pass-through, who-may-write, HIR match-table agreement, evaluated constants",
        "design_ref": "§5 C05",
    },
})

CLAIMED.update({
    "C10": {
        "text": "Structural half of the BCF typed encoding: value-range and reserved-code constants vs BCFv2.2 §6.3.3 (evaluated), every "
                "`as i8`/`as i16` in the encoder proven by the interval domain to lie inside [MIN_VALUE, MAX_VALUE] (reserved codes excluded), "
                "width dispatch compares against exactly those constants, dec∘enc = id for the type-descriptor codes against both decoders, "
                "explicit panics in the encoder closure vs a triaged table, string-map lookups are error exits, the decoder overwrites every column of "
                "the reused vcf RecordBuf, the per-type copies of the FORMAT value decoders agree on the guards under which a sample is missing. Record equality and "
                "per-sample padding are not decided.",
        "note": "one genuine defect (encoder todo!() on a missing INFO value) was repaired (fix: d137c9d); R9 grow-only dictionary, R10 dictionary numbering order (writer collections vs header text); genuine defect F43 (genotype padding inside the allele loop: mixed ploidy corrupted) repaired (fix: cf547a4; R11); F45 (phasing of a missing allele lost; fix: a1364e4; R12); round 8: R13 implicit phasing visits every allele; genuine defects F56 (scalar from an array-typed lazy INFO reader; fix: 01b4831; R14) and F57 (unchecked i8 allele code; fix: 17eaf3d; R15) and F60 (lazy array len counted padding: lazy BCF copy written short; fix: 4cc17cf; R16) and F61 (missing sample genotype refused by the writer; fix: 7205bc3; R17) repaired",
        "technique": "static analysis: interval domain with dominating guards over MIR, evaluated constants, HIR match-table agreement, panic inventory",
        "design_ref": "§5 C10",
    },
})

CLAIMED.update({
    "C07": {
        "text": "Container-conformance clauses decided structurally: EOF container bytes (evaluated static) vs CRAMv3 §9 and, by offset, vs the "
                "reader's is_eof constants; finalisation must-pass-through; CRC32/MD5 integrity guards on every success exit of the block and "
                "container-header readers (sync and async) and the writer's CRC taken from its CrcWriter; dec∘enc = id for all CRAM code tables; "
                "Encoder->CompressionMethod labelling; the 28 data series and the guard edges that dominate each accessor call agree between "
                "slice reader and slice writer (guard signatures); AP delta symmetry; append-buffer discipline of the header/token readers. Record equality and codec correctness are not decided.",
        "note": "trusts flate2 CRC and md5; symmetric read_x/write_x structure is floor-checked; three guard asymmetries are tabled with reasons; known finding F31 (quality-score-array flag set for QUAL * records: noodles' own output unreadable) by exact key (rule R9); genuine defect F35 (fqzcomp block raw size) repaired (fix: 56b15b8; rule R10); genuine defects F38 (unnamed record shifts the names after it; fix: c0147a7; R11) and F39 (version 3.0 declared with fqzcomp / a 3.1 default encoder; fix: c5a1551; R12) repaired; F40 (TLEN sign by file order; fix: 19a8e71; R13) repaired; round 7: R15 memo coherence (seed: stale reference-sequence memo in Slice::records); round 9: R16 substitution-matrix row sorted as a whole; genuine defect F65 (TLEN of mates on different references) repaired",
        "technique": "static analysis: evaluated constants, guard dominance, HIR match-table agreement, guard-signature comparison of sibling codecs (MIR edge dominance)",
        "design_ref": "§5 C07",
    },
})

CLAIMED.update({
    "C04": {
        "text": "Four structural necessary conditions of query = scan, explicitly partial: every query loop (8 sync/async instances + CSI "
                "FilterByRegion) returns a record only on the true edge of its intersects(..)? test; the five indexers build each chunk from a "
                "position before and a position after the same record read (def-use); one span definition shared by indexer and filter; "
                "add_record rejects unsorted input; unmapped queries filter per record (never by a prefix combinator); binned-index min_offset is a minimum over several bins; reg2bin (indexer) and reg2bins (query) agree on the coordinate convention (exactly one `- 1` on start/end before the shifts). The heart of C04 — bin assignment, "
                "chunk merging and pruning for every layout x region — is coordinate arithmetic and is NOT decided.",
        "note": "weak claim by design; a genuine completeness defect in the CSI min_offset (found by reading, not by a rule) was repaired (fix: 42bd27d) and R5 pins its necessary condition; R8 decides the unbounded-interval shortcut by a finite presence table (A11), rows with unmodelled constructs are not decided; round 8: R10 completeness of the four sync query filter loops (seed: early stop at the first non-intersecting record)",
        "technique": "static analysis: edge dominance of the filter test over record-returning exits, def-use ordering of chunk bounds, trait impl table (MIR/HIR)",
        "design_ref": "§5 C04",
    },
    "C13": {
        "text": "Structural necessary conditions for 'a cut file never reads as clean and complete': EOF-vs-partial guard of the BAM/BCF record "
                "readers, read_exact for bodies, CRC/ISIZE/frame-size integrity guards of BGZF and CRAM on every success exit, CRAM Ok(0) only on "
                "the is_eof edge dominated by the header CRC comparison, index readers without raw read() and with try_from-converted counts, "
                "no untabled error-to-success conversion, the bgzf block loader returning a nonzero length only for a block it read. Prefix equality of what was yielded is not decided.",
        "note": "the never-panics clause is C15's inventory; a BGZF file cut at a block boundary reads as a shorter clean stream by format design; genuine defects F25 (eager BCF reader: partial prefix = EOF, previously mis-triaged as safe by this suite) and F26 (bgzf direct read fabricated bytes at EOF) repaired (fix: abb968d, 24c37d2); R7 fill_buf loops have an emptiness-controlled exit (no hang on truncation); R8 no Result consumed as an iterator; round 7: R9 read_exact contract (seed: MT reader read_exact answering Ok for a partly filled buffer); genuine defect F63 (rejected block served on the next read) repaired (fix: 3c2f25e; R10); round 9: R11 no chunks(n) in the index readers (seed: gzi reader panicking on a cut entry)",
        "technique": "static analysis: guard dominance, call-site classification, Err-edge reachability (MIR)",
        "design_ref": "§5 C13",
    },
})

CLAIMED.update({
    "C17": {
        "text": "Index-file pairing clauses only: metadata pseudo-bin identified through Bin::metadata_id by all 12 reader/writer functions of "
                "BAI/CSI/tabix (sync+async), evaluated id/chunk-count constants, pseudo-bin counted and written on every success path on which metadata is "
                "present (path rule over six write_bins bodies), duplicate bins rejected, magic numbers single-sourced, optional trailing count read as "
                "optional, reg2bin/reg2bins coordinate convention, append-buffer discipline of the text index readers (crai, fai). Binning arithmetic (reg2bin ∈ reg2bins, optimize_chunks) and "
                "byte layout are NOT decided.",
        "note": "genuine defect F14 (crai read_index never cleared its line buffer: every multi-entry CRAI unreadable) found by R7 and repaired (fix: f7bcce1); the CSI loffset write transform (read(write(ix)) != ix, findings/repro f4) is query-equivalent after fix 42bd27d and therefore not armed; genuine defect F32 repaired (fix: b31c2e2); R10 no raw read() in index readers; round 7: R11 linear-index window convention (seed: start >> 14 on a 1-based position); round 9: R12 the CSI readers keep every loffset whatever its value (seed: async reader dropping loffset 0)",
        "technique": "static analysis: caller sets, evaluated constants, presence/dominance of the pseudo-bin guards (MIR)",
        "design_ref": "§5 C17",
    },
    "C19": {
        "text": "Narrow claim: CRAM query returns records only behind the reference-id + interval test (sync and async), the container loader "
                "filters index entries by reference, fs::index dispatches multi-reference slices to per-reference entries and derives the slice "
                "length from landmarks, crai writer/reader columns, slice span accumulated as (min start, max end). That spans and offsets are true and that query = scan for every layout are NOT decided.",
        "note": "two genuine defects repaired (fix: 393a12a, 473fa0d); known finding F12a (fs::index decodes multi-reference slices with an empty repository) by exact key; round 8: R7 per-slice accumulator scope (seed: range map hoisted out of the slice loop)",
        "technique": "static analysis: edge dominance of the filter over record-returning exits, dispatch reachability, data flow of the repository argument (MIR)",
        "design_ref": "§5 C19",
    },
    "C20": {
        "text": "Detection/dispatch tables: util magic literals equal the writers' constants (evaluated); reader-builder and writer-builder map "
                "every (Format, CompressionMethod) key to the same inner variant with a constructor of that format crate and bgzf wrapping iff "
                "compressed (HIR match-arm tables, alignment+variant, sync+async); detection window assumption (known finding F6); finish reaches "
                "every arm and every generic writer has a finishing call dispatching to all arms; default compression; configuration plumbing: every field of every workspace Builder struct is read by a consumer (an option "
                "stored by a setter cannot be silently ignored). Conversions are NOT decided.",
        "note": "R2 found a genuine defect (swapped BCF writer arms), repaired (fix: 087a76d); the variant writers (sync and async) had no finishing call at all, repaired (fix: 34fcaac, 5e6a7ff; rule R4/no-finisher); F6 listed by exact keys; R6 VCF->BCF dictionary order (shared with C10.R10); round 8: R8 dispatch agreement of the noodles-util wrappers (seed: Bam arm forwarding to another accessor); genuine defects F59 (empty SAM.gz not detected; fix: d0bdd27; R9) and F62 (CRAM records lost between read_record and records(); fix: 89a43dd; R10) repaired",
        "technique": "static analysis: HIR match-table agreement between sibling builders, evaluated constants, fill_buf window classification",
        "design_ref": "§5 C20",
    },
})

CLAIMED.update({
    "C06": {
        "text": "Structural half of the SAM text round trip: write_record calls the twelve field writers in SAM column order and feeds each from "
                "the accessor of that column; the k-th split field of the eager parser reaches the setter of column k (data flow, insensitive "
                "to statement order); dec∘enc = id for the text codings of CIGAR kinds, aux types (many-to-one: width is not carried) and array "
                "subtypes against all decoders of the family incl. the lazy record's; missing markers; BAM header dictionary check; RNEXT '='; every success "
                "path of the parser resets each column of a reused RecordBuf; every appended line buffer is reset first (append-buffer discipline). "
                "Float text, integer widths, fixed-point equality and the header grammar are NOT decided.",
        "note": "value formatting is unit-test territory; R8 packed sequence bytes are never decoded without the base count; round 7: R9 no raw write in the SAM text writers (seed: SEQ handed over with one write); round 9: R10 no unproven narrowing cast in the SAM text writers (seed: float written through i32)",
        "technique": "static analysis: call sequences in reverse post-order, def-use from split/accessor to setter/writer, HIR match-table agreement, evaluated constants",
        "design_ref": "§5 C06",
    },
})

NOT_APPLICABLE = {
    "C08": "every clause is numeric (rANS/arith/fqzcomp state arithmetic, ITF8/LTF8 bit arithmetic): correct and off-by-one "
           "implementations have the same code shape, so no sound static rule short of a solver/proof decides it; the "
           "structural crumbs (dispatch exhaustiveness, twins, panic sites) are reported under C07/C16/C15 instead",
}

PENDING = {}
PENDING_REASON = "check under construction in this round (static rules designed in DESIGN.md §5, not armed yet)"

ALL = ["C%02d" % i for i in range(1, 21)]


def main():
    checks = []
    for pid in ALL:
        if pid not in CLAIMED:
            continue
        c = CLAIMED[pid]
        checks.append({
            "property_id": pid,
            "quick_cmd": "./check %s --tier quick" % pid,
            "thorough_cmd": "./check %s --tier thorough" % pid,
            "evidence_file": "/verif/evidence/%s.json" % pid,
            "replay_cmd_template": "./check %s --explain {path}" % pid,
            "engine": "noodles-facts+rules",
            "level_claimed": {"category": "other", "text": c["text"], "design_ref": c["design_ref"]},
            "level_note": c["note"],
            "technique": c["technique"],
        })
    na = []
    for pid in ALL:
        if pid in CLAIMED:
            continue
        na.append({"property_id": pid, "reason": NOT_APPLICABLE.get(pid, PENDING_REASON)})
    m = {
        "version": 1,
        "setup_cmd": "./setup.sh",
        "hooks": {
            "guard": "none",
            "enable": "no hooks: static analysis reads /repo's sources through a rustc_private driver (RUSTC_WORKSPACE_WRAPPER under cargo +nightly check); nothing in /repo is instrumented",
            "baseline_off_cmd": "cd /repo && cargo test --workspace --no-fail-fast --offline",
            "source_commits": [],
            "add_only": True,
        },
        "engines": [
            {"name": "noodles-facts", "path": "/verif/driver", "serves_properties": sorted(CLAIMED),
             "kind_free_text": "rustc_private driver dumping MIR (mir_built), resolved callees, evaluated consts, HIR match tables"},
            {"name": "rules", "path": "/verif/analysis", "serves_properties": sorted(CLAIMED),
             "kind_free_text": "python3 stdlib: CFG/dominators, call graph, must-pass-through, guard dominance, who-may-write, error/transfer discipline, table agreement, twin comparison"},
        ],
        "checks": checks,
        "not_applicable": na,
        "notes": "All checks share one fact extraction of /repo's current working tree (cached by source hash under /verif/.cache). "
                 "quick = build configuration D (every feature except libdeflate); thorough = every rule decided again on configuration L "
                 "(--all-features, libdeflate codec variants) plus the K5 overflow inventory. "
                 "Level is 'other' throughout: each check decides named structural clauses that are necessary conditions of the property, never the behaviour as a whole.",
    }
    with open(os.path.join(VERIF, "MANIFEST.json"), "w") as fh:
        json.dump(m, fh, indent=1)
    print("MANIFEST.json: %d checks, %d not_applicable" % (len(checks), len(na)))


if __name__ == "__main__":
    main()
