#!/bin/sh
# Development helper (never run by a check): confirms a sub-agent's seeded change in its scratch worktree.
#   tools/confirm_seed.sh <wid>      worktree /tmp/wt/<wid> (change applied), outputs /tmp/wt/<wid>-out
# Prints: unit tests with the change, demo exit code with and without the change.
wid="$1"
wt=/tmp/wt/$wid
out=/tmp/wt/$wid-out
export CARGO_NET_OFFLINE=true
echo "=== $wid"
(cd "$wt" && git diff > /tmp/wt/$wid-actual.diff; if cmp -s /tmp/wt/$wid-actual.diff "$out/patch.diff"; then echo "worktree diff == patch.diff"; else echo "WARNING: worktree diff differs from patch.diff"; fi; git diff --stat | tail -1)
(cd "$wt" && CARGO_TARGET_DIR=/tmp/wt/$wid-target cargo test --workspace --offline --lib 2>&1 | grep -E "^test result|FAILED|error(\[|:)" | awk '{p+=$4; f+=$6} END {print "tests with change: passed",p,"failed",f}')
(cd "$out/demo" && CARGO_TARGET_DIR=/tmp/wt/$wid-target cargo run --offline --release >/tmp/wt/$wid-demo-with.log 2>&1; echo "demo with change rc=$?"; tail -2 /tmp/wt/$wid-demo-with.log)
(cd "$wt" && git apply -R "$out/patch.diff")
(cd "$out/demo" && CARGO_TARGET_DIR=/tmp/wt/$wid-target cargo run --offline --release >/tmp/wt/$wid-demo-without.log 2>&1; echo "demo without change rc=$?"; tail -2 /tmp/wt/$wid-demo-without.log)
(cd "$wt" && git apply "$out/patch.diff")
