#!/usr/bin/env python3
"""Development tool (never run by a check): freezes today's per-function counts of panic-capable sites that the
automatic discharge could not prove safe into tables/C15_baseline.json.  K1 sites (explicit panics) are NOT frozen
here: they live in the hand-triaged table tables/C15_k1.json."""
import json
import os
import sys

VERIF = os.path.dirname(os.path.dirname(os.path.abspath(__file__)))
sys.path.insert(0, VERIF)
from analysis import a6, extract, facts  # noqa: E402


def main():
    d, _ = extract.facts_dir("D")
    fb = facts.load({"D": d})
    inv = a6.inventory(fb, with_overflow=False)
    base = {}
    for fn, c in sorted(inv["per_fn"].items()):
        e = {k: n for k, n in sorted(c.items()) if not k.startswith("K1:")}
        if e:
            base[fn] = e
    out = {"_comment": "unproven baseline: per-function counts of K2 (unwrap/expect), K3 (indexing/slicing), K4 (div/rem/shift) "
                       "sites in the read-side closure that A4's automatic discharge did not prove safe. NOT a claim of safety: "
                       "the check only reports counts ABOVE this baseline (a new panic-capable site in decode-reachable code).",
           "functions": base}
    with open(os.path.join(VERIF, "tables", "C15_baseline.json"), "w") as fh:
        json.dump(out, fh, indent=0, sort_keys=True)
    k1 = {}
    for fn, c in sorted(inv["per_fn"].items()):
        for k, n in sorted(c.items()):
            if k.startswith("K1:"):
                k1["%s|%s" % (fn, k)] = n
    print("baseline: %d functions, %d sites; K1 sites: %d in %d (fn,macro) groups" % (
        len(base), sum(sum(e.values()) for e in base.values()), sum(k1.values()), len(k1)))
    if "--print-k1" in sys.argv:
        for k, n in k1.items():
            print(n, k)


if __name__ == "__main__":
    main()
