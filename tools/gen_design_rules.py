#!/usr/bin/env python3
"""Development tool: regenerates the section of DESIGN.md between the markers <!-- RULES:BEGIN --> and <!-- RULES:END -->
from the property modules themselves (rule ids and one-line statements, EXPLANATION, ASSUMPTIONS, NOT_DECIDED), the
seeded/*/meta.json files and the last evidence counts, so the document cannot drift from what is armed."""
import ast
import glob
import json
import os
import re
import sys

VERIF = os.path.dirname(os.path.dirname(os.path.abspath(__file__)))


def consts_of(path):
    tree = ast.parse(open(path).read())
    out = {}
    for node in tree.body:
        if isinstance(node, ast.Assign) and len(node.targets) == 1 and isinstance(node.targets[0], ast.Name):
            name = node.targets[0].id
            if name in ("EXPLANATION", "ASSUMPTIONS", "NOT_DECIDED"):
                try:
                    out[name] = ast.literal_eval(node.value)
                except Exception:
                    pass
    rules = []
    for node in ast.walk(tree):
        if isinstance(node, ast.Call) and isinstance(node.func, ast.Attribute) and node.func.attr == "rule" and len(node.args) >= 2:
            try:
                a0 = ast.literal_eval(node.args[0])
                a1 = ast.literal_eval(node.args[1])
            except Exception:
                # ctx.rule(rule, "...") inside shared helpers: keep the text only
                try:
                    a0, a1 = "(shared)", ast.literal_eval(node.args[1])
                except Exception:
                    continue
            rules.append((node.lineno, a0, a1))
    rules.sort()
    out["rules"] = [(a, b) for _, a, b in rules]
    return out


def main():
    props = {}
    for line in open(os.path.join(VERIF, "properties.jsonl")):
        p = json.loads(line)
        props[p["id"]] = p
    seeds = {}
    for m in sorted(glob.glob(os.path.join(VERIF, "seeded", "*", "meta.json"))):
        d = json.load(open(m))
        seeds.setdefault(d["property"], []).append((os.path.basename(os.path.dirname(m)), d))
    out = []
    for pid in sorted(props):
        path = os.path.join(VERIF, "analysis", "props", pid.lower() + ".py")
        out.append("### %s — %s\n" % (pid, props[pid]["title"]))
        if not os.path.exists(path):
            out.append("**Not applicable** (see §5.0 and MANIFEST.not_applicable).\n")
            continue
        c = consts_of(path)
        ev = {}
        try:
            ev = json.load(open(os.path.join(VERIF, "evidence", pid + ".json")))
        except Exception:
            pass
        out.append("*What the check decides.* " + c.get("EXPLANATION", "") + "\n")
        out.append("Armed rules:\n")
        for rid, text in c["rules"]:
            out.append("* `%s` — %s" % (rid, text))
        out.append("")
        if c.get("ASSUMPTIONS"):
            out.append("Assumptions: " + "; ".join(c["ASSUMPTIONS"]) + ".\n")
        if c.get("NOT_DECIDED"):
            out.append("Not decided (outside the reach of this technique): " + "; ".join(c["NOT_DECIDED"]) + ".\n")
        cov = ev.get("coverage", {}) if isinstance(ev, dict) else {}
        cnt = cov.get("counts") or cov.get("measured") or {}
        if cnt:
            keys = [k for k in ("obligations", "discharged", "known_findings", "violations", "functions_analysed", "call_sites_examined") if k in cnt]
            out.append("Last run on the unchanged tree: " + ", ".join("%s=%s" % (k, cnt[k]) for k in keys) + ".\n")
        for name, d in seeds.get(pid, []):
            det = d.get("detected_by") or {}
            miss = d.get("missed_by") or {}
            s = "Seeded change `seeded/%s`: %s " % (name, d["summary"].split(";")[0].split(". ")[0][:260])
            if det:
                s += "— **reported by** " + "; ".join("%s (%s)" % (k, ", ".join(x.split("/")[0] + "/" + x.split("/")[1] if "/" in x else x for x in v)) for k, v in det.items()) + "."
            else:
                s += "— **not reported**."
            if miss:
                s += " Missed by " + "; ".join("%s: %s" % (k, v) for k, v in miss.items())
            out.append(s + "\n")
    text = "\n".join(out)
    dpath = os.path.join(VERIF, "DESIGN.md")
    doc = open(dpath).read()
    b, e = "<!-- RULES:BEGIN -->", "<!-- RULES:END -->"
    if b in doc and e in doc:
        doc = doc[:doc.index(b) + len(b)] + "\n" + text + "\n" + doc[doc.index(e):]
        open(dpath, "w").write(doc)
        print("DESIGN.md rules section regenerated (%d properties)" % len(props))
    else:
        sys.stdout.write(text)


if __name__ == "__main__":
    main()
