"""Intraprocedural forward value flow on MIR facts (def-use closure through moves, refs, casts,
`?` desugaring and payload projections)."""
from . import cfg as C
from . import rules as R

# calls through which a value flows unchanged (or as its payload) to the destination
PASS_THROUGH = (
    "core::ops::try_trait::Try>::branch",
    "core::convert::Into<U>>::into", "core::convert::From<T>>::from",
    "core::ops::deref::Deref>::deref", "core::ops::deref::DerefMut>::deref_mut",
    "core::task::poll::Poll::<T>::map", "core::pin::Pin::<Ptr>::new", "core::pin::Pin::<Ptr>::as_mut",
    "core::pin::Pin::<Ptr>::get_mut", "core::pin::Pin::<Ptr>::new_unchecked",
    "core::future::into_future::IntoFuture>::into_future",
    "core::future::future::Future>::poll", "core::future::future::Future::poll",
    "core::convert::AsRef<[T]>>::as_ref", "core::borrow::Borrow<T>>::borrow",
    "core::option::Option::<T>::as_ref", "core::result::Result::<T, E>::as_ref",
)


def is_pass_through(callee):
    return callee is not None and any(callee.endswith(p) for p in PASS_THROUGH)


def forward(fn, roots, through_calls=True, extra_pass=None, max_nodes=2000):
    """roots: iterable of locals. Returns (derived locals set, uses list).
    uses: ('arg', block, call dict, arg index, local) | ('sw', block, local) | ('ret', block, local)
          | ('stmt', block, stmt, local) | ('index', block, stmt, local)"""
    derived = set()
    uses = []
    stack = list(roots)
    n = 0
    while stack and n < max_nodes:
        l = stack.pop()
        if l in derived:
            continue
        derived.add(l)
        n += 1
        for bi, blk in enumerate(fn.blocks):
            if blk.get("cu"):
                continue
            for st in blk["s"]:
                if st[0] != "=":
                    continue
                rv = st[2]
                used = False
                for o in R.rvalue_operands(rv):
                    if o[0] in ("c", "m") and o[1][0] == l:
                        used = True
                if not used:
                    continue
                dest = st[1]
                if dest[0] == 0:
                    uses.append(("ret", bi, l))
                if rv[0] in ("use", "ref", "cast", "discr", "agg", "rawptr"):
                    if rv[0] == "discr":
                        uses.append(("discr", bi, st, l))
                    if dest[0] not in derived:
                        stack.append(dest[0])
                elif rv[0] in ("bin", "un"):
                    uses.append(("stmt", bi, st, l))
                    if dest[0] not in derived:
                        stack.append(dest[0])
                else:
                    uses.append(("stmt", bi, st, l))
            t = blk["t"]
            if t[0] == "call":
                c = t[1]
                for ai, a in enumerate(c["args"]):
                    if a[0] in ("c", "m") and a[1][0] == l:
                        uses.append(("arg", bi, c, ai, l))
                        k = c.get("f")
                        if through_calls and (is_pass_through(k) or (extra_pass and extra_pass(k))):
                            d = c["dest"][0]
                            if d == 0:
                                uses.append(("ret", bi, l))
                            elif d not in derived:
                                stack.append(d)
            elif t[0] == "sw":
                o = t[1]
                if o[0] in ("c", "m") and o[1][0] == l:
                    uses.append(("sw", bi, l))
            elif t[0] == "yield":
                o = t[1]
                if o[0] in ("c", "m") and o[1][0] == l:
                    uses.append(("yield", bi, l))
            elif t[0] == "assert":
                for o in t[5]:
                    if o[0] in ("c", "m") and o[1][0] == l:
                        uses.append(("assert", bi, t, l))
    return derived, uses


def consumers(fn, call_block, extra_pass=None):
    """Callee keys (with arg index) that receive a value derived from the result of the call in
    call_block, plus whether it reaches the return place / a switch."""
    c = fn.term(call_block)[1]
    d = c["dest"]
    if d[0] == 0:
        return set(), [("ret", call_block, 0)]
    derived, uses = forward(fn, [d[0]], extra_pass=extra_pass)
    cons = set()
    for u in uses:
        if u[0] == "arg":
            k = u[2].get("f")
            if k is not None and not is_pass_through(k):
                cons.add((k, u[3]))
    return cons, uses
