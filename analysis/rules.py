"""Rule templates (DESIGN.md §4). Each takes a Ctx and records obligations / violations."""
import re
from collections import deque

from . import cfg as C


# ------------------------------------------------------------------------------------------------
# helpers
# ------------------------------------------------------------------------------------------------

def mk_pred(target):
    """target: callable | regex string | list of regex strings -> predicate over callee keys."""
    if callable(target):
        return target
    if isinstance(target, str):
        rx = re.compile(target)
        return lambda k: bool(rx.search(k))
    rxs = [re.compile(t) for t in target]
    return lambda k: any(r.search(k) for r in rxs)


def callee_of(c):
    return c.get("f")


def body_of(fb, key):
    """The Fn holding the code of `key` (the coroutine body for an async fn)."""
    f = fb.fn(key)
    if f is None:
        return None
    if f.is_async:
        kids = [fb.fn(k) for k in fb.children.get(key, [])]
        kids = [k for k in kids if k is not None and k.coro]
        if len(kids) == 1:
            return kids[0]
    return f


class MustReach:
    """Does calling `callee` necessarily (on every success path) execute a call matching pred?
    Wrapper summary with a bounded inlining depth (A3)."""

    def __init__(self, fb, pred, depth=4, callpred=None):
        self.fb = fb
        self.pred = pred
        self.callpred = callpred      # optional: (fn, call dict) -> bool, for argument-sensitive targets
        self.depth = depth
        self.memo = {}
        self.inprog = set()

    def call(self, c, depth=None, fn=None):
        depth = self.depth if depth is None else depth
        k = c.get("f")
        if k is None:
            return False
        if self.callpred is not None:
            if fn is not None and self.callpred(fn, c):
                return True
        elif self.pred(k):
            return True
        # a closure / fn item handed to a combinator (map_err, and_then, ...) is not a must-call
        return self.fn(k, depth)

    def fn(self, key, depth):
        if self.callpred is None and self.pred(key):
            return True
        if depth <= 0:
            return False
        mk = (key, depth)
        if mk in self.memo:
            return self.memo[mk]
        if key in self.inprog:
            return False
        f = body_of(self.fb, key)
        if f is None:
            return False
        self.inprog.add(key)
        try:
            passing = {b for b, c in f.calls() if self.call(c, depth - 1, f)}
            exits = C.success_exit_blocks(f)
            if not exits:
                res = False
            else:
                reach = C.reachable(f, 0, removed=passing)
                res = not any(e in reach for e in exits)
        finally:
            self.inprog.discard(key)
        self.memo[mk] = res
        return res


def shortest_path(fn, start, goal_set, removed=frozenset()):
    succ = fn.succ()
    prev = {start: None}
    dq = deque([start])
    while dq:
        b = dq.popleft()
        if b in goal_set:
            path = []
            while b is not None:
                path.append(b)
                b = prev[b]
            return list(reversed(path))
        for s in succ[b]:
            if s in removed or s in prev:
                continue
            prev[s] = b
            dq.append(s)
    return None


def path_lines(fn, path):
    out = []
    last = None
    for b in path:
        l = fn.blocks[b]["l"]
        if l != last:
            out.append(l)
            last = l
    return out


# ------------------------------------------------------------------------------------------------
# A8: constant relations
# ------------------------------------------------------------------------------------------------

def const_rule(ctx, rule, instance, names, check, spec, witness=""):
    """names: alias -> const key. check: fn(dict alias->value) -> (bool, detail)."""
    vals = {}
    for alias, key in names.items():
        if key not in ctx.fb.consts:
            ctx.violation(rule, "%s/ANCHOR-MISSING/%s" % (rule, key),
                          "constant %s not found (renamed, removed or inlined): re-anchor" % key)
            return False
        v = ctx.fb.const_val(key)
        if v is None:
            ctx.violation(rule, "%s/UNEVALUATED/%s" % (rule, key), "constant %s has no evaluated value" % key)
            return False
        vals[alias] = v
    ok, detail = check(vals)
    c0 = ctx.fb.consts[list(names.values())[0]]
    loc = "%s:%d" % (c0["file"], c0["line"])
    if ok:
        ctx.ok(rule, instance, "%s  [%s] %s" % (detail, spec, _fmt_vals(vals)), loc)
    else:
        ctx.violation(rule, "%s/const/%s" % (rule, instance),
                      "constant relation '%s' fails: %s (%s); spec: %s. %s" % (
                          instance, detail, _fmt_vals(vals), spec, witness), loc)
    return ok


def _fmt_vals(vals):
    out = []
    for k, v in vals.items():
        if isinstance(v, (bytes, bytearray)):
            out.append("%s=%s" % (k, v.hex()))
        else:
            out.append("%s=%s" % (k, v))
    return ", ".join(out)


# ------------------------------------------------------------------------------------------------
# A3: must-pass-through
# ------------------------------------------------------------------------------------------------

def must_pass(ctx, rule, fkey, target, what, depth=4, start_after=None, only_if_edge=None,
              exits=None, fn=None, callpred=None, stmt_pred=None):
    """Every path entry -> success exit of fkey passes a call that must reach `target`.
    start_after: predicate over call dicts; paths start after (each) matching call instead of entry.
    only_if_edge: (block, successor) restriction: paths start at that successor."""
    f = fn if fn is not None else ctx.body(rule, fkey)
    if f is None:
        return False
    pred = mk_pred(target) if target is not None else (lambda k: False)
    mr = MustReach(ctx.fb, pred, depth, callpred=callpred)
    passing = set()
    ncalls = 0
    for b, c in f.calls():
        ncalls += 1
        if mr.call(c, fn=f):
            passing.add(b)
    if stmt_pred is not None:
        for bi, blk in enumerate(f.blocks):
            if not blk.get("cu") and any(stmt_pred(f, st) for st in blk["s"]):
                passing.add(bi)
    ctx.callsites_seen += ncalls
    ctx.count("call_sites_examined", ncalls)
    ex = exits if exits is not None else C.success_exit_blocks(f)
    starts = [0]
    if start_after is not None:
        starts = []
        for b, c in f.calls():
            if start_after(c) and c["t"] is not None:
                starts.append(c["t"])
        if not starts:
            ctx.violation(rule, "%s/ANCHOR-MISSING/%s/start" % (rule, fkey),
                          "%s: start call of the must-pass-through rule not found in %s" % (what, fkey), f.loc())
            return False
    if only_if_edge is not None:
        starts = [only_if_edge]
    if not ex:
        ctx.violation(rule, "%s/NO-EXIT/%s" % (rule, fkey), "no success exit found in %s" % fkey, f.loc())
        return False
    bad = None
    for s in starts:
        if s in passing:
            continue
        reach = C.reachable(f, s, removed=passing)
        hit = [e for e in ex if e in reach]
        if hit:
            bad = (s, hit)
            break
    if bad is None:
        ctx.ok(rule, "%s :: %s" % (fkey, what),
               "all %d success exits pass %d call site(s) that must reach the target" % (len(ex), len(passing)),
               f.loc())
        return True
    s, hit = bad
    path = shortest_path(f, s, set(hit), removed=passing) or []
    ctx.violation(rule, "%s/bypass/%s/%s" % (rule, fkey, _slug(what)),
                  "%s: a success exit of %s is reachable without passing it (path through lines %s)" % (
                      what, fkey, path_lines(f, path)), f.loc(hit[0]),
                  detail={"path_blocks": path, "entry": s, "exit": hit[0]})
    return False


def _slug(s):
    return re.sub(r"[^A-Za-z0-9_.:<>-]+", "_", s)[:80]


# ------------------------------------------------------------------------------------------------
# data derivation
# ------------------------------------------------------------------------------------------------

def operand_locals(op):
    out = []
    if op[0] in ("c", "m"):
        out.append(op[1][0])
        for p in op[1][1]:
            if isinstance(p, list) and p[0] == "i":
                out.append(p[1])
    return out


def rvalue_operands(rv):
    k = rv[0]
    if k == "use":
        return [rv[1]]
    if k == "ref" or k == "rawptr":
        return [["c", rv[2]]]
    if k == "cast":
        return [rv[2]]
    if k == "bin":
        return [rv[2], rv[3]]
    if k == "un":
        return [rv[2]]
    if k == "discr":
        return [["c", rv[1]]]
    if k == "agg":
        return list(rv[4])
    if k == "repeat":
        return [rv[1]]
    return []


def derives_from_call(fn, op, pred, max_nodes=400):
    """May the operand's value data-depend on the result (or a &mut argument) of a call whose callee
    matches pred?  Backward closure over assignments and call results (any def)."""
    d = C.defs(fn)
    seen = set()
    stack = list(operand_locals(op))
    n = 0
    while stack and n < max_nodes:
        l = stack.pop()
        if l in seen:
            continue
        seen.add(l)
        n += 1
        for df in d.get(l, []):
            if df[0] in ("=", "partial"):
                for o in rvalue_operands(df[3]):
                    stack.extend(operand_locals(o))
            elif df[0] in ("call", "partial-call"):
                c = df[2]
                k = c.get("f")
                if k is not None and pred(k):
                    return True
                for a in c["args"]:
                    stack.extend(operand_locals(a))
    return False


def returns_from_call(fb, g, pred, depth=3, _seen=None):
    """Does the value a workspace function returns (on some success exit) data-depend on the result of a call matching
    pred, directly or through further workspace callees? Lets a rule follow a value through an extracted helper."""
    seen = _seen if _seen is not None else set()
    if g.key in seen or depth < 0:
        return False
    seen.add(g.key)
    bodies = [g] + [fb.fns[k] for k in fb.children.get(g.key, []) if k in fb.fns and fb.fns[k].coro]
    for f in bodies:
        ret = ["c", [0, []]]
        if derives_from_call_deep(fb, f, ret, pred, depth, seen):
            return True
    return False


def derives_from_call_deep(fb, fn, op, pred, depth=3, _seen=None):
    """derives_from_call, following the return values of workspace callees (bounded depth)."""
    if derives_from_call(fn, op, pred):
        return True
    if depth <= 0:
        return False

    def deep(k):
        g = fb.fns.get(re.sub(r"::\{closure#\d+\}$", "", k))
        return g is not None and returns_from_call(fb, g, pred, depth - 1, _seen)
    return derives_from_call(fn, op, deep)


def find_calls(fn, target):
    pred = mk_pred(target)
    return [(b, c) for b, c in fn.calls() if c.get("f") is not None and pred(c["f"])]


# ------------------------------------------------------------------------------------------------
# A4 (integrity form): success exits dominated by the equal-edge of a checksum comparison
# ------------------------------------------------------------------------------------------------

def _cmp_switches(fn):
    """Yields (block, kind, operands, eq_target, ne_target) for switches on ==/!= comparisons,
    both MIR BinOp Eq/Ne and PartialEq::eq/ne calls."""
    for b, blk in enumerate(fn.blocks):
        if blk.get("cu"):
            continue
        t = blk["t"]
        if t[0] != "sw":
            continue
        cond = C.switch_condition(fn, b)
        if cond is None:
            continue
        neg = False
        # strip Not
        while cond and cond[0] == "not":
            l = C.op_local(cond[1])
            if l is None:
                cond = None
                break
            d = C.single_def(fn, l)
            if d is None:
                cond = None
                break
            neg = not neg
            if d[0] == "=" and d[3][0] == "bin":
                cond = ("cmp", d[3][1], d[3][2], d[3][3])
            elif d[0] == "call":
                cond = ("call", d[2])
            else:
                cond = None
        if cond is None:
            continue
        vals = t[2]
        zero_t = None
        for v, tgt in vals:
            if v == 0:
                zero_t = tgt
        other = t[3]
        if zero_t is None:
            continue
        true_t, false_t = other, zero_t
        if neg:
            true_t, false_t = false_t, true_t
        if cond[0] == "cmp" and cond[1] in ("Eq", "Ne"):
            ops = [cond[2], cond[3]]
            eq_t, ne_t = (true_t, false_t) if cond[1] == "Eq" else (false_t, true_t)
            yield b, cond[1], ops, eq_t, ne_t
        elif cond[0] == "cmp" and cond[1] in ("Lt", "Le", "Gt", "Ge"):
            yield b, cond[1], [cond[2], cond[3]], true_t, false_t
        elif cond[0] == "call":
            k = cond[1].get("f", "")
            if k.endswith("::eq") or k.endswith("::ne"):
                ops = cond[1]["args"]
                is_eq = k.endswith("::eq")
                eq_t, ne_t = (true_t, false_t) if is_eq else (false_t, true_t)
                yield b, "Eq" if is_eq else "Ne", ops, eq_t, ne_t


def integrity_guard(ctx, rule, fkey, checksum, what, fn=None):
    """Every success exit of fkey is reachable only through the *equal* edge of a comparison one of
    whose operands derives from a call matching `checksum`."""
    f = fn if fn is not None else ctx.body(rule, fkey)
    if f is None:
        return False
    pred = mk_pred(checksum)
    if not find_calls(f, pred):
        ctx.violation(rule, "%s/no-checksum/%s" % (rule, fkey),
                      "%s: %s no longer calls the checksum routine" % (what, fkey), f.loc())
        return False
    guards = []
    for b, kind, ops, eq_t, ne_t in _cmp_switches(f):
        if kind not in ("Eq", "Ne"):
            continue
        if any(derives_from_call(f, o, pred) for o in ops):
            guards.append((b, eq_t, ne_t))
    ex = C.success_exit_blocks(f)
    if not guards:
        ctx.violation(rule, "%s/no-guard/%s" % (rule, fkey),
                      "%s: no ==/!= comparison on the checksum result found in %s" % (what, fkey), f.loc())
        return False
    # (1) success exits unreachable once the mismatch edges are cut AND the guards are unavoidable
    gblocks = {g[0] for g in guards}
    reach_wo = C.reachable(f, 0, removed=gblocks)
    around = [e for e in ex if e in reach_wo]
    if around:
        path = shortest_path(f, 0, set(around), removed=gblocks) or []
        ctx.violation(rule, "%s/bypass/%s" % (rule, fkey),
                      "%s: a success exit of %s is reachable without passing the checksum comparison "
                      "(lines %s)" % (what, fkey, path_lines(f, path)), f.loc(around[0]))
        return False
    # (2) from the mismatch edge no success exit may be reachable
    for b, eq_t, ne_t in guards:
        reach_ne = C.reachable(f, ne_t, removed=set()) if ne_t != eq_t else {ne_t}
        # paths that come back to the guard are fine (loops); cut at guard
        reach_ne = C.reachable(f, ne_t, removed={b}) if ne_t != eq_t else reach_ne
        bad = [e for e in ex if e in reach_ne]
        if bad or ne_t == eq_t:
            path = shortest_path(f, ne_t, set(bad), removed={b}) or []
            ctx.violation(rule, "%s/vacuous/%s" % (rule, fkey),
                          "%s: the mismatch edge of the checksum comparison in %s still reaches a success "
                          "exit (lines %s)" % (what, fkey, path_lines(f, path)), f.loc(b))
            return False
    ctx.ok(rule, "%s :: %s" % (fkey, what),
           "%d comparison(s) on the checksum result; mismatch edges reach only error exits; %d success exits" % (
               len(guards), len(ex)), f.loc())
    return True


def bound_guard(ctx, rule, fkey, what, operand_pred, ops=("Le", "Lt", "Gt", "Ge"), const_key=None, fn=None,
                protect=None):
    """Every success exit of fkey (or every block returned by protect(fn)) passes a </<=/>/>= comparison
    satisfying operand_pred(fn, ops, kind), and one edge of the comparison reaches none of them."""
    f = fn if fn is not None else ctx.body(rule, fkey)
    if f is None:
        return False
    guards = []
    for b, kind, opnds, t_t, f_t in _cmp_switches(f):
        if kind in ops and operand_pred(f, opnds, kind):
            guards.append((b, t_t, f_t))
    ex = C.success_exit_blocks(f) if protect is None else protect(f)
    if not ex:
        ctx.violation(rule, "%s/ANCHOR-MISSING/%s/protected" % (rule, fkey),
                      "%s: the protected use site was not found in %s" % (what, fkey), f.loc())
        return False
    if not guards:
        ctx.violation(rule, "%s/no-guard/%s" % (rule, fkey), "%s: guard comparison not found in %s" % (what, fkey), f.loc())
        return False
    gblocks = {g[0] for g in guards}
    reach_wo = C.reachable(f, 0, removed=gblocks)
    around = [e for e in ex if e in reach_wo]
    if around:
        ctx.violation(rule, "%s/bypass/%s" % (rule, fkey),
                      "%s: a success exit of %s is reachable around the guard" % (what, fkey), f.loc(around[0]))
        return False
    # one of the two edges of each guard must be error-only
    for b, t_t, f_t in guards:
        rt = C.reachable(f, t_t, removed={b})
        rf = C.reachable(f, f_t, removed={b})
        t_ok = any(e in rt for e in ex)
        f_ok = any(e in rf for e in ex)
        if t_ok and f_ok:
            ctx.violation(rule, "%s/vacuous/%s" % (rule, fkey),
                          "%s: both edges of the guard in %s reach a success exit" % (what, fkey), f.loc(b))
            return False
    ctx.ok(rule, "%s :: %s" % (fkey, what), "%d guard(s), each with an error-only edge" % len(guards), f.loc())
    return True


def const_operand_is(op, keys=None, values=None):
    k = C.op_const(op)
    if k is None:
        return False
    if keys is not None and k.get("def") in keys:
        return True
    if values is not None and k.get("v") in values:
        return True
    return False


# ------------------------------------------------------------------------------------------------
# A2: who writes a field
# ------------------------------------------------------------------------------------------------

def field_writers(fb, owner, field):
    """Returns dict fn key -> set of kinds ('assign' | 'borrow_mut') for places whose LAST field
    projection is owner.field (a write to a sub-place of the field counts as well)."""
    out = {}
    for key, f in fb.fns.items():
        for bi, blk in enumerate(f.blocks):
            if blk.get("cu"):
                continue
            for st in blk["s"]:
                if st[0] != "=":
                    continue
                if _touches(st[1], owner, field):
                    out.setdefault(key, set()).add("assign")
                rv = st[2]
                if rv[0] == "ref" and rv[1] == "m" and _touches(rv[2], owner, field):
                    out.setdefault(key, set()).add("borrow_mut")
                if rv[0] == "rawptr" and _touches(rv[2], owner, field):
                    out.setdefault(key, set()).add("borrow_mut")
            t = blk["t"]
            if t[0] == "call" and _touches(t[1]["dest"], owner, field):
                out.setdefault(key, set()).add("assign")
    return out


def _touches(place, owner, field):
    for p in place[1]:
        if isinstance(p, list) and p[0] == "f" and p[2] == field and p[3] == owner:
            return True
    return False


def constructors_of(fb, adt):
    out = set()
    for key, f in fb.fns.items():
        for blk in f.blocks:
            if blk.get("cu"):
                continue
            for st in blk["s"]:
                if st[0] == "=" and st[2][0] == "agg" and st[2][1] == "adt" and st[2][2] == adt:
                    out.add(key)
    return out


def writer_set_rule(ctx, rule, owner, field, allowed, what, kinds=("assign", "borrow_mut")):
    """The set of functions writing owner.field must be a subset of `allowed` (dict key -> reason)."""
    if owner not in ctx.fb.adts:
        ctx.violation(rule, "%s/ANCHOR-MISSING/%s" % (rule, owner), "ADT %s not found" % owner)
        return False
    adt = ctx.fb.adts[owner]
    names = [fl["name"] for v in adt["variants"] for fl in v["fields"]]
    if field not in names:
        ctx.violation(rule, "%s/ANCHOR-MISSING/%s.%s" % (rule, owner, field), "field %s.%s not found" % (owner, field))
        return False
    ws = field_writers(ctx.fb, owner, field)
    ok = True
    n = 0
    for key, ks in sorted(ws.items()):
        if not (ks & set(kinds)):
            continue
        n += 1
        root = ctx.fb.fns[key].root
        if key in allowed or root in allowed:
            ctx.saw_fn(ctx.fb.fns[key])
            continue
        ok = False
        f = ctx.fb.fns[key]
        ctx.violation(rule, "%s/writer/%s.%s/%s" % (rule, owner, field, key),
                      "%s: %s writes %s.%s but is not in the confirmed writer table" % (what, key, owner, field),
                      f.loc())
    if ok:
        ctx.ok(rule, "%s.%s :: %s" % (owner, field, what), "%d writer(s), all in the confirmed table of %d" % (n, len(allowed)))
    return ok


def arg_derives_from_const(fn, op, const_keys, max_nodes=200):
    """Does the operand (transitively through moves/refs/casts) come from a constant item in const_keys?"""
    d = C.defs(fn)
    k = C.op_const(op)
    if k is not None:
        return k.get("def") in const_keys
    seen = set()
    stack = list(operand_locals(op))
    n = 0
    while stack and n < max_nodes:
        l = stack.pop()
        if l in seen:
            continue
        seen.add(l)
        n += 1
        for df in d.get(l, []):
            if df[0] in ("=", "partial"):
                for o in rvalue_operands(df[3]):
                    kk = C.op_const(o)
                    if kk is not None and kk.get("def") in const_keys:
                        return True
                    stack.extend(operand_locals(o))
    return False


def call_with_const_arg(callee, const_keys, argidx=None):
    """callpred: call to `callee` (regex) one of whose arguments derives from a const in const_keys."""
    pred = mk_pred(callee)

    def cp(fn, c):
        k = c.get("f")
        if k is None or not pred(k):
            return False
        args = c["args"] if argidx is None else [c["args"][argidx]] if argidx < len(c["args"]) else []
        return any(arg_derives_from_const(fn, a, const_keys) for a in args)
    return cp


def switch_on_call(fn, target):
    """Finds switches whose condition is the bool result of a call matching target.
    Returns list of (block, true_target, false_target, call dict)."""
    pred = mk_pred(target)
    out = []
    for b, blk in enumerate(fn.blocks):
        if blk.get("cu") or blk["t"][0] != "sw":
            continue
        cond = C.switch_condition(fn, b)
        neg = False
        # `let done = x.is_empty(); if done || ..`: the switch is on a named copy of the call's result
        hops = 0
        while cond and cond[0] == "use" and hops < 4:
            hops += 1
            l = C.op_local(cond[1])
            d = C.single_def(fn, l) if l is not None else None
            if d is None:
                break
            if d[0] == "call":
                cond = ("call", d[2])
            elif d[0] == "=" and d[3][0] == "use":
                cond = ("use", d[3][1])
            elif d[0] == "=" and d[3][0] == "un" and d[3][1] == "Not":
                cond = ("not", d[3][2])
            else:
                break
        while cond and cond[0] == "not":
            l = C.op_local(cond[1])
            d = C.single_def(fn, l) if l is not None else None
            neg = not neg
            if d is not None and d[0] == "call":
                cond = ("call", d[2])
            elif d is not None and d[0] == "=" and d[3][0] == "un" and d[3][1] == "Not":
                cond = ("not", d[3][2])
            else:
                cond = None
        if not cond or cond[0] != "call":
            continue
        k = cond[1].get("f")
        if k is None or not pred(k):
            continue
        t = blk["t"]
        zero = [tg for v, tg in t[2] if v == 0]
        if not zero:
            continue
        tt, ft = t[3], zero[0]
        if neg:
            tt, ft = ft, tt
        out.append((b, tt, ft, cond[1]))
    return out


def assigns_field(owner, field):
    """stmt_pred: an assignment whose destination's last field projection is owner.field."""
    def sp(fn, st):
        if st[0] != "=":
            return False
        fields = [p for p in st[1][1] if isinstance(p, list) and p[0] == "f"]
        return bool(fields) and fields[-1][2] == field and fields[-1][3] == owner
    return sp


def derives_from_local(fn, op, local, max_nodes=400, through_calls=False):
    """Is `local` in the backward data-flow closure of the operand? (optionally through call arguments)"""
    d = C.defs(fn)
    seen = set()
    stack = list(operand_locals(op))
    n = 0
    while stack and n < max_nodes:
        l = stack.pop()
        if l == local:
            return True
        if l in seen:
            continue
        seen.add(l)
        n += 1
        for df in d.get(l, []):
            if df[0] in ("=", "partial"):
                for o in rvalue_operands(df[3]):
                    stack.extend(operand_locals(o))
            elif through_calls and df[0] in ("call", "partial-call"):
                for a in df[2]["args"]:
                    stack.extend(operand_locals(a))
    return False


def switch_on_try_call(fn, target):
    """Switches on the bool produced by `callee(..)?` (Result<bool> unwrapped by the ? desugaring) or `callee(..)`.
    Returns list of (switch block, true target, false target, call block)."""
    from . import flow
    pred = mk_pred(target)
    out = []
    for cb, c in fn.calls():
        k = c.get("f")
        if k is None or not pred(k) or c["dest"][1]:
            continue
        derived, uses = flow.forward(fn, [c["dest"][0]])
        for b, blk in enumerate(fn.blocks):
            if blk.get("cu") or blk["t"][0] != "sw" or blk["t"][4] != "bool":
                continue
            l = C.op_local(blk["t"][1])
            if l is None or l not in derived:
                continue
            zero = [tg for v, tg in blk["t"][2] if v == 0]
            if not zero:
                continue
            out.append((b, blk["t"][3], zero[0], cb))
    return out


# ------------------------------------------------------------------------------------------------
# A3 variant: definite reset of a reused destination (every success path overwrites / clears it)
# ------------------------------------------------------------------------------------------------

_DEREF_CALL_RX = re.compile(r"(\bAsMut\b.*::as_mut|\bDerefMut\b.*::deref_mut|\bBorrowMut\b.*::borrow_mut)$")
_CLEAR_RX = re.compile(r"(::clear|::truncate|slice::<impl \[T\]>::(copy_from_slice|clone_from_slice|fill)|option::Option::<T>::take|"
                       r"mem::take|mem::replace|clone::Clone::clone_from)$")


def _alias_closure(fn, seeds):
    """Locals that point at (the whole of) the object the seed pointers point at: copies, reborrows `&mut *p`, the payload
    of Option::Some (`&mut (*p as Some).0`: in that arm the payload is the whole content), AsMut/DerefMut views."""
    al = set(seeds)
    changed = True
    while changed:
        changed = False
        for bi, blk in enumerate(fn.blocks):
            for st in blk["s"]:
                if st[0] != "=" or st[1][1]:
                    continue
                dst = st[1][0]
                if dst in al:
                    continue
                rv = st[2]
                src = None
                if rv[0] == "use" and rv[1][0] in ("c", "m") and not rv[1][1][1]:
                    src = rv[1][1][0]
                elif rv[0] == "ref":
                    pl = rv[2]
                    pr = pl[1]
                    if pr == ["*"] or (len(pr) == 3 and pr[0] == "*" and isinstance(pr[1], list) and pr[1][0] == "dc" and pr[1][1] == "Some"
                                       and isinstance(pr[2], list) and pr[2][0] == "f" and pr[2][1] == 0):
                        src = pl[0]
                elif rv[0] == "cast" and rv[2][0] in ("c", "m") and not rv[2][1][1]:
                    src = rv[2][1][0]
                if src is not None and src in al:
                    al.add(dst)
                    changed = True
            t = blk["t"]
            if t[0] == "call":
                c = t[1]
                if c.get("dest") and not c["dest"][1] and c["dest"][0] not in al and _DEREF_CALL_RX.search(c.get("f") or "") and c["args"]:
                    l = C.op_local(c["args"][0])
                    if l in al:
                        al.add(c["dest"][0])
                        changed = True
    return al


def reset_blocks(fb, fn, seeds, depth=3, _memo=None):
    """Blocks of fn in which the object behind the seed pointers is definitely overwritten or cleared."""
    memo = _memo if _memo is not None else {}
    al = _alias_closure(fn, seeds)
    out = set()
    for bi, blk in enumerate(fn.blocks):
        if blk.get("cu"):
            continue
        for st in blk["s"]:
            if st[0] == "=" and st[1][0] in al and st[1][1] == ["*"]:
                out.add(bi)
        t = blk["t"]
        if t[0] != "call":
            continue
        c = t[1]
        fk = c.get("f") or ""
        hit = [i for i, a in enumerate(c["args"]) if C.op_local(a) in al and a[0] in ("c", "m") and not a[1][1]]
        if not hit:
            continue
        if _CLEAR_RX.search(fk) and hit[0] == 0:
            # `truncate(n)` resets only for n == 0
            if not fk.endswith("::truncate") or C.eval_const(fn, c["args"][1]) == 0:
                out.add(bi)
                continue
        g = fb.fns.get(fk)
        if g is not None and depth > 0 and not g.is_closure:
            for i in hit:
                if param_definitely_reset(fb, g, i + 1, depth - 1, memo):
                    out.add(bi)
                    break
    return out


def param_definitely_reset(fb, g, param_local, depth=2, memo=None):
    memo = memo if memo is not None else {}
    key = (g.key, param_local)
    if key in memo:
        return memo[key]
    memo[key] = False
    kb = reset_blocks(fb, g, {param_local}, depth, memo)
    ex = C.success_exit_blocks(g)
    reach = C.reachable(g, 0, removed=kb) if 0 not in kb else set()
    memo[key] = bool(ex) and not any(e in reach for e in ex)
    return memo[key]


def definite_reset_rule(ctx, rule, fn, seeds, what, keypart, extra_kill=frozenset(), start_after=None):
    """Every path entry (or the return of the `start_after` call) -> success exit of fn overwrites or clears the
    destination behind `seeds`."""
    kb = reset_blocks(ctx.fb, fn, seeds) | set(extra_kill)
    ex = C.success_exit_blocks(fn)
    if not ex:
        ctx.violation(rule, "%s/NO-EXIT/%s" % (rule, fn.key), "no success exit found in %s" % fn.key, fn.loc())
        return False
    starts = [0]
    if start_after is not None:
        starts = [c["t"] for b, c in fn.calls() if start_after(c) and c["t"] is not None]
        if not starts:
            ctx.violation(rule, "%s/ANCHOR-MISSING/%s/start" % (rule, fn.key), "start call of the reset rule not found in %s" % fn.key, fn.loc())
            return False
    reach = set()
    for s0 in starts:
        if s0 not in kb:
            reach |= C.reachable(fn, s0, removed=kb)
    hit = [e for e in ex if e in reach]
    if not hit:
        ctx.ok(rule, "%s :: %s" % (fn.key, what), "every success path passes one of %d overwrite/clear site(s)" % len(kb), fn.loc())
        return True
    path = next((p for p in (shortest_path(fn, s0, set(hit), removed=kb) for s0 in starts) if p), [])
    ctx.violation(rule, "%s/stale/%s/%s" % (rule, fn.key, keypart),
                  "%s: %s returns Ok on a path that neither overwrites nor clears it (lines %s): a reused buffer keeps the previous "
                  "record's value" % (what, fn.key, path_lines(fn, path)), fn.loc(hit[0]),
                  detail={"path_blocks": path, "reset_blocks": sorted(kb)})
    return False


def reused_buffer_rule(ctx, rule, fkey, owner_sub, setters, owner_param=None, exceptions=None, start_after=None):
    """parse-into-a-reused-buffer: for each `<column>_mut()` accessor of the destination record that the parser calls, all
    success paths overwrite (`*p = v`), clear, or hand the pointer to a callee that does so on all of its own success paths
    (or reset the whole record through `owner_param`). `setters` is the confirmed column list; `exceptions` maps a column
    to the reason the whole-object rule cannot decide it (reported, not checked)."""
    exceptions = exceptions or {}
    fp = ctx.anchor(rule, fkey)
    if fp is None:
        return
    owner_kill = set()
    if owner_param is not None:
        al = _alias_closure(fp, {owner_param})
        for b, c in fp.calls():
            fk = c.get("f") or ""
            if fk.endswith("::clear") and c["args"] and C.op_local(c["args"][0]) in al:
                g = ctx.fb.fns.get(fk)
                if g is None or clear_is_complete(ctx, rule, g):
                    owner_kill.add(b)
        for bi, blk in enumerate(fp.blocks):
            if any(st[0] == "=" and st[1][0] in al and st[1][1] == ["*"] for st in blk["s"]):
                owner_kill.add(bi)
    found = {(c.get("f") or "").split("::")[-1] for b, c in fp.calls() if owner_sub in (c.get("f") or "")
             and (c.get("f") or "").split("::")[-1].endswith("_mut")}
    extra = sorted(found - set(setters))
    if extra:
        ctx.violation(rule, "%s/unlisted-column/%s/%s" % (rule, fkey, ",".join(extra)),
                      "%s writes through %s, which the rule's column table does not list" % (fkey, extra), fp.loc())
    n = 0
    for name in setters:
        seeds = {c["dest"][0] for b, c in fp.calls() if owner_sub in (c.get("f") or "") and (c.get("f") or "").split("::")[-1] == name
                 and c.get("dest") and not c["dest"][1]}
        if not seeds:
            ctx.violation(rule, "%s/ANCHOR-MISSING/%s/%s" % (rule, fkey, name), "%s no longer calls %s()" % (fkey, name), fp.loc())
            continue
        if name in exceptions:
            ctx.ok(rule, "%s :: column behind %s()" % (fkey, name), "NOT DECIDED: " + exceptions[name], fp.loc())
            continue
        n += 1
        definite_reset_rule(ctx, rule, fp, seeds, "column behind %s()" % name, name, extra_kill=owner_kill, start_after=start_after)
    ctx.floor(rule, "columns of %s checked for reset" % fkey.split("::")[-1], n, len(setters) - len(exceptions))


def clear_is_complete(ctx, rule, g):
    """A workspace `clear(&mut self)` used as the reset of a reused record must touch every field of Self mutably."""
    fb = ctx.fb
    ty = g.locals[1] if len(g.locals) > 1 else None
    m = re.match(r"&mut ([A-Za-z0-9_:]+)", ty or "")
    adt = fb.adts.get(m.group(1)) if m else None
    if adt is None or len(adt["variants"]) != 1:
        ctx.ok(rule, g.key + " resets the record", "clear() of a non-struct or foreign type: trusted by name", g.loc())
        return True
    fields = adt["variants"][0]["fields"]
    touched = set()
    for blk in g.blocks:
        places = []
        for st in blk["s"]:
            if st[0] == "=":
                places.append(st[1])
                if st[2][0] == "ref" and st[2][1] == "m":
                    places.append(st[2][2])
        for pl in places:
            if pl[0] == 1 and len(pl[1]) >= 2 and pl[1][0] == "*" and isinstance(pl[1][1], list) and pl[1][1][0] == "f":
                touched.add(pl[1][1][1])
    missing = [f["name"] for i, f in enumerate(fields) if i not in touched]
    if missing:
        ctx.violation(rule, "%s/incomplete-clear/%s/%s" % (rule, g.key, ",".join(missing)),
                      "%s does not reset field(s) %s: a reused record keeps them from the previous read" % (g.key, missing), g.loc())
        return False
    ctx.ok(rule, g.key + " resets every field of the record", "%d field(s) touched mutably" % len(fields), g.loc())
    return True


# ------------------------------------------------------------------------------------------------
# A2 variant: configuration plumbing — every builder option is consumed somewhere
# ------------------------------------------------------------------------------------------------

_FIELD_READ_INDEX = {}


def _field_projs(place):
    return [(p[3], p[2]) for p in place[1] if isinstance(p, list) and p[0] == "f" and len(p) > 3]


def field_read_index(fb):
    """(owner, field) -> {fn key: count} of places that READ the field (operand use, borrow, discriminant, call argument,
    switch operand); plain assignments `self.field = v` do not count. One pass over all bodies, cached per fact base."""
    if id(fb) in _FIELD_READ_INDEX:
        return _FIELD_READ_INDEX[id(fb)]
    idx = {}

    def hit(key, place):
        for of in _field_projs(place):
            d = idx.setdefault(of, {})
            d[key] = d.get(key, 0) + 1

    for key, f in fb.fns.items():
        for blk in f.blocks:
            if blk.get("cu"):
                continue
            for st in blk["s"]:
                if st[0] != "=":
                    continue
                rv = st[2]
                for o in rvalue_operands(rv):
                    if o[0] in ("c", "m"):
                        hit(key, o[1])
                if rv[0] == "ref":
                    hit(key, rv[2])
                elif rv[0] in ("rawptr", "discr", "len") and isinstance(rv[-1], list):
                    hit(key, rv[-1])
            t = blk["t"]
            if t[0] == "call":
                for a in t[1]["args"]:
                    if a[0] in ("c", "m"):
                        hit(key, a[1])
            elif t[0] == "sw" and t[1][0] in ("c", "m"):
                hit(key, t[1][1])
    _FIELD_READ_INDEX.clear()
    _FIELD_READ_INDEX[id(fb)] = idx
    return idx


def field_readers(fb, owner, field):
    return field_read_index(fb).get((owner, field), {})


_DERIVE_TRAITS = re.compile(r"^(core::(clone::Clone|fmt::Debug|cmp::PartialEq|cmp::Eq|cmp::PartialOrd|cmp::Ord|hash::Hash|default::Default)|"
                            r"std::fmt::Debug)")


def option_plumbing_rule(ctx, rule, adt_rx, floor, exceptions=None):
    """Every field of the matching builder/option structs is read by at least one function that is neither its setter
    (`set_<field>` / `<field>` consuming setter that only stores) nor a derived trait impl."""
    exceptions = exceptions or {}
    fb = ctx.fb
    rx = re.compile(adt_rx)
    n = 0
    for owner, adt in sorted(fb.adts.items()):
        if not rx.search(owner) or adt["kind"] != "Struct":
            continue
        for fl in adt["variants"][0]["fields"]:
            field = fl["name"]
            if field.isdigit():
                continue
            n += 1
            rd = field_readers(fb, owner, field)
            users = []
            for k in rd:
                f = fb.fns[k]
                if f.trait and _DERIVE_TRAITS.search(f.trait):
                    continue
                users.append(k)
            key = "%s.%s" % (owner, field)
            if users:
                ctx.ok(rule, "option %s is consumed" % key, "read by %d function(s), e.g. %s" % (len(users), sorted(users)[0]))
            elif key in exceptions:
                ctx.ok(rule, "option %s" % key, "tabled: " + exceptions[key])
            else:
                ctx.violation(rule, "%s/ignored-option/%s" % (rule, key),
                              "%s is stored by its setter but no function ever reads it: the configured value is silently ignored" % key)
    ctx.floor(rule, "builder option fields examined", n, floor)
