"""Rule templates (DESIGN.md §4). Each takes a Ctx and records obligations / violations."""
import re
from collections import deque

from . import cfg as C


# ------------------------------------------------------------------------------------------------
# helpers
# ------------------------------------------------------------------------------------------------

def mk_pred(target):
    """target: callable | regex string | list of regex strings -> predicate over callee keys."""
    if callable(target):
        return target
    if isinstance(target, str):
        rx = re.compile(target)
        return lambda k: bool(rx.search(k))
    rxs = [re.compile(t) for t in target]
    return lambda k: any(r.search(k) for r in rxs)


def callee_of(c):
    return c.get("f")


def body_of(fb, key):
    """The Fn holding the code of `key` (the coroutine body for an async fn)."""
    f = fb.fn(key)
    if f is None:
        return None
    if f.is_async:
        kids = [fb.fn(k) for k in fb.children.get(key, [])]
        kids = [k for k in kids if k is not None and k.coro]
        if len(kids) == 1:
            return kids[0]
    return f


class MustReach:
    """Does calling `callee` necessarily (on every success path) execute a call matching pred?
    Wrapper summary with a bounded inlining depth (A3)."""

    def __init__(self, fb, pred, depth=4, callpred=None):
        self.fb = fb
        self.pred = pred
        self.callpred = callpred      # optional: (fn, call dict) -> bool, for argument-sensitive targets
        self.depth = depth
        self.memo = {}
        self.inprog = set()

    def call(self, c, depth=None, fn=None):
        depth = self.depth if depth is None else depth
        k = c.get("f")
        if k is None:
            return False
        if self.callpred is not None:
            if fn is not None and self.callpred(fn, c):
                return True
        elif self.pred(k):
            return True
        # a closure / fn item handed to a combinator (map_err, and_then, ...) is not a must-call
        return self.fn(k, depth)

    def fn(self, key, depth):
        if self.callpred is None and self.pred(key):
            return True
        if depth <= 0:
            return False
        mk = (key, depth)
        if mk in self.memo:
            return self.memo[mk]
        if key in self.inprog:
            return False
        f = body_of(self.fb, key)
        if f is None:
            return False
        self.inprog.add(key)
        try:
            passing = {b for b, c in f.calls() if self.call(c, depth - 1, f)}
            exits = C.success_exit_blocks(f)
            if not exits:
                res = False
            else:
                reach = C.reachable(f, 0, removed=passing)
                res = not any(e in reach for e in exits)
        finally:
            self.inprog.discard(key)
        self.memo[mk] = res
        return res


def shortest_path(fn, start, goal_set, removed=frozenset()):
    succ = fn.succ()
    prev = {start: None}
    dq = deque([start])
    while dq:
        b = dq.popleft()
        if b in goal_set:
            path = []
            while b is not None:
                path.append(b)
                b = prev[b]
            return list(reversed(path))
        for s in succ[b]:
            if s in removed or s in prev:
                continue
            prev[s] = b
            dq.append(s)
    return None


def path_lines(fn, path):
    out = []
    last = None
    for b in path:
        l = fn.blocks[b]["l"]
        if l != last:
            out.append(l)
            last = l
    return out


# ------------------------------------------------------------------------------------------------
# A8: constant relations
# ------------------------------------------------------------------------------------------------

def const_rule(ctx, rule, instance, names, check, spec, witness=""):
    """names: alias -> const key. check: fn(dict alias->value) -> (bool, detail)."""
    vals = {}
    for alias, key in names.items():
        if key not in ctx.fb.consts:
            ctx.violation(rule, "%s/ANCHOR-MISSING/%s" % (rule, key),
                          "constant %s not found (renamed, removed or inlined): re-anchor" % key)
            return False
        v = ctx.fb.const_val(key)
        if v is None:
            ctx.violation(rule, "%s/UNEVALUATED/%s" % (rule, key), "constant %s has no evaluated value" % key)
            return False
        vals[alias] = v
    ok, detail = check(vals)
    c0 = ctx.fb.consts[list(names.values())[0]]
    loc = "%s:%d" % (c0["file"], c0["line"])
    if ok:
        ctx.ok(rule, instance, "%s  [%s] %s" % (detail, spec, _fmt_vals(vals)), loc)
    else:
        ctx.violation(rule, "%s/const/%s" % (rule, instance),
                      "constant relation '%s' fails: %s (%s); spec: %s. %s" % (
                          instance, detail, _fmt_vals(vals), spec, witness), loc)
    return ok


def _fmt_vals(vals):
    out = []
    for k, v in vals.items():
        if isinstance(v, (bytes, bytearray)):
            out.append("%s=%s" % (k, v.hex()))
        else:
            out.append("%s=%s" % (k, v))
    return ", ".join(out)


# ------------------------------------------------------------------------------------------------
# A3: must-pass-through
# ------------------------------------------------------------------------------------------------

def must_pass(ctx, rule, fkey, target, what, depth=4, start_after=None, only_if_edge=None,
              exits=None, fn=None, callpred=None, stmt_pred=None):
    """Every path entry -> success exit of fkey passes a call that must reach `target`.
    start_after: predicate over call dicts; paths start after (each) matching call instead of entry.
    only_if_edge: (block, successor) restriction: paths start at that successor."""
    f = fn if fn is not None else ctx.body(rule, fkey)
    if f is None:
        return False
    pred = mk_pred(target) if target is not None else (lambda k: False)
    mr = MustReach(ctx.fb, pred, depth, callpred=callpred)
    passing = set()
    ncalls = 0
    for b, c in f.calls():
        ncalls += 1
        if mr.call(c, fn=f):
            passing.add(b)
    if stmt_pred is not None:
        for bi, blk in enumerate(f.blocks):
            if not blk.get("cu") and any(stmt_pred(f, st) for st in blk["s"]):
                passing.add(bi)
    ctx.callsites_seen += ncalls
    ctx.count("call_sites_examined", ncalls)
    ex = exits if exits is not None else C.success_exit_blocks(f)
    starts = [0]
    if start_after is not None:
        starts = []
        for b, c in f.calls():
            if start_after(c) and c["t"] is not None:
                starts.append(c["t"])
        if not starts:
            ctx.violation(rule, "%s/ANCHOR-MISSING/%s/start" % (rule, fkey),
                          "%s: start call of the must-pass-through rule not found in %s" % (what, fkey), f.loc())
            return False
    if only_if_edge is not None:
        starts = [only_if_edge]
    if not ex:
        ctx.violation(rule, "%s/NO-EXIT/%s" % (rule, fkey), "no success exit found in %s" % fkey, f.loc())
        return False
    bad = None
    for s in starts:
        if s in passing:
            continue
        reach = C.reachable(f, s, removed=passing)
        hit = [e for e in ex if e in reach]
        if hit:
            bad = (s, hit)
            break
    if bad is None:
        ctx.ok(rule, "%s :: %s" % (fkey, what),
               "all %d success exits pass %d call site(s) that must reach the target" % (len(ex), len(passing)),
               f.loc())
        return True
    s, hit = bad
    path = shortest_path(f, s, set(hit), removed=passing) or []
    ctx.violation(rule, "%s/bypass/%s/%s" % (rule, fkey, _slug(what)),
                  "%s: a success exit of %s is reachable without passing it (path through lines %s)" % (
                      what, fkey, path_lines(f, path)), f.loc(hit[0]),
                  detail={"path_blocks": path, "entry": s, "exit": hit[0]})
    return False


def _slug(s):
    return re.sub(r"[^A-Za-z0-9_.:<>-]+", "_", s)[:80]


# ------------------------------------------------------------------------------------------------
# data derivation
# ------------------------------------------------------------------------------------------------

def operand_locals(op):
    out = []
    if op[0] in ("c", "m"):
        out.append(op[1][0])
        for p in op[1][1]:
            if isinstance(p, list) and p[0] == "i":
                out.append(p[1])
    return out


def rvalue_operands(rv):
    k = rv[0]
    if k == "use":
        return [rv[1]]
    if k == "ref" or k == "rawptr":
        return [["c", rv[2]]]
    if k == "cast":
        return [rv[2]]
    if k == "bin":
        return [rv[2], rv[3]]
    if k == "un":
        return [rv[2]]
    if k == "discr":
        return [["c", rv[1]]]
    if k == "agg":
        return list(rv[4])
    if k == "repeat":
        return [rv[1]]
    return []


def derives_from_call(fn, op, pred, max_nodes=400):
    """May the operand's value data-depend on the result (or a &mut argument) of a call whose callee
    matches pred?  Backward closure over assignments and call results (any def)."""
    d = C.defs(fn)
    seen = set()
    stack = list(operand_locals(op))
    n = 0
    while stack and n < max_nodes:
        l = stack.pop()
        if l in seen:
            continue
        seen.add(l)
        n += 1
        for df in d.get(l, []):
            if df[0] in ("=", "partial"):
                for o in rvalue_operands(df[3]):
                    stack.extend(operand_locals(o))
            elif df[0] in ("call", "partial-call"):
                c = df[2]
                k = c.get("f")
                if k is not None and pred(k):
                    return True
                for a in c["args"]:
                    stack.extend(operand_locals(a))
    return False


def find_calls(fn, target):
    pred = mk_pred(target)
    return [(b, c) for b, c in fn.calls() if c.get("f") is not None and pred(c["f"])]


# ------------------------------------------------------------------------------------------------
# A4 (integrity form): success exits dominated by the equal-edge of a checksum comparison
# ------------------------------------------------------------------------------------------------

def _cmp_switches(fn):
    """Yields (block, kind, operands, eq_target, ne_target) for switches on ==/!= comparisons,
    both MIR BinOp Eq/Ne and PartialEq::eq/ne calls."""
    for b, blk in enumerate(fn.blocks):
        if blk.get("cu"):
            continue
        t = blk["t"]
        if t[0] != "sw":
            continue
        cond = C.switch_condition(fn, b)
        if cond is None:
            continue
        neg = False
        # strip Not
        while cond and cond[0] == "not":
            l = C.op_local(cond[1])
            if l is None:
                cond = None
                break
            d = C.single_def(fn, l)
            if d is None:
                cond = None
                break
            neg = not neg
            if d[0] == "=" and d[3][0] == "bin":
                cond = ("cmp", d[3][1], d[3][2], d[3][3])
            elif d[0] == "call":
                cond = ("call", d[2])
            else:
                cond = None
        if cond is None:
            continue
        vals = t[2]
        zero_t = None
        for v, tgt in vals:
            if v == 0:
                zero_t = tgt
        other = t[3]
        if zero_t is None:
            continue
        true_t, false_t = other, zero_t
        if neg:
            true_t, false_t = false_t, true_t
        if cond[0] == "cmp" and cond[1] in ("Eq", "Ne"):
            ops = [cond[2], cond[3]]
            eq_t, ne_t = (true_t, false_t) if cond[1] == "Eq" else (false_t, true_t)
            yield b, cond[1], ops, eq_t, ne_t
        elif cond[0] == "cmp" and cond[1] in ("Lt", "Le", "Gt", "Ge"):
            yield b, cond[1], [cond[2], cond[3]], true_t, false_t
        elif cond[0] == "call":
            k = cond[1].get("f", "")
            if k.endswith("::eq") or k.endswith("::ne"):
                ops = cond[1]["args"]
                is_eq = k.endswith("::eq")
                eq_t, ne_t = (true_t, false_t) if is_eq else (false_t, true_t)
                yield b, "Eq" if is_eq else "Ne", ops, eq_t, ne_t


def integrity_guard(ctx, rule, fkey, checksum, what, fn=None):
    """Every success exit of fkey is reachable only through the *equal* edge of a comparison one of
    whose operands derives from a call matching `checksum`."""
    f = fn if fn is not None else ctx.body(rule, fkey)
    if f is None:
        return False
    pred = mk_pred(checksum)
    if not find_calls(f, pred):
        ctx.violation(rule, "%s/no-checksum/%s" % (rule, fkey),
                      "%s: %s no longer calls the checksum routine" % (what, fkey), f.loc())
        return False
    guards = []
    for b, kind, ops, eq_t, ne_t in _cmp_switches(f):
        if kind not in ("Eq", "Ne"):
            continue
        if any(derives_from_call(f, o, pred) for o in ops):
            guards.append((b, eq_t, ne_t))
    ex = C.success_exit_blocks(f)
    if not guards:
        ctx.violation(rule, "%s/no-guard/%s" % (rule, fkey),
                      "%s: no ==/!= comparison on the checksum result found in %s" % (what, fkey), f.loc())
        return False
    # (1) success exits unreachable once the mismatch edges are cut AND the guards are unavoidable
    gblocks = {g[0] for g in guards}
    reach_wo = C.reachable(f, 0, removed=gblocks)
    around = [e for e in ex if e in reach_wo]
    if around:
        path = shortest_path(f, 0, set(around), removed=gblocks) or []
        ctx.violation(rule, "%s/bypass/%s" % (rule, fkey),
                      "%s: a success exit of %s is reachable without passing the checksum comparison "
                      "(lines %s)" % (what, fkey, path_lines(f, path)), f.loc(around[0]))
        return False
    # (2) from the mismatch edge no success exit may be reachable
    for b, eq_t, ne_t in guards:
        reach_ne = C.reachable(f, ne_t, removed=set()) if ne_t != eq_t else {ne_t}
        # paths that come back to the guard are fine (loops); cut at guard
        reach_ne = C.reachable(f, ne_t, removed={b}) if ne_t != eq_t else reach_ne
        bad = [e for e in ex if e in reach_ne]
        if bad or ne_t == eq_t:
            path = shortest_path(f, ne_t, set(bad), removed={b}) or []
            ctx.violation(rule, "%s/vacuous/%s" % (rule, fkey),
                          "%s: the mismatch edge of the checksum comparison in %s still reaches a success "
                          "exit (lines %s)" % (what, fkey, path_lines(f, path)), f.loc(b))
            return False
    ctx.ok(rule, "%s :: %s" % (fkey, what),
           "%d comparison(s) on the checksum result; mismatch edges reach only error exits; %d success exits" % (
               len(guards), len(ex)), f.loc())
    return True


def bound_guard(ctx, rule, fkey, what, operand_pred, ops=("Le", "Lt", "Gt", "Ge"), const_key=None, fn=None,
                protect=None):
    """Every success exit of fkey (or every block returned by protect(fn)) passes a </<=/>/>= comparison
    satisfying operand_pred(fn, ops, kind), and one edge of the comparison reaches none of them."""
    f = fn if fn is not None else ctx.body(rule, fkey)
    if f is None:
        return False
    guards = []
    for b, kind, opnds, t_t, f_t in _cmp_switches(f):
        if kind in ops and operand_pred(f, opnds, kind):
            guards.append((b, t_t, f_t))
    ex = C.success_exit_blocks(f) if protect is None else protect(f)
    if not ex:
        ctx.violation(rule, "%s/ANCHOR-MISSING/%s/protected" % (rule, fkey),
                      "%s: the protected use site was not found in %s" % (what, fkey), f.loc())
        return False
    if not guards:
        ctx.violation(rule, "%s/no-guard/%s" % (rule, fkey), "%s: guard comparison not found in %s" % (what, fkey), f.loc())
        return False
    gblocks = {g[0] for g in guards}
    reach_wo = C.reachable(f, 0, removed=gblocks)
    around = [e for e in ex if e in reach_wo]
    if around:
        ctx.violation(rule, "%s/bypass/%s" % (rule, fkey),
                      "%s: a success exit of %s is reachable around the guard" % (what, fkey), f.loc(around[0]))
        return False
    # one of the two edges of each guard must be error-only
    for b, t_t, f_t in guards:
        rt = C.reachable(f, t_t, removed={b})
        rf = C.reachable(f, f_t, removed={b})
        t_ok = any(e in rt for e in ex)
        f_ok = any(e in rf for e in ex)
        if t_ok and f_ok:
            ctx.violation(rule, "%s/vacuous/%s" % (rule, fkey),
                          "%s: both edges of the guard in %s reach a success exit" % (what, fkey), f.loc(b))
            return False
    ctx.ok(rule, "%s :: %s" % (fkey, what), "%d guard(s), each with an error-only edge" % len(guards), f.loc())
    return True


def const_operand_is(op, keys=None, values=None):
    k = C.op_const(op)
    if k is None:
        return False
    if keys is not None and k.get("def") in keys:
        return True
    if values is not None and k.get("v") in values:
        return True
    return False


# ------------------------------------------------------------------------------------------------
# A2: who writes a field
# ------------------------------------------------------------------------------------------------

def field_writers(fb, owner, field):
    """Returns dict fn key -> set of kinds ('assign' | 'borrow_mut') for places whose LAST field
    projection is owner.field (a write to a sub-place of the field counts as well)."""
    out = {}
    for key, f in fb.fns.items():
        for bi, blk in enumerate(f.blocks):
            if blk.get("cu"):
                continue
            for st in blk["s"]:
                if st[0] != "=":
                    continue
                if _touches(st[1], owner, field):
                    out.setdefault(key, set()).add("assign")
                rv = st[2]
                if rv[0] == "ref" and rv[1] == "m" and _touches(rv[2], owner, field):
                    out.setdefault(key, set()).add("borrow_mut")
                if rv[0] == "rawptr" and _touches(rv[2], owner, field):
                    out.setdefault(key, set()).add("borrow_mut")
            t = blk["t"]
            if t[0] == "call" and _touches(t[1]["dest"], owner, field):
                out.setdefault(key, set()).add("assign")
    return out


def _touches(place, owner, field):
    for p in place[1]:
        if isinstance(p, list) and p[0] == "f" and p[2] == field and p[3] == owner:
            return True
    return False


def constructors_of(fb, adt):
    out = set()
    for key, f in fb.fns.items():
        for blk in f.blocks:
            if blk.get("cu"):
                continue
            for st in blk["s"]:
                if st[0] == "=" and st[2][0] == "agg" and st[2][1] == "adt" and st[2][2] == adt:
                    out.add(key)
    return out


def writer_set_rule(ctx, rule, owner, field, allowed, what, kinds=("assign", "borrow_mut")):
    """The set of functions writing owner.field must be a subset of `allowed` (dict key -> reason)."""
    if owner not in ctx.fb.adts:
        ctx.violation(rule, "%s/ANCHOR-MISSING/%s" % (rule, owner), "ADT %s not found" % owner)
        return False
    adt = ctx.fb.adts[owner]
    names = [fl["name"] for v in adt["variants"] for fl in v["fields"]]
    if field not in names:
        ctx.violation(rule, "%s/ANCHOR-MISSING/%s.%s" % (rule, owner, field), "field %s.%s not found" % (owner, field))
        return False
    ws = field_writers(ctx.fb, owner, field)
    ok = True
    n = 0
    for key, ks in sorted(ws.items()):
        if not (ks & set(kinds)):
            continue
        n += 1
        root = ctx.fb.fns[key].root
        if key in allowed or root in allowed:
            ctx.saw_fn(ctx.fb.fns[key])
            continue
        ok = False
        f = ctx.fb.fns[key]
        ctx.violation(rule, "%s/writer/%s.%s/%s" % (rule, owner, field, key),
                      "%s: %s writes %s.%s but is not in the confirmed writer table" % (what, key, owner, field),
                      f.loc())
    if ok:
        ctx.ok(rule, "%s.%s :: %s" % (owner, field, what), "%d writer(s), all in the confirmed table of %d" % (n, len(allowed)))
    return ok


def arg_derives_from_const(fn, op, const_keys, max_nodes=200):
    """Does the operand (transitively through moves/refs/casts) come from a constant item in const_keys?"""
    d = C.defs(fn)
    k = C.op_const(op)
    if k is not None:
        return k.get("def") in const_keys
    seen = set()
    stack = list(operand_locals(op))
    n = 0
    while stack and n < max_nodes:
        l = stack.pop()
        if l in seen:
            continue
        seen.add(l)
        n += 1
        for df in d.get(l, []):
            if df[0] in ("=", "partial"):
                for o in rvalue_operands(df[3]):
                    kk = C.op_const(o)
                    if kk is not None and kk.get("def") in const_keys:
                        return True
                    stack.extend(operand_locals(o))
    return False


def call_with_const_arg(callee, const_keys, argidx=None):
    """callpred: call to `callee` (regex) one of whose arguments derives from a const in const_keys."""
    pred = mk_pred(callee)

    def cp(fn, c):
        k = c.get("f")
        if k is None or not pred(k):
            return False
        args = c["args"] if argidx is None else [c["args"][argidx]] if argidx < len(c["args"]) else []
        return any(arg_derives_from_const(fn, a, const_keys) for a in args)
    return cp


def switch_on_call(fn, target):
    """Finds switches whose condition is the bool result of a call matching target.
    Returns list of (block, true_target, false_target, call dict)."""
    pred = mk_pred(target)
    out = []
    for b, blk in enumerate(fn.blocks):
        if blk.get("cu") or blk["t"][0] != "sw":
            continue
        cond = C.switch_condition(fn, b)
        neg = False
        while cond and cond[0] == "not":
            l = C.op_local(cond[1])
            d = C.single_def(fn, l) if l is not None else None
            neg = not neg
            if d is not None and d[0] == "call":
                cond = ("call", d[2])
            elif d is not None and d[0] == "=" and d[3][0] == "un" and d[3][1] == "Not":
                cond = ("not", d[3][2])
            else:
                cond = None
        if not cond or cond[0] != "call":
            continue
        k = cond[1].get("f")
        if k is None or not pred(k):
            continue
        t = blk["t"]
        zero = [tg for v, tg in t[2] if v == 0]
        if not zero:
            continue
        tt, ft = t[3], zero[0]
        if neg:
            tt, ft = ft, tt
        out.append((b, tt, ft, cond[1]))
    return out


def assigns_field(owner, field):
    """stmt_pred: an assignment whose destination's last field projection is owner.field."""
    def sp(fn, st):
        if st[0] != "=":
            return False
        fields = [p for p in st[1][1] if isinstance(p, list) and p[0] == "f"]
        return bool(fields) and fields[-1][2] == field and fields[-1][3] == owner
    return sp


def derives_from_local(fn, op, local, max_nodes=400, through_calls=False):
    """Is `local` in the backward data-flow closure of the operand? (optionally through call arguments)"""
    d = C.defs(fn)
    seen = set()
    stack = list(operand_locals(op))
    n = 0
    while stack and n < max_nodes:
        l = stack.pop()
        if l == local:
            return True
        if l in seen:
            continue
        seen.add(l)
        n += 1
        for df in d.get(l, []):
            if df[0] in ("=", "partial"):
                for o in rvalue_operands(df[3]):
                    stack.extend(operand_locals(o))
            elif through_calls and df[0] in ("call", "partial-call"):
                for a in df[2]["args"]:
                    stack.extend(operand_locals(a))
    return False


def switch_on_try_call(fn, target):
    """Switches on the bool produced by `callee(..)?` (Result<bool> unwrapped by the ? desugaring) or `callee(..)`.
    Returns list of (switch block, true target, false target, call block)."""
    from . import flow
    pred = mk_pred(target)
    out = []
    for cb, c in fn.calls():
        k = c.get("f")
        if k is None or not pred(k) or c["dest"][1]:
            continue
        derived, uses = flow.forward(fn, [c["dest"][0]])
        for b, blk in enumerate(fn.blocks):
            if blk.get("cu") or blk["t"][0] != "sw" or blk["t"][4] != "bool":
                continue
            l = C.op_local(blk["t"][1])
            if l is None or l not in derived:
                continue
            zero = [tg for v, tg in blk["t"][2] if v == 0]
            if not zero:
                continue
            out.append((b, blk["t"][3], zero[0], cb))
    return out
