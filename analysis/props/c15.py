"""C15 — hostile input is an error, never a panic: panic-site inventory over the read-side closure (A6)."""
import json
import os
import re

from .. import a6
from .. import cfg as C
from .. import rules as R

VERIF = os.path.dirname(os.path.dirname(os.path.dirname(os.path.abspath(__file__))))

EXPLANATION = (
    "Enumerates every panic-capable construct in the call-graph closure of all public read-side entry points "
    "(readers, index readers, record decoders, lazy record accessors, codec decoders, index queries; class-hierarchy "
    "expansion of trait calls; write-side functions are neither roots nor entered): K1 explicit panics "
    "(panic!/todo!/unimplemented!/unreachable!/assert!), K2 unwrap/expect, K3 bounds-check asserts and panicking "
    "index/slice/split/copy APIs, K4 division/remainder by zero and shift overflow (K5 arithmetic overflow in the "
    "thorough tier, informational). Discharge: (i) automatically when the index/divisor/shift is a constant inside a "
    "constant length; (ii) K1 sites by a hand-triaged table (safe with a reason / genuine defect listed as known "
    "finding / unproven); (iii) all other sites against a frozen per-function baseline that is explicitly NOT a claim "
    "of safety. A count above the table or baseline — a new panic-capable site in decode-reachable code, e.g. "
    "`?`->unwrap, get->index, try_from->as followed by slicing — is the violation. Also re-checks the guards that keep "
    "lazy views safe (BAM validate on read, BGZF seek offset bound)."
    " The indexing class K3 also covers std functions that assert a precondition on their arguments (Ord::clamp, step_by, div_euclid/rem_euclid, div_ceil, ilog*, from_digit), auto-discharged for constant arguments."
    " (L) no endless loop: every loop around fill_buf has an exit controlled by the emptiness of the window (an empty window is BufRead's only EOF signal; consume(0) changes nothing). (P) field bounds stay inside the buffer: a CR popped from a caller-provided buffer was read by the same call (count >= 2 guard) or every caller hands over an empty buffer (genuine defect F30, repaired)."
    " (F) lazy cursor iterators built with iter::from_fn that yield io::Result reset their cursor on the error edge or are tabled as advancing before they can fail (genuine defect F34, repaired: the sam/bam data and sam cigar iterators yielded the same error for ever). (C) get_raw_cigar compares the CG array subtype before it hands out raw bytes (genuine defect F51, repaired). (A) no reader allocates up front for a 64-bit count from the file (F52, repaired). (U) a character count is never used as a byte offset into the same text (F54, repaired at three sites, the second found by this rule). (S) the struct invariant Data.pos <= Data.len behind the BGZF block slices: every seek compares the in-block offset with the block length before it positions the cursor (shared with C02.R2).")
ASSUMPTIONS = [
    "the baseline sites (K2/K3/K4 not auto-discharged) are undecided, not safe: the claim for them is 'nothing new'",
    "class-hierarchy analysis over-approximates dynamic dispatch (more obligations, never fewer); no fn-pointer fields exist in workspace ADTs",
    "64-bit target (usize::try_from(u32) cannot fail)",
]
NOT_DECIDED = [
    "non-termination, stack depth and allocation size driven by file fields (no panic construct involved)",
    "safety of the baseline sites themselves: numeric CRAM codec loops hold most of them and were not argued safe",
    "panics inside third-party crates",
]

SCOPE_FLOOR = 7000
SITE_FLOOR = 700


def run(ctx):
    fb = ctx.fb
    with open(os.path.join(VERIF, "tables", "C15_baseline.json")) as fh:
        baseline = json.load(fh)["functions"]
    with open(os.path.join(VERIF, "tables", "C15_k1.json")) as fh:
        k1tab = json.load(fh)["sites"]
    with open(os.path.join(VERIF, "tables", "C15_demonstrated.json")) as fh:
        demonstrated = json.load(fh)["sites"]
    ctx.rule("C15.K1", "explicit panics in the read-side closure: hand-triaged table (safe / known / unproven)")
    ctx.rule("C15.K2", "unwrap/expect: per-function count <= frozen baseline")
    ctx.rule("C15.K3", "indexing/slicing (bounds asserts + panicking slice APIs): auto-discharge by constants, else <= baseline")
    ctx.rule("C15.K4", "division/remainder by zero, shift overflow: auto-discharge by constants, else <= baseline")
    inv = a6.inventory(fb, with_overflow=(ctx.tier == "thorough"))
    for k in inv["scope"]:
        ctx.fn_seen.add(k)
    ctx.count("entry_points", inv["roots"])
    ctx.count("closure_functions", len(inv["scope"]))
    for kind, n in inv["total"].items():
        ctx.count("sites_" + kind, n)
    for kind, n in inv["auto_discharged"].items():
        ctx.count("auto_discharged_" + kind, n)
        ctx.ok("C15." + kind, "auto-discharged %s sites" % kind, "%d site(s) proven safe by constant index/divisor/shift" % n)
    ctx.floor("C15.K3", "functions in the read-side closure", len(inv["scope"]), SCOPE_FLOOR)
    ctx.floor("C15.K3", "panic-capable sites enumerated", sum(inv["total"].values()), SITE_FLOOR)

    # re-anchoring: a function that moved (same crate, same last two path segments) inherits its old baseline
    live = set(fb.fns)
    orphan = {}
    for fn in list(baseline) + [k.split("|")[0] for k in k1tab]:
        if fn not in live:
            orphan.setdefault(_tail(fn), []).append(fn)

    def lookup_base(fn):
        if fn in baseline:
            return baseline[fn], None
        cands = [o for o in orphan.get(_tail(fn), []) if o in baseline and o.split("::")[0] == fn.split("::")[0]]
        if len(cands) == 1:
            return baseline[cands[0]], cands[0]
        return {}, None

    def lookup_k1(fn, key):
        e = k1tab.get("%s|%s" % (fn, key))
        if e is not None:
            return e
        cands = [o for o in orphan.get(_tail(fn), []) if "%s|%s" % (o, key) in k1tab and o.split("::")[0] == fn.split("::")[0]]
        if len(cands) == 1:
            return k1tab["%s|%s" % (cands[0], key)]
        return None

    unproven = 0
    for fn, counts in sorted(inv["per_fn"].items()):
        base, moved_from = lookup_base(fn)
        for key, n in sorted(counts.items()):
            kind, what = key.split(":", 1)
            site_fn, site_block = inv["locs"][(fn, key)]
            loc = fb.fns[site_fn].loc(site_block)
            if kind == "K5":
                ctx.count("K5_overflow_sites_reported", n)
                continue
            if kind == "K1":
                e = lookup_k1(fn, key)
                if e is None:
                    ctx.violation("C15.K1", "C15.K1/%s/%s" % (what, fn),
                                  "%d explicit %s!() site(s) in %s, reachable from a read-side entry point, are not in the "
                                  "triage table: hostile input may panic instead of returning an error" % (n, what, fn), loc)
                    continue
                if n > e["count"]:
                    ctx.violation("C15.K1", "C15.K1/%s/%s/new" % (what, fn),
                                  "%s now has %d %s!() sites, the triage table covers %d" % (fn, n, what, e["count"]), loc)
                if e["status"] == "safe":
                    ctx.ok("C15.K1", "%s %s!() x%d" % (fn, what, min(n, e["count"])), "safe: " + e["reason"], loc)
                elif e["status"] == "unproven":
                    unproven += min(n, e["count"])
                    ctx.ok("C15.K1", "%s %s!() x%d" % (fn, what, min(n, e["count"])), "UNPROVEN (not claimed safe): " + e["reason"], loc)
                else:
                    for _ in range(min(n, e["count"])):
                        ctx.violation("C15.K1", "C15.K1/%s/%s" % (what, fn), e["reason"], loc)
                continue
            b = base.get(key, 0)
            dem = demonstrated.get("%s|%s" % (fn, key)) or demonstrated.get("%s|%s" % (moved_from, key))
            if dem:
                # a baseline site that was demonstrated to panic on an input: reported (known finding by exact key), no longer
                # part of the undecided baseline
                k = min(n, dem["count"])
                for _ in range(k):
                    ctx.violation("C15." + kind, "C15.%s/%s/%s" % (kind, what, fn), dem["reason"], loc)
                n -= k
                b = max(0, b - dem["count"])
                if n == 0:
                    continue
            if n > b:
                ctx.violation("C15." + kind, "C15.%s/%s/%s" % (kind, what, fn),
                              "%s has %d undischarged %s site(s) of kind %s, the reviewed baseline has %d: a new panic-capable "
                              "construct in decode-reachable code (e.g. `?`->unwrap, get->index, checked->unchecked split)" % (
                                  fn, n, kind, what, b), loc)
            else:
                unproven += n
                ctx.ok("C15." + kind, "%s %s x%d" % (fn, what, n),
                       "<= baseline %d%s (undecided, not claimed safe)" % (b, " (re-anchored from %s)" % moved_from if moved_from else ""), loc)
    ctx.count("baseline_sites_undecided", unproven)

    # ---------------------------------------------------------------- no endless loop on a truncated stream
    ctx.rule("C15.L", "fill_buf scanning loops terminate at end of stream: an exit edge of every loop around fill_buf is controlled by the "
                      "emptiness of the window")
    from .. import a5
    a5.fill_loop_eof_rule(ctx, "C15.L", 15)

    # ---------------------------------------------------------------- lazy field iterators end after an error
    ctx.rule("C15.F", "lazy cursor iterators (iter::from_fn over a captured slice, guarded by is_empty) end after an error: the Err edge resets "
                      "the cursor, or the parser is tabled as advancing before it can fail (defect F34: the same error was yielded for ever)")
    FUSE_TABLE = {
        "noodles_vcf::record::info::Info::<'r>::iter":
            "field::next starts with read_key, which splits the key and its delimiter (or the whole rest) off the cursor before it can fail",
        "noodles_bcf::record::samples::Samples::<'r>::series":
            "read_series first takes the typed string-map index (at least the type descriptor byte) off the cursor: it advances before any error",
        "<noodles_vcf::record::samples::series::value::genotype::Genotype<'_> as noodles_vcf::variant::record::samples::series::value::genotype::Genotype>::iter":
            "parse_allele starts with next_allele, which always splits at least one character off the cursor",
    }
    nf = 0
    for k, f in sorted(fb.fns.items()):
        if not f.blocks or not k.startswith(("noodles_", "<noodles_")):
            continue
        if not any((c.get("f") or "").endswith("iter::sources::from_fn::from_fn") for _b, c in f.calls()):
            continue
        for g in [g for g in fb.fns.values() if g.is_closure and g.parent == k and g.blocks]:
            if "Option<core::result::Result<" not in g.locals[0]:
                continue
            env_reads = set()
            guard = False
            for b, c in g.calls():
                if (c.get("f") or "").endswith("::is_empty") and c["args"]:
                    guard = True
            # `&mut` of a captured place handed to a workspace parser
            hands = [c for b, c in g.calls() if (c.get("f") or "") in fb.fns and any(
                C.op_local(a) is not None and g.locals[C.op_local(a)].startswith("&mut &") for a in c["args"])]
            # the emptiness test may live in the callee: `field::next(&mut src)` itself returns Option<io::Result<..>>
            if not guard and any("Option<core::result::Result<" in (fb.fns[c["f"]].locals[0] or "") for c in hands):
                guard = True
            if not guard or not hands:
                continue
            nf += 1
            ctx.saw_fn(g)
            resets = [st for blk in g.blocks if not blk.get("cu") for st in blk["s"]
                      if st[0] == "=" and st[1][0] == 1 and st[1][1] and not any(R.derives_from_call(g, o, lambda s_: True) for o in R.rvalue_operands(st[2]))]
            if resets:
                ctx.ok("C15.F", k, "the closure resets its captured cursor (a store that derives from no call result) on the error edge", g.loc())
            elif k in FUSE_TABLE:
                ctx.ok("C15.F", k, "tabled: " + FUSE_TABLE[k], g.loc())
            else:
                ctx.violation("C15.F", "C15.F/unfused-cursor-iterator/" + k,
                              "%s yields `Some(%s(&mut cursor))` while the cursor is not empty and never resets the cursor: when the parser "
                              "fails without consuming anything (an invalid type code, a dangling sign) the iterator returns the same "
                              "error for ever — iterating the fields of a record that was returned Ok does not terminate" % (
                                  k, hands[0]["f"].split("::")[-1]), g.loc())
    ctx.floor("C15.F", "error-yielding cursor iterators built with iter::from_fn", nf, 6)

    # ---------------------------------------------------------------- the overflow CIGAR comes from a 4-byte-element array only
    ctx.rule("C15.C", "the lazy BAM record takes its overflow CIGAR (CG tag) only from an array of subtype UInt32: get_raw_cigar compares the "
                      "subtype before it hands the raw bytes to Cigar, whose iterator holds unreachable!() for a length that is no multiple "
                      "of four (genuine defect F51, repaired: any subtype was accepted)")
    fgc = ctx.anchor("C15.C", "noodles_bam::record::data::get_raw_cigar")
    if fgc is not None:
        ctx.saw_fn(fgc)
        eqs = [b for b, c in fgc.calls() if re.search(r"Subtype as core::cmp::PartialEq>::(eq|ne)$", c.get("f") or "")]
        somes = [bi for bi, blk in enumerate(fgc.blocks) if not blk.get("cu") for st in blk["s"]
                 if st[0] == "=" and st[2][0] == "agg" and st[2][1] == "adt" and st[2][2] == "core::option::Option" and st[2][3] == "Some"]
        if not somes:
            ctx.violation("C15.C", "C15.C/ANCHOR-MISSING/get_raw_cigar/some", "get_raw_cigar no longer builds Some(raw bytes)", fgc.loc())
        else:
            free = [b for b in somes if b in C.reachable(fgc, 0, removed=set(eqs))]
            if eqs and not free:
                ctx.ok("C15.C", fgc.key, "every way to Some(raw bytes) passes the comparison of the array subtype", fgc.loc(somes[0]))
            else:
                ctx.violation("C15.C", "C15.C/cg-subtype-unchecked/" + fgc.key,
                              "get_raw_cigar hands out the raw bytes of a CG array without comparing its subtype: a CG:B:C array whose length is "
                              "no multiple of four reaches unreachable!() in bam::record::Cigar::iter (one corrupt subtype byte)", fgc.loc(somes[0]))

    # ---------------------------------------------------------------- no up-front allocation for a 64-bit count from the file
    ctx.rule("C15.A", "no reader allocates up front for a 64-bit count taken from the file: Vec / IndexMap ::with_capacity(n) with n derived "
                      "from read_u64_le / u64::from_le_bytes panics with 'capacity overflow' for a corrupt count (genuine defect F52, "
                      "repaired in the async gzi reader; counts of 32 bits cannot overflow the capacity computation and are only counted)")
    na64, na32 = 0, 0
    p64 = R.mk_pred(r"read_u64_le$|read_i64_le$|<impl u64>::from_le_bytes$|<impl i64>::from_le_bytes$|get_u64_le$|get_i64_le$")
    p32 = R.mk_pred(r"read_u32_le$|read_i32_le$|<impl u32>::from_le_bytes$|<impl i32>::from_le_bytes$|get_u32_le$|get_i32_le$|read_u16_le$")
    for k, f in sorted(fb.fns.items()):
        if not f.blocks or not k.startswith(("noodles_", "<noodles_")) or "writer" in k:
            continue
        for b, c in f.calls():
            if not re.search(r"::with_capacity$", c.get("f") or "") or not c["args"]:
                continue
            if R.derives_from_call(f, c["args"][0], p64):
                na64 += 1
                ctx.saw_fn(f)
                ctx.violation("C15.A", "C15.A/capacity-from-64-bit-count/" + f.root,
                              "%s calls %s with a 64-bit count read from the file: a corrupt count panics with 'capacity overflow' (or aborts "
                              "on allocation failure) before a single entry was read" % (f.root, (c.get("f") or "").split("::")[-2]), f.loc(b))
            elif R.derives_from_call(f, c["args"][0], p32):
                na32 += 1
    if not na64:
        ctx.ok("C15.A", "no with_capacity site is fed by a 64-bit file field", "%d site(s) fed by a 16/32-bit field counted" % na32)
    ctx.floor("C15.A", "with_capacity sites fed by a 16/32-bit file field (positive control of the data-flow matcher)", na32, 3)

    # ---------------------------------------------------------------- the struct invariant behind the BGZF block slices
    ctx.rule("C15.S", "A4 struct invariant Data.pos <= Data.len (the slices of the BGZF block data assume it): every seek that positions the "
                      "in-block cursor from a file-provided offset (an index chunk, a gzi entry) does so only on the edge where the offset was "
                      "compared with the loaded block's length — sync, multithreaded and the async helper (the rule of C02.R2, decided here "
                      "for the 'never a panic' clause: a fast path that skips the comparison makes the next read_exact panic)")

    def _len_cmp15(fn, ops, kind):
        return any(R.derives_from_call(fn, o, R.mk_pred(r"io::block::data::Data::len$")) for o in ops)

    def _nonconst_sp15(fn):
        return [b for b, c in R.find_calls(fn, r"io::block::data::Data::set_position$") if C.eval_const(fn, c["args"][1]) is None]
    for key15 in ("noodles_bgzf::io::reader::Reader::<R>::seek",
                  "<noodles_bgzf::io::multithreaded_reader::MultithreadedReader<R> as noodles_bgzf::io::seek::Seek>::seek_to_virtual_position",
                  "noodles_bgzf::r#async::io::reader::set_block_data_position"):
        R.bound_guard(ctx, "C15.S", key15, "the in-block offset is compared with the block data length before set_position", _len_cmp15,
                      protect=_nonconst_sp15)

    # ---------------------------------------------------------------- character counts are not byte offsets
    ctx.rule("C15.U", "a position counted in characters (Iterator::position over str::Chars) is never used as a byte offset into the same text "
                      "(str::split_at / str indexing): with a multi-byte character the slice is cut inside it and panics (genuine defect "
                      "F54, repaired); expected count 0, the F54 revert mutant is the positive example")
    nu = 0
    npos = 0
    for k, f in sorted(fb.fns.items()):
        if not f.blocks or not k.startswith(("noodles_", "<noodles_")):
            continue
        for b, c in f.calls():
            fk = c.get("f") or ""
            if fk.endswith("::position") or fk.endswith("::rposition"):
                npos += 1
            if not re.search(r"::r?position$", fk):
                continue
            # the iterator counts characters: its receiver comes from str::chars()
            if not ("str::iter::Chars" in fk or "str::iter::Chars" in (c.get("ga") or "") or
                    (c["args"] and R.derives_from_call(f, c["args"][0], R.mk_pred(r"str::<impl str>::chars$")))):
                continue
            uses = [c2 for _b2, c2 in f.calls() if re.search(r"str::<impl str>::split_at(_checked)?$|<str as core::ops::index::Index|str::traits::<impl core::slice::index::SliceIndex<str>", c2.get("f") or "")
                    and any(R.derives_from_call(f, a, lambda s_, fk=fk: s_ == fk) for a in c2["args"][1:])]
            if uses:
                nu += 1
                ctx.violation("C15.U", "C15.U/char-count-as-byte-offset/" + f.root,
                              "%s uses the result of %s (a count of characters) as a byte offset in %s: a multi-byte character before the "
                              "match makes the offset fall inside a character and the slice panics" % (f.root, fk.split("::")[-1], (uses[0].get("f") or "").split("::")[-1]), f.loc(b))
    if not nu:
        ctx.ok("C15.U", "no character count is used as a byte offset", "%d position() call sites scanned" % npos)
    ctx.floor("C15.U", "Iterator::position call sites scanned (positive control)", npos, 10)

    # ---------------------------------------------------------------- field bounds stay inside the buffer
    ctx.rule("C15.P", "A10 line-ending strip: a CR popped from a caller-provided buffer was read by the same call (count >= 2 guard), or every "
                      "caller hands over an empty buffer: otherwise the recorded end of an earlier field lies past the buffer and its accessor panics")
    from .. import a10
    a10.cr_pop_rule(ctx, "C15.P", r"^<?noodles_", 20)

    # ---------------------------------------------------------------- guards that keep lazy views / cursors safe
    ctx.rule("C15.G", "guards: BAM read_record validates before exposing a RecordRef; BGZF seek bounds the cursor (C02.R2)")
    R.must_pass(ctx, "C15.G", "noodles_bam::io::reader::record::read_record", r"noodles_bam::io::reader::record::validate$",
                "BAM read_record() validates the raw record after reading its body", start_after=_is_read_exact)
    R.must_pass(ctx, "C15.G", "noodles_bam::r#async::io::reader::record::read_record", r"noodles_bam::io::reader::record::validate$",
                "async BAM read_record() validates the raw record after reading its body", start_after=_is_read_exact)
    from .c05 import validate_formula_rule
    validate_formula_rule(ctx, "C15.G")
    # CRAM: the file-provided distance to the next fragment is validated against the slice before it is used as an index (F41)
    frm = ctx.anchor("C15.G", "noodles_cram::io::reader::container::slice::resolve_mates")
    if frm is not None:
        anys = R.switch_on_call(frm, r"Iterator::any$")
        cmp_len = [g for g in fb.family(frm.key) if g.is_closure and any(
            kind in ("Ge", "Gt", "Lt", "Le") for _b, kind, _o, _t, _f in R._cmp_switches(g)) or any(
            st[0] == "=" and st[2][0] == "bin" and st[2][1] in ("Ge", "Gt", "Lt", "Le") for g2 in [g] for blk in g2.blocks for st in blk["s"])]
        idx = [bi for bi, blk in enumerate(frm.blocks) if not blk.get("cu") and blk["t"][0] == "assert" and "BoundsCheck" in str(blk["t"][1])]
        idx += [b for b, c in frm.calls() if re.search(r"split_at_mut$|ops::index::Index(Mut)?<", c.get("f") or "")]
        ex_err = {b for b, k in C.exit_points(frm) if k == "err"}
        if not anys or not cmp_len or not idx:
            ctx.violation("C15.G", "C15.G/mate-index-unchecked/" + frm.key,
                          "resolve_mates no longer validates the file-provided mate indices against the number of records (any(..) test: %d, "
                          "comparison closures: %d, index sites: %d): a distance that points past the slice panics" % (len(anys), len(cmp_len), len(idx)), frm.loc())
        else:
            sb, tt, ft, _c = anys[0]
            bad_edge_ok = any(e in C.reachable(frm, tt, removed={sb}) for e in ex_err) and not any(i in C.reachable(frm, tt, removed={sb}) for i in idx)
            around = [i for i in idx if i in C.reachable(frm, 0, removed={sb})]
            if bad_edge_ok and not around:
                ctx.ok("C15.G", frm.key + " :: mate indices validated before the first index", "%d index sites behind the any(index >= len) test" % len(idx), frm.loc(sb))
            else:
                ctx.violation("C15.G", "C15.G/mate-index-unchecked/" + frm.key,
                              "resolve_mates indexes the records with a file-provided mate index on a path that has not passed the range test", frm.loc(around[0] if around else sb))
    # fn-pointer typed fields in workspace ADTs would defeat the call graph: assert there are none
    fps = [(k, f["name"]) for k, a in fb.adts.items() for v in a["variants"] for f in v["fields"]
           if f["ty"].startswith("fn(") or " fn(" in f["ty"] and "dyn" not in f["ty"]]
    if fps:
        ctx.violation("C15.G", "C15.G/fn-pointer-field/%s.%s" % fps[0], "workspace ADT stores a function pointer: call graph incomplete")
    else:
        ctx.ok("C15.G", "no fn-pointer typed fields in workspace ADTs", "%d ADTs inspected" % len(fb.adts))


def _is_read_exact(c):
    return (c.get("f") or "").endswith("::read_exact")


def _tail(fn):
    parts = fn.split("::")
    return "::".join(parts[-2:])
