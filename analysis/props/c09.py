"""C09 — VCF round trip; lazy = eager: escaping sets, encode/decode pairing, shared span (DESIGN.md §5 C09)."""
import re

from .. import a10
from .. import a9
from .. import a5
from .. import a7
from .. import cfg as C
from .. import rules as R

EXPLANATION = (
    "Decides the escaping half of the VCF round trip structurally: (R1) the two percent-encode sets (evaluated AsciiSet "
    "constants) contain what VCFv4.x §1.2 reserves for the column and, independently, every delimiter constant the readers "
    "of that column split on (harvested from the reader modules, eager and lazy) plus '%' itself and the record/column "
    "terminators; (R2) a column encoded on write is decoded in every read view: the callers of the shared percent_decode "
    "helper cover the eager parser, the lazy accessor and the array-value iterators for INFO and for samples, and the "
    "writers of both columns call their encoder; (R3) the lone '.' escape is present in both string writers; (R4) the "
    "variant span has one provided implementation that neither record type overrides."
    " (R5) reused destination: every entry->Ok path of the eager VCF parser overwrites or clears each RecordBuf column (samples are reset element-wise: R11); (R6) append-buffer discipline for all VCF line readers."
    " (R7) UTF-8 validation per fill_buf window in the lazy record reader carries an incomplete trailing character over to the next window."
    " (R8) the VCF-text header sub-reader (vcf, bcf; sync and async) agrees with the majority of the ten copies of that state machine."
    " (R10) the async VCF writer clears its line buffer before the inner writer fills it; (R11) element-wise reset: every per-sample value row of the reused Samples is cleared (loop, for_each(clear), whole clear, or a callee that resets on all success paths) before parse_values — which returns Ok untouched for a `.` column — fills it."
    " (R12) decode after split: no function splits (split / split_once / memchr) a value that derives from the result of percent_decode."
    " (R13) table agreement of the header enums: every variant the header writer spells as a literal is the result of an arm of the header parser (genuine defect F46, repaired: FORMAT numbers LA / LR / LG / P / M were written but not parsed). (R14) the header string parser finds the closing quote with a stateful escape scan (shared with C18.R3). (R15) every field of a header map kind's inner struct is read by its writer (genuine defect F55, repaired: IDX). (R16) the lazy parse_first_allele decides the implicit phasing over all separators. (R17) the lazy Info::get tokenises from the start of the INFO string (no unverified substring search for the key).")
ASSUMPTIONS = ["percent-encoding crate encodes exactly the bytes in the AsciiSet (plus non-ASCII) and decodes %XX",
               "reader delimiter constants are the named DELIMITER/SEPARATOR consts of the reader modules (floor-checked)"]
NOT_DECIDED = ["value equality over the VCF grammar (numbers, floats, genotype strings, header records)",
               "that the (Number, Type) dispatch of eager and lazy parsers yields equal values"]

V = "noodles_vcf::"
INFO_SET = V + "io::writer::record::info::field::value::string::PERCENT_ENCODE_SET"
SAMP_SET = V + "io::writer::record::samples::sample::value::string::PERCENT_ENCODE_SET"
DECODE = V + "io::reader::record_buf::value::percent_decode"


def run(ctx):
    fb = ctx.fb
    ctx.rule("C09.R1", "A8+A7 percent-encode sets ⊇ spec-reserved bytes and ⊇ reader delimiters of the column")
    spec = {
        "INFO": (INFO_SET, set(b"%;=,\t\n\r"), [V + "io::reader::record_buf::info", V + "record::info", V + "variant::record::info"]),
        "samples": (SAMP_SET, set(b"%:,\t\n\r"), [V + "io::reader::record_buf::samples", V + "record::samples", V + "variant::record::samples"]),
    }
    for col, (key, reserved, prefixes) in spec.items():
        s = a7.ascii_set(fb, key)
        if s is None:
            ctx.violation("C09.R1", "C09.R1/ANCHOR-MISSING/" + key, "encode set constant %s not found or not evaluable" % key)
            continue
        missing = reserved - s
        if missing:
            ctx.violation("C09.R1", "C09.R1/spec-reserved/%s" % col,
                          "%s string encode set lacks %s (VCFv4.x §1.2): such a byte is written raw and splits the field on read" % (col, a7.show(missing)))
        else:
            ctx.ok("C09.R1", "%s encode set ⊇ reserved %s" % (col, a7.show(reserved)), a7.show(s))
        delims = a7.delimiter_consts(fb, prefixes)
        ctx.floor("C09.R1", "%s reader delimiter constants" % col, len(delims), 6)
        bad = {k: v for k, v in delims.items() if v not in s}
        if bad:
            k0 = sorted(bad)[0]
            ctx.violation("C09.R1", "C09.R1/reader-delimiter/%s/%s" % (col, "+".join(sorted({chr(v) for v in bad.values()}))),
                          "%s readers split on %s (%s) but the writer's encode set does not escape it" % (col, a7.show(set(bad.values())), k0))
        else:
            ctx.ok("C09.R1", "%s encode set ⊇ %d reader delimiter constants" % (col, len(delims)), a7.show(set(delims.values())))

    ctx.rule("C09.R2", "A7 pairing: encoded on write ⇔ decoded in every read view (eager, lazy, array iterators)")
    required_decoders = {
        V + "io::reader::record_buf::info::field::value::parse_raw_string": "eager INFO",
        V + "io::reader::record_buf::samples::values::value::parse_raw_string": "eager samples",
        V + "record::info::field::value::parse_string_value": "lazy INFO string",
        V + "record::info::field::value::parse_character_value": "lazy INFO character",
        V + "record::samples::series::value::parse_string_value": "lazy sample string",
        V + "record::samples::series::value::parse_character_value": "lazy sample character",
        "<&'a str as noodles_vcf::variant::record::info::field::value::array::values::Values<'a, alloc::borrow::Cow<'a, str>>>::iter": "INFO string array iterator",
        "<&'a str as noodles_vcf::variant::record::info::field::value::array::values::Values<'a, char>>::iter": "INFO character array iterator",
        "<&'a str as noodles_vcf::variant::record::samples::series::value::array::values::Values<'a, alloc::borrow::Cow<'a, str>>>::iter": "sample string array iterator",
        "<&'a str as noodles_vcf::variant::record::samples::series::value::array::values::Values<'a, char>>::iter": "sample character array iterator",
    }
    if ctx.anchor("C09.R2", DECODE) is not None:
        callers = a7.callers_of(fb, DECODE)
        for k, what in required_decoders.items():
            if k in callers:
                ctx.ok("C09.R2", "%s decodes" % what, k)
            elif k not in fb.fns:
                ctx.violation("C09.R2", "C09.R2/ANCHOR-MISSING/" + k, "read view %s (%s) not found: re-anchor" % (what, k))
            else:
                ctx.violation("C09.R2", "C09.R2/view-does-not-decode/" + k,
                              "%s (%s) no longer percent-decodes although the writer encodes the column: 'a%%3Bb' reads back as text" % (what, k),
                              fb.fns[k].loc())
    for enc, writer, col in ((V + "io::writer::record::info::field::value::string::percent_encode",
                              V + "io::writer::record::info::field::value::string::write_string", "INFO"),
                             (V + "io::writer::record::samples::sample::value::string::percent_encode",
                              V + "io::writer::record::samples::sample::value::string::write_string", "samples")):
        R.must_pass(ctx, "C09.R2", writer, lambda k, enc=enc: k == enc or k == "percent_encoding::percent_encode_byte",
                    "%s string writer percent-encodes on every path" % col)
        f = ctx.anchor("C09.R2", enc)
        if f is not None:
            key = INFO_SET if col == "INFO" else SAMP_SET
            calls = R.find_calls(f, r"percent_encoding::utf8_percent_encode$")
            uses = any(R.arg_derives_from_const(f, a, {key}) for b_, c in calls for a in c["args"])
            if uses:
                ctx.ok("C09.R2", "%s percent_encode applies its PERCENT_ENCODE_SET" % col, "", f.loc())
            else:
                ctx.violation("C09.R2", "C09.R2/encoder-set/" + enc, "%s percent_encode no longer applies its PERCENT_ENCODE_SET" % col, f.loc())
    # the character writers carry a second copy of the escape set as a matches!() pattern
    for w, col, reserved in ((V + "io::writer::record::info::field::value::character::write_character", "INFO", set(b"%;=,\t\n\r.")),
                             (V + "io::writer::record::samples::sample::value::character::write_character", "samples", set(b"%:,\t\n\r."))):
        f = ctx.anchor("C09.R2", w)
        if f is None:
            continue
        ms = [m for m in fb.matches.get(w, []) if m["sty"] == "char" and (m.get("mac") or "").startswith("matches")]
        pats = set()
        for m in ms:
            for arm in m["arms"]:
                if arm["v"] == "true":
                    pats |= {int(x) for x in arm["p"].split(" | ") if x.strip().isdigit()}
        missing = reserved - pats
        if not ms:
            ctx.violation("C09.R2", "C09.R2/ANCHOR-MISSING/%s/matches" % w, "escape pattern of %s not found" % w, f.loc())
        elif missing:
            ctx.violation("C09.R2", "C09.R2/char-escape-set/%s" % col,
                          "%s character writer no longer escapes %s" % (col, a7.show(missing)), f.loc())
        else:
            ctx.ok("C09.R2", "%s character writer escapes %s" % (col, a7.show(reserved)), a7.show(pats), f.loc())
        R.must_pass(ctx, "C09.R2", w, r"percent_encoding::percent_encode_byte$|Write::write_fmt$", "%s character writer escapes or writes on every path" % col, depth=1)

    ctx.rule("C09.R3", "lone '.' (the missing-value marker) is escaped by both string writers")
    for w in (V + "io::writer::record::info::field::value::string::write_string",
              V + "io::writer::record::samples::sample::value::string::write_string"):
        f = ctx.anchor("C09.R3", w)
        if f is None:
            continue
        if R.find_calls(f, r"percent_encoding::percent_encode_byte$"):
            ctx.ok("C09.R3", w + " special-cases the lone '.'", "", f.loc())
        else:
            ctx.violation("C09.R3", "C09.R3/missing-marker/" + w, "%s no longer escapes a string equal to the missing marker '.'" % w, f.loc())

    ctx.rule("C09.R5", "A3 reused buffer: every success path of the VCF record parser overwrites or clears each column of the destination RecordBuf")
    R.reused_buffer_rule(ctx, "C09.R5", "noodles_vcf::io::reader::record_buf::parse_record_buf", "record_buf::RecordBuf::",
                         ["reference_sequence_name_mut", "variant_start_mut", "ids_mut", "reference_bases_mut", "alternate_bases_mut",
                          "quality_score_mut", "filters_mut", "info_mut", "samples_mut"],
                         exceptions={"samples_mut": "parse_samples resets Samples field-wise (keys cleared, every values row cleared in a loop, "
                                                    "then resized): an element-wise reset, decided by C09.R11"})

    ctx.rule("C09.R11", "A10 element-wise reset: every per-sample value row of the reused Samples is cleared before parse_values fills it "
                        "(parse_values returns Ok without touching its destination for a `.` column)")
    a10.element_reset_rule(ctx, "C09.R11", "noodles_vcf::io::reader::record_buf::samples::parse_samples", 3, "values",
                           "noodles_vcf::variant::record_buf::samples::Samples", "Samples.values (one row per sample)")

    ctx.rule("C09.R12", "decode after split: the output of percent_decode is never split on a delimiter (the writer encodes the delimiter inside an "
                        "element as %2C and a lone `.` as %2E exactly so that splitting comes first)")
    n12 = 0
    bad12 = 0
    for k12, f12 in sorted(fb.fns.items()):
        if not f12.blocks or not k12.startswith(("noodles_vcf::", "<noodles_vcf::")):
            continue
        if not any(re.search(r"percent_decode$", c.get("f") or "") for _b, c in f12.calls()):
            continue
        n12 += 1
        ctx.saw_fn(f12)
        is_dec = lambda s_: bool(re.search(r"percent_decode$", s_))
        for b12, c12 in f12.calls():
            if re.search(r"(str>::split|str>::split_once|str>::splitn|str>::rsplit|str>::split_terminator|::split_at|memchr::memchr\w*)$", c12.get("f") or "") and c12["args"]:
                if R.derives_from_call(f12, c12["args"][0], is_dec):
                    bad12 += 1
                    ctx.violation("C09.R12", "C09.R12/split-after-decode/" + f12.root,
                                  "%s splits the OUTPUT of percent_decode: an element that contains the encoded delimiter (`1%%2C2`) is cut in two "
                                  "and an encoded lone `.` (`%%2E`) becomes the missing marker — the eager value differs from what was written and "
                                  "from the lazy view" % f12.root, f12.loc(b12))
    if not bad12:
        ctx.ok("C09.R12", "%d functions call percent_decode" % n12, "none of them splits a value that derives from its result")
    ctx.floor("C09.R12", "functions that call percent_decode", n12, 6)

    ctx.rule("C09.R13", "A7 table agreement of the header enums: every variant the header writer spells as a literal is produced by an arm of "
                        "the header parser (numbers, types)")
    header_variant_tables_rule(ctx, "C09.R13", 2)

    ctx.rule("C09.R6", "A10 append-buffer discipline: VCF readers reset their line buffer before every appended line")
    a10.discipline_rule(ctx, "C09.R6", r"^<?noodles_vcf::", 8)

    ctx.rule("C09.R10", "A10 writer scratch buffer: the async VCF writer clears its line buffer on every path before the inner writer fills it")
    a10.scratch_buffer_rule(ctx, "C09.R10", r"^<?noodles_vcf::", 2)

    ctx.rule("C09.R7", "A5d unit decoder per window: UTF-8 validation of the bytes of one fill_buf window inside a scanning loop must not make its "
                      "error final — a character may straddle two windows (zero or more sites; each must carry the incomplete tail over)")
    n8 = 0
    for s8 in a5.window_decoder_sites(fb):
        if not re.search(r"noodles_vcf::", s8["fn"]):
            continue
        n8 += 1
        f8 = fb.fns[s8["fn"]]
        ctx.saw_fn(f8)
        if s8["ok"]:
            ctx.ok("C09.R7", s8["fn"] + " :: incomplete trailing character is carried over", "Err edge of from_utf8(window) reaches a success exit", f8.loc(s8["block"]))
        else:
            ctx.violation("C09.R7", "C09.R7/utf8-per-window/" + f8.root,
                          "%s validates UTF-8 on the bytes of a single fill_buf window and treats the error as final: a multi-byte character "
                          "that straddles a buffer refill boundary makes a valid line fail, depending only on how the stream chunks its reads" % f8.root,
                          f8.loc(s8["block"]))
    ctx.count("utf8_per_window_sites", n8)

    ctx.rule("C09.R8", "A9 cross-crate siblings: the VCF-text header sub-reader (vcf, bcf; sync and async) performs the same state updates per trait "
                       "method as all ten copies of that state machine")
    a9.header_reader_agreement(ctx, "C09.R8", r"noodles_(vcf|bcf)::", 12)

    ctx.rule("C09.R9", "A7 pairing per value type: the Character writers percent-encode, so every reader that extracts a single character "
                       "(eager parse_raw_char, lazy parse_character_value, the char array iterators; INFO and samples) does so on percent-decoded text")
    enc_char = [k for k in fb.fns if re.search(r"noodles_vcf::io::writer::record::(info::field|samples::sample)::value::character::write_character$", k)
                and any((c.get("f") or "").endswith("percent_encode_byte") for b, c in fb.fns[k].calls())]
    ctx.floor("C09.R9", "Character writers that percent-encode (INFO, samples)", len(enc_char), 2)
    n9 = 0
    for k, f in sorted(fb.fns.items()):
        if "noodles_vcf::" not in k or "writer" in k or "genotype" in k or f.crate != "noodles_vcf":
            continue
        if not re.search(r"(info|samples)", k) or "value" not in k:
            continue
        if not any((c.get("f") or "").endswith("str::<impl str>::chars") for b, c in f.calls()):
            continue
        n9 += 1
        ctx.saw_fn(f)
        dec = any(re.search(r"percent_decode$", c.get("f") or "") for g in fb.family(f.root) for b, c in g.calls())
        if dec:
            ctx.ok("C09.R9", f.root + " :: single character taken from percent-decoded text", "", f.loc())
        else:
            ctx.violation("C09.R9", "C09.R9/character-not-decoded/" + f.root,
                          "%s extracts a Character value from the raw text: the writer emits `%%3B` for `;` (and %%2C, %%25, %%3D, %%2E ...), which "
                          "this reader rejects or mis-reads although noodles wrote it" % f.root, f.loc())
    ctx.floor("C09.R9", "single-character extractors in the VCF readers", n9, 6)

    ctx.rule("C09.R14", "the header parser finds the closing quotation mark of a quoted field value with a scan that knows the escape character "
                        "and carries an escape state (the writer emits `\\\\` and `\\\"`; a look-behind of one byte takes the second half of an "
                        "escaped backslash for an escape and does not close a value that ends with a backslash) — the rule of C18.R3, applied "
                        "to parse_escaped_string")
    from .c18 import quote_scanner_rule
    quote_scanner_rule(ctx, "C09.R14", "noodles_vcf::header::parser::record::value::map::field::value::string::parse_escaped_string", "VCF header")

    ctx.rule("C09.R15", "A7 field coverage of the structured header lines: for each map kind (INFO, FORMAT, FILTER, contig, ALT, META) the writer "
                        "write_<kind> reads EVERY field of the kind's inner struct through its same-named accessor (type-checked struct fields "
                        "vs resolved callees) — a field the parser stores and the writer never reads is lost on the way out (genuine defect "
                        "F55, repaired: IDX of four kinds)")
    n15 = 0
    for ak, adt in sorted(fb.adts.items()):
        m15 = re.match(r"^noodles_vcf::header::record::value::map::(\w+)::(\w+)$", ak)
        if not m15 or adt.get("kind") != "Struct":
            continue
        wk = "noodles_vcf::io::writer::header::record::value::map::%s::write_%s" % (m15.group(1), m15.group(1))
        fw15 = fb.fns.get(wk)
        if fw15 is None or not fw15.blocks:
            continue
        fields = [x["name"] for x in adt["variants"][0]["fields"]]
        if not fields:
            continue
        n15 += 1
        ctx.saw_fn(fw15)
        called = {(c.get("f") or "").split("::")[-1] for _b, c in fw15.calls()}
        # a field may be written by the direct caller that frames the line (the ID tag of an `other` map goes through write_other_map);
        # a closure caller counts with its parent
        for ck, cf in fb.fns.items():
            if cf.blocks and any((c.get("f") or "") == wk for _b, c in cf.calls()):
                for g in fb.family(cf.root if cf.is_closure else cf.key):
                    called |= {(c.get("f") or "").split("::")[-1] for _b, c in g.calls()}
        missing = [x for x in fields if x not in called]
        if missing:
            ctx.violation("C09.R15", "C09.R15/field-never-written/%s/%s" % (m15.group(1), ",".join(missing)),
                          "%s never reads %s of %s: the header parser stores the field, the writer drops it, and the header does not read back "
                          "equal (for IDX: a BCF header loses the explicit dictionary indices its records refer to)" % (wk, ", ".join(missing), ak), fw15.loc())
        else:
            ctx.ok("C09.R15", wk, "reads " + ", ".join(fields), fw15.loc())
    ctx.floor("C09.R15", "header map kinds with a field-bearing inner struct and a writer", n15, 5)

    ctx.rule("C09.R16", "below VCF 4.4 the first allele of a genotype is unphased as soon as ANY separator of the genotype is `/`: the lazy "
                        "parse_first_allele decides it over all separators (Iterator::any / all, or a loop), not from the first one found "
                        "(find / position / next): `0|1/2` would otherwise read phased lazily and unphased eagerly (the rule of C10.R13 for the "
                        "text side; first C09 seed)")
    f16 = ctx.anchor("C09.R16", "noodles_vcf::record::samples::series::value::genotype::parse_first_allele")
    if f16 is not None:
        ctx.saw_fn(f16)
        names16 = {(c.get("f") or "").split("::")[-1] for g in fb.family(f16.key) for _b, c in g.calls()}
        whole = bool(names16 & {"any", "all", "fold", "try_fold", "count"}) or bool(C.natural_loops(f16))
        first = names16 & {"find", "find_map", "position", "next", "first", "is_some_and"}
        if whole and not first:
            ctx.ok("C09.R16", f16.key, "the implicit phasing is decided over all separators (%s)" % ", ".join(sorted(names16 & {"any", "all", "fold", "try_fold", "count"})) , f16.loc())
        else:
            ctx.violation("C09.R16", "C09.R16/implicit-phasing-from-first-separator/" + f16.key,
                          "parse_first_allele decides the implicit phasing of the first allele from %s instead of visiting every separator: "
                          "for a polyploid genotype with mixed phasing the lazy view disagrees with the eager parser and the writer" % (
                              ", ".join(sorted(first)) or "no whole-genotype scan"), f16.loc())

    ctx.rule("C09.R17", "the lazy Info::get tokenises the INFO string from its START: the cursor handed to field::next is the whole string, not a "
                        "suffix found by a substring search for the key (str::find / rfind / match_indices / split_once): a key that is the "
                        "tail of an earlier key (CIEND=..;END=.., MAF=..;AF=..) would make the cursor land inside that field (second C09 "
                        "seed); expected 0 substring searches")
    f17 = ctx.anchor("C09.R17", "noodles_vcf::record::info::Info::<'r>::get")
    if f17 is not None:
        ctx.saw_fn(f17)
        subs = [(b, c) for g in fb.family(f17.key) for b, c in g.calls()
                if re.search(r"str::<impl str>::(find|rfind|match_indices|rmatch_indices|split_once|rsplit_once|contains|strip_prefix)$", c.get("f") or "")]
        nexts = [b for b, c in f17.calls() if re.search(r"info::field::next$", c.get("f") or "")]
        if not nexts:
            ctx.violation("C09.R17", "C09.R17/ANCHOR-MISSING/Info::get/field::next", "Info::get no longer tokenises with field::next", f17.loc())
        elif subs and not any((C.op_const(o) or {}).get("v") in (0x3b, ";") for g in fb.family(f17.key) for blk in g.blocks for st in blk["s"]
                              if st[0] == "=" for o in R.rvalue_operands(st[2])) and \
                not any(isinstance(v, int) and v == 0x3b for g in fb.family(f17.key) for blk in g.blocks if blk["t"][0] == "sw" for v, _t in blk["t"][2]):
            # (a substring search whose hit is verified against the field delimiter `;` would be a correct optimisation: not reported)
            ctx.violation("C09.R17", "C09.R17/key-located-by-substring-search/" + f17.key,
                          "Info::get positions its cursor with %s: the INFO string is searched for the key as a substring, so the tokeniser can "
                          "start inside an earlier field whose key ends with the looked-up key, and lazy get / variant_end disagree with the "
                          "eager record" % (subs[0][1].get("f") or "").split("::")[-1], f17.loc(subs[0][0]))
        else:
            ctx.ok("C09.R17", f17.key, "tokenises from the start of the INFO string (no unverified substring search)", f17.loc(nexts[0]))

    ctx.rule("C09.R4", "impl table: variant_end / variant_span are single provided implementations (lazy and eager share them)")
    tr = fb.traits.get(V + "variant::record::Record")
    if tr is None:
        ctx.violation("C09.R4", "C09.R4/ANCHOR-MISSING/variant::record::Record", "trait not found")
    else:
        prov = {m["name"] for m in tr["methods"] if m["provided"]}
        for name in ("variant_end", "variant_span"):
            if name not in prov:
                ctx.violation("C09.R4", "C09.R4/not-provided/" + name, "%s is no longer a provided trait method" % name)
                continue
            titem = V + "variant::record::Record::" + name
            overrides = fb.impls_of_trait_item().get(titem, [])
            if overrides:
                ctx.violation("C09.R4", "C09.R4/override/%s/%s" % (name, overrides[0]),
                              "%s overrides %s: lazy and eager records may report different spans" % (overrides[0], name))
            else:
                ctx.ok("C09.R4", "%s: one provided implementation, no override in %d impls" % (name, len(fb.impls)), "")



def header_variant_tables_rule(ctx, rule, floor):
    """every header value the writer can spell is a value the parser can read: for each `write_<x>` match over an enum in the VCF
    header writer and the `parse_<x>` of the same path in the header parser, every variant that has a writer arm producing a
    literal also occurs as the result of a parser arm (defect F46: the FORMAT number writer spelled LA/LR/LG/P/M, the parser knew
    A/R/G/. only). Variants written with a formatted payload (Count(n), Other(..)) are read by the parser's catch-all arm."""
    fb = ctx.fb
    n = 0
    W = "noodles_vcf::io::writer::header::record::value::map::"
    P = "noodles_vcf::header::parser::record::value::map::"
    for wk, wms in sorted(fb.matches.items()):
        if not wk.startswith(W):
            continue
        tail = wk[len(W):]
        m_ = re.match(r"(.*)::write_(\w+)$", tail)
        if not m_:
            continue
        pk = P + m_.group(1) + "::parse_" + m_.group(2)
        if pk not in fb.matches:
            continue
        for wm in wms:
            wvars = {}
            for a in wm["arms"]:
                for v in re.findall(r"::(\w+)::(\w+)(?:\(|\b)", a["p"]):
                    pass
                mv = re.match(r"^([\w:<>' ,]+)::(\w+)(\(.*\))?$", a["p"].strip())
                if mv and "write_all" in a["v"] and not mv.group(3):
                    wvars[mv.group(2)] = a["p"]
            if len(wvars) < 2:
                continue
            n += 1
            ctx.saw_fn(fb.fns[wk]) if wk in fb.fns else None
            pvals = " ".join(a["v"] for pm in fb.matches[pk] for a in pm["arms"])
            missing = sorted(v for v in wvars if not re.search(r"::%s\b" % re.escape(v), pvals))
            if missing:
                ctx.violation(rule, "%s/written-not-parsed/%s" % (rule, pk),
                              "%s spells the variants %s, but no arm of %s produces them: a header the writer emits (and any file that uses these "
                              "values) does not parse" % (wk.split("::")[-1] + " in " + m_.group(1), missing, pk), fb.fns[pk].loc() if pk in fb.fns else "")
            else:
                ctx.ok(rule, "%s <-> %s" % (wk[len(W):], pk[len(P):]), "all %d literal variants of the writer are results of parser arms" % len(wvars),
                       fb.fns[pk].loc() if pk in fb.fns else "")
    ctx.floor(rule, "writer/parser enum tables of the VCF header", n, floor)
