"""C11 — FASTA/FASTQ indexing and random access: guards (DESIGN.md §5 C11)."""
import re

from .. import a10
from .. import a5
from .. import cfg as C
from .. import rules as R

EXPLANATION = (
    "Decides the guards of indexed FASTA access structurally: (R1) fai::Record::query returns an offset only on the edge "
    "where the interval start was compared with the record's sequence length (otherwise a start past the sequence reads "
    "the next record's definition line); (R2) the bounded sequence reader copies min(remaining, window) bytes per step and "
    "its line-skipping reader stops at the definition prefix; (R3) the indexer's two consistency comparisons lead to "
    "error exits and every Some(record) exit passes the last-line test; (R5) every fill_buf scanner of the FASTA/FASTQ "
    "readers is peek-1 / scan-in-loop / delegation (shared with C12)."
    " (R6) FASTQ read_record resets the whole reused record through a field-complete Record::clear() before the appending line reads; (R7) append-buffer discipline of all FASTA/FASTQ readers and indexers, with the three public append-to-caller-buffer APIs tabled."
    " (R8) an LF scanner over a fill_buf window that strips a CR tests for it independently of whether the LF is in the same window."
    " (R9) ragged files are rejected: every cycle of the indexer's line loop through consume_sequence_line passes an Eq/Ne comparison between this line's geometry and the first line's. (R10) no ordered lookup (binary search) over the file-ordered fai records.")
ASSUMPTIONS = ["the offset arithmetic start / line_bases * line_width + start % line_bases is pinned by unit tests (value-level)"]
NOT_DECIDED = ["offset arithmetic and CRLF accounting values (a `%` operand mutant survives the suite and this check)",
               "FASTA/FASTQ writer/reader record equality at every line width"]

F = "noodles_fasta::"


def run(ctx):
    fb = ctx.fb
    ctx.rule("C11.R1", "A4 guard: fai::Record::query Ok only after start was compared with self.length")

    def length_cmp(fn, ops, kind):
        for o in ops:
            p = C.op_place(o)
            if p and any(nm == "length" and ow == F + "fai::record::Record" for nm, ow in C.place_fields(p)):
                return True
            l = C.op_local(o)
            d = C.single_def(fn, l) if l is not None else None
            if d is not None and d[0] == "=" and d[3][0] == "use":
                pp = C.op_place(d[3][1])
                if pp and any(nm == "length" and ow == F + "fai::record::Record" for nm, ow in C.place_fields(pp)):
                    return True
        return False
    R.bound_guard(ctx, "C11.R1", F + "fai::record::Record::query", "interval start compared with the sequence length", length_cmp)

    # quotient and remainder of the position decomposition are taken from the same value
    fq = ctx.anchor("C11.R1", F + "fai::record::Record::query")
    if fq is not None:
        divs, rems = [], []
        for blk in fq.blocks:
            for st in blk["s"]:
                if st[0] == "=" and st[2][0] == "bin" and st[2][1] in ("Div", "Rem"):
                    (divs if st[2][1] == "Div" else rems).append((_root(fq, st[2][2]), _root(fq, st[2][3])))
        if len(divs) != 1 or len(rems) != 1:
            ctx.violation("C11.R1", "C11.R1/ANCHOR-MISSING/%s/div-rem" % fq.key, "expected one / and one %% in fai::Record::query, found %d/%d" % (len(divs), len(rems)), fq.loc())
        elif divs[0] != rems[0]:
            ctx.violation("C11.R1", "C11.R1/div-rem-operands/" + fq.key,
                          "the line term and the column term of the offset are computed from different values (`a / n` and `b %% n` with a != b): "
                          "a region starting on the last base of a line lands one line off", fq.loc())
        else:
            ctx.ok("C11.R1", "offset = position + x / n * w + x % n with the same x and n", "", fq.loc())

    ctx.rule("C11.R2", "A4 bounded copy: read_sequence_limit extends by min(remaining, src.len()); sequence reader stops at '>'")
    f = ctx.anchor("C11.R2", F + "io::reader::sequence::read_sequence_limit")
    if f is not None:
        mins = R.find_calls(f, r"core::cmp::Ord::min$|as core::cmp::Ord>::min$")
        ext = R.find_calls(f, r"Extend<.*>>::extend$|Vec::<T, A>::extend_from_slice$")
        ok = bool(mins) and bool(ext) and all(
            R.derives_from_call(f, c["args"][1], R.mk_pred(r"core::cmp::Ord::min$|as core::cmp::Ord>::min$")) for b, c in ext)
        cons = R.find_calls(f, r"BufRead>::consume$|BufRead::consume$")
        ok2 = bool(cons) and all(R.derives_from_call(f, c["args"][1], R.mk_pred(r"cmp::Ord::min$|as core::cmp::Ord>::min$")) for b, c in cons)
        if ok and ok2:
            ctx.ok("C11.R2", f.key + " :: extend(&src[..remaining.min(src.len())]) and consume the same amount", "", f.loc())
        else:
            ctx.violation("C11.R2", "C11.R2/unbounded-copy/" + f.key,
                          "read_sequence_limit no longer bounds the copied bytes by min(remaining bases, window) or consumes a different amount", f.loc())
        # loop guard: buf.len() < max_bases
        lt = [1 for b, kind, ops, t_t, f_t in R._cmp_switches(f) if kind == "Lt"]
        if lt:
            ctx.ok("C11.R2", f.key + " :: loop guarded by buf.len() < max_bases", "", f.loc())
        else:
            ctx.violation("C11.R2", "C11.R2/loop-guard/" + f.key, "read_sequence_limit lost its buf.len() < max_bases loop guard", f.loc())
    fr = ctx.anchor("C11.R2", "<noodles_fasta::io::reader::sequence::Reader<'_, R> as std::io::BufRead>::fill_buf")
    if fr is not None:
        pref = F + "io::reader::DEFINITION_PREFIX"
        alt = [k for k in fb.consts if k.endswith("DEFINITION_PREFIX") and k.startswith(F)]
        uses = any(st[0] == "=" and any((C.op_const(o) or {}).get("def") in alt or (C.op_const(o) or {}).get("v") == 0x3e for o in R.rvalue_operands(st[2]))
                   for g in fb.family(fr.key) for blk in g.blocks for st in blk["s"])
        if uses:
            ctx.ok("C11.R2", fr.key + " compares the window with the definition prefix '>'", "", fr.loc())
        else:
            ctx.violation("C11.R2", "C11.R2/definition-prefix/" + fr.key, "the sequence reader no longer stops at the definition prefix", fr.loc())

    ctx.rule("C11.R3", "A3 indexer rejects ragged input: consistency comparisons reach error exits; Some(record) passes the last-line test")
    fi = ctx.anchor("C11.R3", F + "io::indexer::Indexer::<R>::index_record")
    if fi is not None:
        errs = set()
        for blk in fi.blocks:
            for st in blk["s"]:
                if st[0] == "=" and st[2][0] == "agg" and st[2][2].endswith("indexer::IndexError"):
                    errs.add(st[2][3])
        need = {"InvalidLineBases", "InvalidLineWidth", "EmptySequence"}
        if need - errs:
            ctx.violation("C11.R3", "C11.R3/missing-error/" + fi.key, "index_record no longer reports %s" % sorted(need - errs), fi.loc())
        else:
            ctx.ok("C11.R3", fi.key + " constructs InvalidLineBases / InvalidLineWidth / EmptySequence errors", "", fi.loc())
        ne = [b for b, kind, ops, t_t, f_t in R._cmp_switches(fi) if kind == "Ne"]
        if len(ne) >= 2:
            ctx.ok("C11.R3", fi.key + " :: %d != comparisons of line geometry" % len(ne), "", fi.loc())
        else:
            ctx.violation("C11.R3", "C11.R3/consistency-checks/" + fi.key, "index_record has %d line-geometry != comparisons, expected 2" % len(ne), fi.loc())
        # the only way out of the line loop to Ok(Some(..)) is the valid-last-line break
        some_exits = [b for b, k in C.exit_points(fi) if k == "ok"]
        last = R.find_calls(fi, r"io::indexer::is_last_sequence_line$")
        if not last:
            ctx.violation("C11.R3", "C11.R3/no-last-line-test/" + fi.key, "index_record no longer calls is_last_sequence_line", fi.loc())
        else:
            lb = {b for b, c in last}
            record_new = [b for b, c in R.find_calls(fi, r"fai::record::Record::new$")]
            reach = C.reachable(fi, 0, removed=lb)
            if any(b in reach for b in record_new):
                ctx.violation("C11.R3", "C11.R3/bypass/" + fi.key, "a record can be emitted without the last-line test", fi.loc())
            else:
                ctx.ok("C11.R3", fi.key + " :: Record::new only after is_last_sequence_line()", "", fi.loc())

    ctx.rule("C11.R6", "A3 reused buffer: FASTQ read_record resets the whole record (complete clear()) before filling it")
    R.reused_buffer_rule(ctx, "C11.R6", "noodles_fastq::io::reader::record::read_record", "record::Record::",
                         ["definition_mut", "sequence_mut", "quality_scores_mut"], owner_param=2)

    ctx.rule("C11.R10", "a fai::Index keeps its records in FILE order (names in any order): no order-dependent lookup (binary_search*, "
                        "partition_point, sort-assuming dedup) over it in noodles_fasta / noodles_fastq; expected 0 sites, the scanner's positive "
                        "control is the one legitimate site of the workspace (gzi::Index::query over ascending offsets)")
    n10, seen10 = 0, 0
    for k10, f10 in sorted(fb.fns.items()):
        if not f10.blocks or not k10.startswith(("noodles_", "<noodles_")):
            continue
        for b10, c10 in f10.calls():
            if not re.search(r"::(binary_search(_by|_by_key)?|partition_point)$", c10.get("f") or ""):
                continue
            seen10 += 1
            if k10.startswith(("noodles_fasta", "<noodles_fasta", "noodles_fastq", "<noodles_fastq")):
                n10 += 1
                ctx.saw_fn(f10)
                ctx.violation("C11.R10", "C11.R10/ordered-lookup-over-file-order/" + f10.root,
                              "%s looks a record up with %s: the index lists sequences in file order, so names that are not in byte order "
                              "(chr1..chr10..chrX, scaffold_1..12) are reported as missing although they are indexed" % (
                                  f10.root, (c10.get("f") or "").split("::")[-1]), f10.loc(b10))
    if not n10:
        ctx.ok("C11.R10", "no ordered lookup in noodles_fasta / noodles_fastq", "%d binary-search site(s) seen in the workspace" % seen10)
    ctx.floor("C11.R10", "binary-search sites seen by the scanner (workspace)", seen10, 1)

    ctx.rule("C11.R9", "ragged files are rejected: every iteration of the indexer's line loop compares the line's geometry with the first line's")
    ragged_line_rule(ctx, "C11.R9")

    ctx.rule("C11.R7", "A10 append-buffer discipline: FASTA/FASTQ readers and indexers reset (or deliberately accumulate into) their buffers")
    a10.discipline_rule(ctx, "C11.R7", r"^<?noodles_(fasta|fastq)::(io|r#async)", 26)

    ctx.rule("C11.R8", "A5d two-byte terminator across windows: a scanner that looks for LF in a fill_buf window and strips a CR tests for the CR "
                      "on a path that does not require the LF to be in the same window (or on the accumulated buffer)")
    n6 = 0
    for s6 in a5.crlf_window_sites(fb):
        if not re.search(r"noodles_fast[aq]::", s6["fn"]):
            continue
        n6 += 1
        f6 = fb.fns[s6["fn"]]
        ctx.saw_fn(f6)
        if s6["ok"]:
            ctx.ok("C11.R8", s6["fn"] + " :: CR handled independently of the window", "%d CR test(s), %d window-independent" % (len(s6["tests"]), len(s6["free"])), f6.loc(s6["free"][0]))
        else:
            ctx.violation("C11.R8", "C11.R8/cr-only-with-lf-in-window/" + f6.root,
                          "%s strips the CR of a CRLF only in the branch where memchr found the LF in the same fill_buf window: when a refill "
                          "boundary falls between CR and LF the CR is kept as data" % f6.root, f6.loc(s6["tests"][0]))
    ctx.floor("C11.R8", "LF scanners with CR handling", n6, 2)

    ctx.rule("C11.R5", "A5d fill_buf scanners of FASTA/FASTQ are peek-1 / scan-in-loop / delegation")
    n = 0
    for s in a5.fill_buf_sites(fb):
        if not s["fn"].startswith(("noodles_fasta::", "<noodles_fasta::", "noodles_fastq::", "<noodles_fastq::")):
            continue
        n += 1
        fn = fb.fns[s["fn"]]
        ctx.saw_fn(fn)
        if s["class"] == "window-assumption":
            ctx.violation("C11.R5", "C11.R5/window/%s/%s" % (s["fn"], "+".join(s["window"])),
                          "%s assumes a multi-byte fill_buf window (%s)" % (s["fn"], s["window"]), fn.loc(s["block"]))
        else:
            ctx.ok("C11.R5", s["fn"], s["class"], fn.loc(s["block"]))
    ctx.floor("C11.R5", "FASTA/FASTQ fill_buf sites", n, 10)


def _root(f, op, depth=0):
    """The variable (or call result) an operand was copied from, through moves/copies."""
    l = C.op_local(op)
    while l is not None and depth < 10:
        d = C.single_def(f, l)
        if d is None or d[0] != "=" or d[3][0] != "use":
            return l
        nl = C.op_local(d[3][1])
        if nl is None:
            return l
        l = nl
        depth += 1
    return l


def ragged_line_rule(ctx, rule):
    """ragged files are rejected rather than mis-indexed: in the indexer's line loop every iteration that goes on to the next line has
    compared THIS line's geometry with the first line's (an Eq/Ne comparison with one operand from each consume_sequence_line
    result). A way around the comparison (e.g. `continue` for blank lines) lets a line of another width into the regular grid the
    index describes: every base behind it is looked up at the wrong offset."""
    fb = ctx.fb
    key = "noodles_fasta::io::indexer::Indexer::<R>::index_record"
    f = ctx.anchor(rule, key)
    if f is None:
        return
    lines = [(b, c) for b, c in f.calls() if re.search(r"Indexer::<R>::consume_sequence_line$", c.get("f") or "")]
    loops = C.natural_loops(f)
    inloop = [(b, c) for b, c in lines if any(b in body for _h, body in loops)]
    first = [(b, c) for b, c in lines if not any(b in body for _h, body in loops)]
    if len(inloop) != 1 or len(first) != 1:
        ctx.violation(rule, "%s/ANCHOR-MISSING/%s/lines" % (rule, key), "expected one consume_sequence_line before and one inside the line loop "
                      "(found %d / %d)" % (len(first), len(inloop)), f.loc())
        return
    from .. import a10
    lb, lc = inloop[0]
    cur = a10._derived_from(f, lc["dest"][0])
    exp = a10._derived_from(f, first[0][1]["dest"][0]) - cur
    body = set().union(*[bd for _h, bd in loops if lb in bd])
    gates = set()
    for b, kind, ops, t_t, f_t in R._cmp_switches(f):
        if b in body and kind in ("Eq", "Ne"):
            ls = [C.op_local(o) for o in ops]
            if any(l in cur for l in ls) and any(l in exp for l in ls):
                gates.add(b)
    if not gates:
        ctx.violation(rule, "%s/no-geometry-comparison/%s" % (rule, key), "the line loop no longer compares a line's geometry with the first line's", f.loc(lb))
        return
    nxt = lc.get("t")
    cyc = nxt is not None and lb in C.reachable(f, nxt, removed=gates) and nxt not in gates
    if cyc:
        ctx.violation(rule, "%s/line-skips-geometry-check/%s" % (rule, key),
                      "index_record can go from one sequence line to the next without comparing the line's base count / width with the first "
                      "line's: a line of another length (a blank line in mid-sequence) is accepted into the regular grid and every base after it "
                      "is fetched from the wrong offset", f.loc(lb))
    else:
        ctx.ok(rule, key + " :: every iteration of the line loop passes a geometry comparison", "%d comparison switch(es) with one operand from each line" % len(gates), f.loc(lb))
