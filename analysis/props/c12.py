"""C12 — decoded content does not depend on how the stream chunks its reads (DESIGN.md §5 C12, A5 b–e)."""
from .. import a5
import re
from .. import cfg as C
from .. import rules as R

EXPLANATION = (
    "Workspace-wide transfer discipline on MIR (sync and async): (R1) every raw Read::read / poll_read / "
    "AsyncReadExt::read call site is either a delegation (the enclosing function is itself the same trait method and "
    "hands the short count to its caller) or lies in a natural loop; (R2) every such loop compares the error kind with "
    "ErrorKind::Interrupted; (R3) every BufRead::fill_buf / poll_fill_buf site is classified from the forward data flow "
    "of the returned slice as delegation, scan-in-loop, peek-1 or window-assumption (a slice API that needs k>1 bytes "
    "of one fill_buf window) — the last is a violation because a source delivering one byte per read makes the window "
    "shorter than k; (R4) the hand-written 'read N or EOF' helpers return Ok after the loop only on the "
    "`bytes_read == 0` or `buffer filled` edges, so a partial record is UnexpectedEof; (R5) line readers strip LF/CR "
    "only after read_until/read_line returned and only on the true edge of an ends_with test."
    " (R4, extended) the completeness edge may be a counter-vs-length comparison, and that counter must be accumulated, never overwritten, inside the loop; (R6) CR of a CRLF split across two fill_buf windows: the CR test of every LF scanner is window-independent or on the accumulated buffer (found the genuine defect F16, repaired); (R7) copy before consume: a scanner that appends window bytes to a destination does so on every path that consumes a non-constant amount."
    " (R8) a UTF-8 validator fed the bytes of one window inside a scanning loop must not make its error final (found the genuine defect F17 in the lazy VCF reader, repaired)."
    " R4 further requires, for the cursor idiom, that every read inside the loop targets a buffer slice derived from the cursor."
    " (R9) while a workspace AsyncRead wrapper digests the whole `buf.filled()` after the inner poll (the async CRAM CrcReader), no function that is handed the wrapper polls an accumulating read future (read_exact / read_buf / read_to_end) on it: those keep one ReadBuf across polls, so a short read would digest earlier bytes twice."
    " (R10) byte accounting across windows: a scanner that returns a byte count adds every computed amount it consumes to that count in the same iteration (the FASTQ / FASTA indexers turn these counts into file offsets)."
    " (R11) spurious Interrupted: a sync scanner that calls fill_buf in its own code compares the error kind with Interrupted and retries (genuine defect F47, repaired at eighteen sites incl. the three discard_to_end loops of the header sub-readers; Read / BufRead impls hand the error to their caller, who owns the retry).")
ASSUMPTIONS = [
    "std/tokio read_exact, read_until, read_line, BufReader reassemble short reads and retry Interrupted (library contract)",
    "the classification is structural: it proves the necessary part (no site assumes a window or a full read), not content equality",
]
NOT_DECIDED = ["that reassembled content is byte-identical for every chunking (follows when all sites are loop/delegation class)"]

READ_LOOP_FLOOR = 5
DELEGATION_FLOOR = 5
FILL_BUF_FLOOR = 55


def run(ctx):
    fb = ctx.fb
    ctx.rule("C12.R1", "A5b raw read sites are delegation or loop")
    ctx.rule("C12.R2", "A5c read loops retry on ErrorKind::Interrupted")
    sites = a5.raw_io_sites(fb, a5.RAW_READ)
    nloop = ndel = 0
    for s in sites:
        f = fb.fns[s["fn"]]
        ctx.saw_fn(f)
        ctx.count("raw_read_sites")
        if s["class"] == "delegation":
            ndel += 1
            ctx.ok("C12.R1", "%s -> %s" % (s["fn"], s["callee"].split("::")[-1]), "delegation", f.loc(s["block"]))
        elif s["class"] == "loop":
            nloop += 1
            ctx.ok("C12.R1", "%s -> %s" % (s["fn"], s["callee"].split("::")[-1]), "loop", f.loc(s["block"]))
            if s["interrupted"]:
                ctx.ok("C12.R2", s["fn"], "loop compares with ErrorKind::Interrupted", f.loc(s["block"]))
            else:
                ctx.violation("C12.R2", "C12.R2/no-interrupted-retry/%s" % s["fn"],
                              "read loop in %s does not retry on ErrorKind::Interrupted: a spurious EINTR becomes an error" % s["fn"],
                              f.loc(s["block"]))
        else:
            ctx.violation("C12.R1", "C12.R1/short-read/%s/%s" % (s["fn"], s["callee"].split("::")[-1]),
                          "%s calls raw %s once, outside a loop and not as a delegation: a short read is taken for the whole transfer" % (
                              s["fn"], s["callee"].split("::")[-1]), f.loc(s["block"]))
    ctx.floor("C12.R1", "read loops", nloop, READ_LOOP_FLOOR)
    ctx.floor("C12.R1", "read delegations", ndel, DELEGATION_FLOOR)

    ctx.rule("C12.R11", "A5c spurious Interrupted: a sync scanner that calls fill_buf itself (not a Read/BufRead impl that hands the error to its "
                        "caller) compares the error kind with Interrupted and retries, like std's read_until does")
    n11 = 0
    for s11 in a5.fill_buf_sites(fb):
        f11 = fb.fns[s11["fn"]]
        if s11["class"] == "delegation" or "r#async" in s11["fn"] or s11["callee"].endswith("poll_fill_buf") or f11.coro:
            continue
        if (a5._enclosing_trait_method(fb, f11) or "") in ("read", "fill_buf", "read_exact", "read_to_end"):
            continue        # the error is returned to a caller that owns the retry (Read / BufRead contract)
        if f11.crate == "noodles_util":
            continue        # format detection peeks once (known finding F6 covers its window assumption)
        n11 += 1
        ctx.saw_fn(f11)
        if a5._retries_interrupted(fb, f11, s11["block"]):
            ctx.ok("C12.R11", s11["fn"], "compares the error kind with Interrupted and reaches the call again", f11.loc(s11["block"]))
        else:
            ctx.violation("C12.R11", "C12.R11/interrupted-not-retried/%s" % f11.root,
                          "%s calls fill_buf()? in its own scanning code: a spurious ErrorKind::Interrupted from the source ends the read with an "
                          "error (or, for the FASTA sequence reader, a livelock) although the same bytes read fine on a retry" % f11.root, f11.loc(s11["block"]))
    ctx.floor("C12.R11", "sync scanners that call fill_buf themselves", n11, 10)

    ctx.rule("C12.R3", "A5d fill_buf windows: delegation | scan-in-loop | peek-1; window-assumption is a violation")
    fsites = a5.fill_buf_sites(fb)
    for s in fsites:
        f = fb.fns[s["fn"]]
        ctx.saw_fn(f)
        ctx.count("fill_buf_" + s["class"])
        if s["class"] == "window-assumption":
            ctx.violation("C12.R3", "C12.R3/window/%s/%s" % (s["fn"], "+".join(s["window"])),
                          "%s uses the slice returned by one fill_buf() call through %s: assumes more than one byte is "
                          "buffered; a source delivering 1 byte per read breaks it" % (s["fn"], s["window"]), f.loc(s["block"]))
        else:
            ctx.ok("C12.R3", s["fn"], s["class"], f.loc(s["block"]))
    ctx.floor("C12.R3", "fill_buf sites", len(fsites), FILL_BUF_FLOOR)

    ctx.rule("C12.R6", "A5d two-byte terminator across windows: a scanner that looks for LF in a fill_buf window and strips a CR tests for the CR "
                      "on a path that does not require the LF to be in the same window (or on the accumulated buffer)")
    n6 = 0
    for s6 in a5.crlf_window_sites(fb):
        if not re.search(r".", s6["fn"]):
            continue
        n6 += 1
        f6 = fb.fns[s6["fn"]]
        ctx.saw_fn(f6)
        if s6["ok"]:
            ctx.ok("C12.R6", s6["fn"] + " :: CR handled independently of the window", "%d CR test(s), %d window-independent" % (len(s6["tests"]), len(s6["free"])), f6.loc(s6["free"][0]))
        else:
            ctx.violation("C12.R6", "C12.R6/cr-only-with-lf-in-window/" + f6.root,
                          "%s strips the CR of a CRLF only in the branch where memchr found the LF in the same fill_buf window: when a refill "
                          "boundary falls between CR and LF the CR is kept as data" % f6.root, f6.loc(s6["tests"][0]))
    ctx.floor("C12.R6", "LF scanners with CR handling", n6, 5)

    ctx.rule("C12.R7", "A5d copy before consume: a fill_buf scanner that copies window bytes to a destination copies them on every path "
                      "that consumes a non-constant amount (a field continuing in the next window must not lose its first part)")
    n7 = 0
    for s7 in a5.copy_before_consume_sites(fb):
        if not re.search(r".", s7["fn"]):
            continue
        n7 += 1
        f7 = fb.fns[s7["fn"]]
        ctx.saw_fn(f7)
        if s7["ok"]:
            ctx.ok("C12.R7", s7["fn"] + " :: every consuming path copies the window first", "%d append site(s)" % len(s7["appends"]), f7.loc())
        else:
            ctx.violation("C12.R7", "C12.R7/consume-without-copy/" + f7.root,
                          "%s consumes window bytes on a path that does not append them to the destination although other paths do: a field that "
                          "continues in the next fill_buf window loses everything before the last refill" % f7.root, f7.loc(s7["bad"]))
    ctx.floor("C12.R7", "copying fill_buf scanners", n7, 6)

    ctx.rule("C12.R8", "A5d unit decoder per window: UTF-8 validation of the bytes of one fill_buf window inside a scanning loop must not make its "
                      "error final — a character may straddle two windows (zero or more sites; each must carry the incomplete tail over)")
    n8 = 0
    for s8 in a5.window_decoder_sites(fb):
        if not re.search(r".", s8["fn"]):
            continue
        n8 += 1
        f8 = fb.fns[s8["fn"]]
        ctx.saw_fn(f8)
        if s8["ok"]:
            ctx.ok("C12.R8", s8["fn"] + " :: incomplete trailing character is carried over", "Err edge of from_utf8(window) reaches a success exit", f8.loc(s8["block"]))
        else:
            ctx.violation("C12.R8", "C12.R8/utf8-per-window/" + f8.root,
                          "%s validates UTF-8 on the bytes of a single fill_buf window and treats the error as final: a multi-byte character "
                          "that straddles a buffer refill boundary makes a valid line fail, depending only on how the stream chunks its reads" % f8.root,
                          f8.loc(s8["block"]))
    ctx.count("utf8_per_window_sites", n8)

    ctx.rule("C12.R4", "A5e read-N-or-EOF helpers: Ok after the loop only when nothing or everything was read")
    for key in ("noodles_bam::io::reader::record::read_exact_or_eof",
                "noodles_bam::r#async::io::reader::record::read_exact_or_eof",
                "noodles_bcf::io::reader::record::read_exact_or_eof",
                "noodles_bcf::r#async::io::reader::record::read_exact_or_eof"):
        f = ctx.body("C12.R4", key)
        if f is not None:
            eof_or_partial(ctx, "C12.R4", f, allow_zero=True)
    f = ctx.body("C12.R4", "noodles_bgzf::io::reader::default_read_exact")
    if f is not None:
        eof_or_partial(ctx, "C12.R4", f, allow_zero=False)

    ctx.rule("C12.R9", "digesting AsyncRead wrapper (async CRAM CrcReader digests the whole filled part): no accumulating read future "
                       "(read_exact / read_buf / read_to_end) is polled on it")
    digesting_wrapper_rule(ctx, "C12.R9", 1)

    ctx.rule("C12.R10", "A5d byte accounting across windows: a scanner that returns a byte count adds every amount it consumes to that count "
                        "(the FASTQ / FASTA indexers turn these counts into file offsets)")
    a5.consume_accounting_rule(ctx, "C12.R10", 18)

    ctx.rule("C12.R12", "A9 the header sub-readers (the line-prefix state machines of vcf, bcf, bam, cram; sync and async) keep the same state "
                        "across fill_buf windows: every copy performs the same is_eol / prefix updates per trait method — a copy that forgets "
                        "to clear is_eol when a window holds no line feed tests the first byte of a line's continuation against the prefix "
                        "(the rule of C09.R8, decided here for the chunk-independence clause)")
    from .. import a9 as _a9
    _a9.header_reader_agreement(ctx, "C12.R12", r"noodles_(vcf|bcf|bam|cram|sam)::", 12)

    ctx.rule("C12.R5", "line readers: LF/CR popped only after read_until/read_line and on the ends_with edge")
    n = 0
    for k, f in sorted(fb.fns.items()):
        if not a5.in_scope(f):
            continue
        ru = R.find_calls(f, r"(BufRead::read_until|BufRead::read_line|AsyncBufReadExt::read_until|AsyncBufReadExt::read_line)$")
        # only LF-delimited line readers (read_until with another delimiter is a field reader, not a line reader)
        ru = [(b, c) for b, c in ru if c["f"].endswith("read_line") or C.eval_const(f, c["args"][1]) == 10]
        pops = R.find_calls(f, r"(Vec::<T, A>::pop|string::String::pop)$")
        if not ru or not pops:
            continue
        n += 1
        ctx.saw_fn(f)
        ews = R.switch_on_call(f, r"::ends_with$")
        ok = True
        for pb, pc in pops:
            if not any(C.dominates(f, rb, pb) for rb, _ in ru):
                ok = False
                ctx.violation("C12.R5", "C12.R5/pop-before-read/%s" % k, "%s pops a byte that was not produced by the line read" % k, f.loc(pb))
                continue
            guarded = False
            for sb, tt, ft, _c in ews:
                if tt != ft and pb not in C.reachable(f, 0, removed_edges={(sb, tt)}):
                    guarded = True
            if not guarded:
                ok = False
                ctx.violation("C12.R5", "C12.R5/unguarded-pop/%s" % k,
                              "%s pops the last byte without an ends_with() test: a final line without newline loses data" % k, f.loc(pb))
        if ok:
            ctx.ok("C12.R5", k, "%d pop(s) guarded by ends_with and dominated by the line read" % len(pops), f.loc())
    ctx.floor("C12.R5", "line readers", n, 17)


def eof_or_partial(ctx, rule, f, allow_zero):
    """After the read loop, Ok is returned only on the edges `bytes_read > 0`==false / `buf.is_empty()`==true."""
    loops = C.natural_loops(f)
    reads = R.find_calls(f, a5.RAW_READ.pattern)
    if not reads or not loops:
        ctx.violation(rule, "%s/no-read-loop/%s" % (rule, f.key), "%s no longer contains a read loop" % f.key, f.loc())
        return
    body = set()
    for h, b in loops:
        if any(rb in b for rb, _ in reads):
            body |= b
    # is_empty() switches outside the loop
    allowed = set()
    for sb, tt, ft, _c in R.switch_on_call(f, r"::is_empty$"):
        if sb not in body:
            allowed.add((sb, tt))
    if allow_zero:
        for b, kind, ops, t_t, f_t in R._cmp_switches(f):
            if b in body:
                continue
            if kind == "Gt" and (C.op_const(ops[1]) or {}).get("v") == 0:
                allowed.add((b, f_t))
            if kind == "Eq" and (C.op_const(ops[1]) or {}).get("v") == 0:
                allowed.add((b, t_t))
    # `bytes_read < buf.len()` style completeness tests (cursor idiom): the edge on which counter >= len
    def is_len(op):
        if R.derives_from_call(f, op, R.mk_pred(r"slice::<impl \[T\]>::len$|Vec::<T, A>::len$")):
            return True
        l = C.op_local(op)
        d = C.single_def(f, l) if l is not None else None
        return d is not None and d[0] == "=" and (d[3][0] == "len" or (d[3][0] == "un" and d[3][1] == "PtrMetadata"))
    for b, kind, ops, t_t, f_t in R._cmp_switches(f):
        if b in body or len(ops) < 2:
            continue
        l0, l1 = is_len(ops[0]), is_len(ops[1])
        if l0 == l1:
            continue
        if l1:      # counter ⋈ len
            edge = {"Lt": f_t, "Ge": t_t, "Eq": t_t, "Ne": f_t}.get(kind)
        else:       # len ⋈ counter
            edge = {"Gt": f_t, "Le": t_t, "Eq": t_t, "Ne": f_t}.get(kind)
        if edge is not None:
            allowed.add((b, edge))
            # the counter compared with the length is the read cursor: inside the loop it must be accumulated (c = c + n), never
            # overwritten (c = n), or a transfer that arrives in two pieces is measured by its last piece only
            cl = _root_var(f, ops[0] if l1 else ops[1])
            if cl is not None:
                # ... and every read inside the loop targets the buffer FROM that cursor (`&mut buf[c..]`): reading into the
                # start of the buffer again overwrites the piece that already arrived
                for rb, rc in reads:
                    if rb in body and not any(R.derives_from_local(f, a, cl, through_calls=True) for a in rc["args"][1:]):
                        ctx.violation(rule, "%s/read-not-at-cursor/%s" % (rule, f.key),
                                      "%s counts its progress in a cursor but reads into a buffer slice that does not start at it: a transfer "
                                      "that arrives in two pieces overwrites its first piece" % f.key, f.loc(rb))
                for df in C.defs(f).get(cl, []):
                    if df[0] != "=" or df[1] not in body:
                        continue
                    rv = df[3]
                    src = rv
                    if rv[0] == "use" and rv[1][0] in ("c", "m") and len(rv[1][1][1]) == 1:
                        d2 = C.single_def(f, rv[1][1][0])        # `t = AddWithOverflow(c, n); c = move t.0`
                        src = d2[3] if d2 is not None and d2[0] == "=" else rv
                    acc = src[0] == "bin" and src[1].startswith("Add") and any(_root_var(f, o) == cl for o in (src[2], src[3]))
                    if not acc:
                        ctx.violation(rule, "%s/cursor-overwritten/%s" % (rule, f.key),
                                      "%s overwrites its read cursor inside the read loop instead of advancing it: after a short read the "
                                      "next read starts at the wrong offset and the completeness test measures only the last piece" % f.key,
                                      f.loc(df[1]))
    ex = [e for e in C.success_exit_blocks(f)]
    if not allowed:
        ctx.violation(rule, "%s/no-guard/%s" % (rule, f.key), "%s: no post-loop completeness test found" % f.key, f.loc())
        return
    reach = C.reachable(f, 0, removed_edges=allowed)
    bad = [e for e in ex if e in reach]
    if bad:
        ctx.violation(rule, "%s/partial-as-ok/%s" % (rule, f.key),
                      "%s can return Ok after a partial transfer (success exit reachable without the completeness edges)" % f.key,
                      f.loc(bad[0]))
    else:
        # the error that is produced must be UnexpectedEof
        ue = any(st[0] == "=" and st[2][0] == "agg" and st[2][2].endswith("io::error::ErrorKind") and st[2][3] == "UnexpectedEof"
                 for blk in f.blocks for st in blk["s"])
        if ue:
            ctx.ok(rule, f.key, "Ok only via %d completeness edge(s); partial transfer is UnexpectedEof" % len(allowed), f.loc())
        else:
            ctx.violation(rule, "%s/no-unexpected-eof/%s" % (rule, f.key), "%s no longer reports UnexpectedEof" % f.key, f.loc())


def _root_var(f, op, depth=0):
    """The user variable (multi-assignment local) an operand is a copy of."""
    l = C.op_local(op)
    while l is not None and depth < 8:
        depth += 1
        ds = [x for x in C.defs(f).get(l, []) if x[0] in ("=", "call")]
        if len(ds) != 1 or ds[0][0] != "=":
            return l
        rv = ds[0][3]
        if rv[0] == "use" and rv[1][0] in ("c", "m") and not rv[1][1][1]:
            l = rv[1][1][0]
            continue
        return l
    return l


# ------------------------------------------------------------------------------------------------ digesting AsyncRead wrappers
ACCUM_READ_RX = re.compile(r"AsyncReadExt::(read_exact|read_buf|read_to_end|read_to_string)$|AsyncBufReadExt::(read_until|read_line)$")


def digesting_wrapper_rule(ctx, rule, floor):
    """An AsyncRead wrapper whose poll_read post-processes `buf.filled()` as a whole (the async CRAM CrcReader feeds it to the CRC)
    is only right when every poll arrives with a fresh ReadBuf. tokio's single-value futures (read_u8, read_i32_le ..) create one
    per poll; read_exact / read_buf / read_to_end keep ONE ReadBuf across polls, so after a short read the bytes of the earlier
    polls are digested again. Rule: while the wrapper digests the whole filled part, no function that is handed the wrapper may call
    an accumulating read on it (followed through the workspace callees that receive the reader)."""
    from .. import a10
    fb = ctx.fb
    wrappers = []
    for k, f in sorted(fb.fns.items()):
        if not f.blocks or (f.trait_item or "").split("::")[-1] != "poll_read" or not k.startswith("<noodles_"):
            continue
        calls = list(f.calls())
        filled = [b for b, c in calls if re.search(r"ReadBuf::<'.>::filled$|ReadBuf::filled$|ReadBuf<'_>::filled$", c.get("f") or "") or
                  ((c.get("f") or "").endswith("::filled") and "ReadBuf" in (c.get("f") or ""))]
        inner = [b for b, c in calls if (c.get("f") or "").endswith("::poll_read")]
        if not filled or not inner:
            continue
        ctx.saw_fn(f)
        before = [b for b in filled if any(i in C.reachable(f, b) for i in inner) and not any(b in C.reachable(f, i) for i in inner)]
        slices = [b for b, c in calls if re.search(r"ops::index::Index(Mut)?<.*>>::index(_mut)?$|::split_at|::get$", c.get("f") or "")]
        whole = not before and not slices
        wrappers.append((f, whole))
    ctx.floor(rule, "AsyncRead wrappers that post-process the filled part of the ReadBuf", len(wrappers), floor)
    for w, whole in wrappers:
        ty = (w.impl_self or "").split("<")[0].split("::")[-1]
        if not whole:
            ctx.ok(rule, w.key, "takes the filled length before the inner poll (or slices): digests only the new bytes; callers may use any read", w.loc())
            continue
        # functions that receive the wrapper
        work = []
        for k, f in sorted(fb.fns.items()):
            if not f.blocks:
                continue
            lf = a10.logical(fb, f)
            for i in range(1, lf.argc + 1):
                if re.search(r"\b%s<" % re.escape(ty), lf.locals[i] if not f.coro else lf.locals[i]):
                    work.append((f, i))
        seen = set()
        bad = []
        nfn = 0
        coro_of = {}
        for h in fb.fns.values():
            if h.coro and h.parent and h.blocks:
                coro_of.setdefault(h.parent, []).append(h)
        while work:
            f, pi = work.pop()
            if (f.key, pi) in seen or len(seen) > 400:
                continue
            seen.add((f.key, pi))
            nfn += 1
            ctx.saw_fn(f)
            bd = a10.Body(fb, f)
            for bi, c in f.calls():
                fk = c.get("f") or ""
                hit = [j for j, a in enumerate(c["args"]) if (lambda pt: pt is not None and pt[0] == ("p", pi))(bd.pointee(a))]
                if not hit:
                    continue
                if ACCUM_READ_RX.search(fk) and 0 in hit:
                    bad.append((f, bi, fk))
                    continue
                g = fb.fns.get(fk)
                if g is None:
                    continue
                bodies = [g] if g.blocks else []
                coro = coro_of.get(g.key, [])
                for h in (coro or bodies):
                    for j in hit:
                        work.append((h, j + 1))
        if bad:
            for f, bi, fk in bad:
                ctx.violation(rule, "%s/accumulating-read-through-digesting-wrapper/%s/%s" % (rule, a10.logical(fb, f).key, fk.split("::")[-1]),
                              "%s calls %s on a reader that can be %s, whose poll_read digests the WHOLE filled part of the ReadBuf: %s keeps one "
                              "ReadBuf across polls, so after a short read the earlier bytes are digested twice and the checksum depends on how "
                              "the source chunks its reads" % (a10.logical(fb, f).key, fk.split("::")[-1], ty, fk.split("::")[-1]), f.loc(bi))
        else:
            ctx.ok(rule, w.key, "digests buf.filled() as a whole; none of the %d function bodies that are handed a %s performs an accumulating "
                                "read (read_exact / read_buf / read_to_end ..) on it" % (nfn, ty), w.loc())
