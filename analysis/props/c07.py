"""C07 — CRAM round trip and container conformance: conformance clauses (DESIGN.md §5 C07)."""
import re

from .. import a10
from .. import a7
from .. import cfg as C
from .. import rules as R

EXPLANATION = (
    "Decides the container-conformance clauses structurally: (R1) the EOF container bytes (evaluated static) equal CRAMv3 §9 "
    "and decode — by fixed offsets — to exactly the constants the reader's is_eof compares (length 15, ref id -1, alignment "
    "start 4542278, 1 block, CRC32 0x4fd9bd05); try_finish / async shutdown pass flush and write_eof_container (shared with "
    "C14.R3); (R2) integrity: read_block's and both container-header readers' success exits (sync and async) are reachable "
    "only through the equal edge of a comparison on the computed CRC32, slice decoding reaches validate_sequence (MD5) when a "
    "reference MD5 is present, and on the writer side the CRC that is written is the CrcWriter's own sum; (R3) dec∘enc = id "
    "exhaustively for compression-method, content-type, encoding-kind, feature-code, substitution-base and name-tokenizer "
    "type tables (match-arm tables of type-checked HIR, all decoders of the same coding family incl. the async ones); "
    "(R4) the 28 data series and the guards under which they are touched (is_detached, is_unmapped, "
    "quality_scores_are_stored_as_array, alignment_starts_are_deltas, records_have_names) are used by functions of the same "
    "stem in the slice reader and the slice writer; (R5) record counter advanced only by flush with records.len()."
    " (R6) append-buffer discipline for the CRAM header text reader and the name tokenizer's token reader."
    " R5 also decides, for the sync and the async flush, that the len() feeding `record_counter +=` is taken from the very collection (normalised place identity) that was handed to write_container."
    " (R7) the reader recomputes TLEN of in-slice mates from min(start) and max(END) of both segments: both alignment_end() results feed one max()."
    " (R9) written-iff-present for the quality score array: every use of the QUALITY_SCORES_ARE_STORED_AS_ARRAY constant in the record converter lies behind a switch on quality_scores().is_empty() (violated today: known finding F31, `QUAL *` records written by noodles do not read back)."
    " (R10) declared raw sizes: the uncompressed_size a writer Block is built with derives from a len() that is not downstream of a codec encode call (genuine defect F35, repaired: the fqzcomp arm declared the compressed length)."
    " (R11) sentinel vs terminator: the marker written for an unnamed record is free of the terminator of the NUL-terminated name series and is the marker the reader maps back to None (genuine defect F38, repaired). (R12) the predicate that raises the file version to 3.1 names every CRAM 3.1 codec and is asked about every encoder slot of the map (genuine defect F39, repaired)."
    " (R13) the TLEN sign belongs to the leftmost segment: resolve_mates compares alignment starts before it assigns +TLEN / -TLEN (genuine defect F40, repaired)."
    " (R14) declared lengths: itf8_size_of agrees with the number of bytes write_itf8 emits on every one of the 33 bit-length classes of an i32 (A11 bit-class interpreter over the MIR of both; classes using an unmodelled construct are not decided). (R15) memo coherence: a loop-carried memo in noodles_cram updates its key only where the value was refreshed or found equal (0 memos today; round-7 seed). (R16) the substitution-matrix row is sorted as a whole. (R17) TLEN of attached mates is 0 behind a comparison of the segments\u2019 reference ids (genuine defect F65, repaired).")
ASSUMPTIONS = ["flate2 Crc/CrcReader/CrcWriter compute CRC32 of exactly the bytes passed through", "md5 crate",
               "function-stem pairing (read_x <-> write_x) reflects the symmetric structure of the two record codecs (floor-checked)"]
NOT_DECIDED = ["record equality: feature/CIGAR/base reconstruction, mate resolution, every encoder option x codec",
               "landmark / block-count / base-count values (only that they are computed in build_container from the serialised collections)",
               "codec correctness (C08, not applicable)"]

K = "noodles_cram::"
EOF_SPEC = bytes.fromhex("0f000000ffffffff0fe0454f4600000000010005bdd94f0001000606010001000100ee63014b")


def run(ctx):
    fb = ctx.fb
    # ---------------------------------------------------------------- R1 EOF container
    ctx.rule("C07.R1", "A8 EOF container bytes vs CRAMv3 §9 and vs the reader's is_eof constants; A3 finalisation")
    H = K + "io::reader::container::header::"
    R.const_rule(ctx, "C07.R1", "EOF container == spec and == reader's is_eof constants",
                 {"eof": K + "io::writer::container::EOF", "len": H + "EOF_LENGTH", "ref": H + "EOF_REFERENCE_SEQUENCE_ID",
                  "start": H + "EOF_ALIGNMENT_START", "blocks": H + "EOF_BLOCK_COUNT", "crc": H + "EOF_CRC32"},
                 lambda v: (v["eof"] == EOF_SPEC and int.from_bytes(v["eof"][0:4], "little") == v["len"] and v["ref"] == -1 and
                            v["eof"][4:9] == b"\xff\xff\xff\xff\x0f" and v["start"] == 0x454f46 and v["eof"][9:13] == b"\xe0\x45\x4f\x46" and
                            v["blocks"] == 1 and v["eof"][17] == 1 and int.from_bytes(v["eof"][19:23], "little") == v["crc"] == 0x4fd9bd05,
                            "38 spec bytes; length=15 ref=-1 start=4542278 ('EOF') blocks=1 crc=0x4fd9bd05 at their offsets"),
                 "CRAMv3 §9 End of file container", "a writer/reader disagreement makes every noodles-written file end in 'unexpected EOF'")
    R.must_pass(ctx, "C07.R1", K + "io::writer::Writer::<W>::try_finish", r"cram::io::writer::Writer::<W>::flush$", "try_finish() flushes pending records")
    R.must_pass(ctx, "C07.R1", K + "io::writer::Writer::<W>::try_finish", r"cram::io::writer::container::write_eof_container$", "try_finish() writes the EOF container")
    R.must_pass(ctx, "C07.R1", K + "r#async::io::writer::Writer::<W>::shutdown", r"r#async::io::writer::container::write_eof_container$", "async shutdown() writes the EOF container")
    for key in (K + "io::writer::container::write_eof_container", K + "r#async::io::writer::container::write_eof_container"):
        R.must_pass(ctx, "C07.R1", key, None, "write_eof_container writes the EOF static",
                    callpred=_writes_static(K + "io::writer::container::EOF"))
    f = ctx.anchor("C07.R1", H + "is_eof")
    if f is not None:
        from .c01 import _bool_conjunction
        _bool_conjunction(ctx, "C07.R1", f, [H + "EOF_LENGTH", H + "EOF_REFERENCE_SEQUENCE_ID", H + "EOF_ALIGNMENT_START", H + "EOF_BLOCK_COUNT", H + "EOF_CRC32"])

    # ---------------------------------------------------------------- R2 integrity
    ctx.rule("C07.R2", "A4 integrity guards: CRC32 of blocks and container headers, MD5 of the slice reference; writer emits the CrcWriter's sum")
    R.integrity_guard(ctx, "C07.R2", K + "io::reader::container::block::read_block", r"cram::io::reader::container::block::crc32$",
                      "block CRC32 == stored CRC32")
    for key in (K + "io::reader::container::header::read_header_inner", K + "io::reader::header::container::header::read_header_inner",
                K + "r#async::io::reader::container::header::read_header_inner", K + "r#async::io::reader::header::container::header::read_header_inner"):
        R.integrity_guard(ctx, "C07.R2", key, r"flate2::crc::Crc::sum$", "container header CRC32 == stored CRC32")
    fv = ctx.anchor("C07.R2", K + "io::reader::container::slice::validate_sequence")
    if fv is not None:
        R.integrity_guard(ctx, "C07.R2", fv.key, r"cram::calculate_normalized_sequence_digest$", "reference slice MD5 == slice header MD5", fn=fv)
    fg = ctx.anchor("C07.R2", K + "io::reader::container::slice::get_slice_reference_sequence")
    if fg is not None:
        if R.find_calls(fg, r"slice::validate_sequence$") and R.find_calls(fg, r"slice::header::Header::reference_md5$"):
            ctx.ok("C07.R2", fg.key + " validates the reference slice when the header carries an MD5", "", fg.loc())
        else:
            ctx.violation("C07.R2", "C07.R2/no-md5-check/" + fg.key, "slice decoding no longer validates the reference MD5", fg.loc())
    for key in (K + "io::writer::container::block::write_block_inner", K + "io::writer::container::header::write_header_inner"):
        f = ctx.anchor("C07.R2", key)
        if f is None:
            continue
        w = [c for b, c in R.find_calls(f, r"write_u32_le$")]
        ok = any(R.derives_from_call(f, c["args"][-1], R.mk_pred(r"flate2::crc::Crc::sum$")) for c in w)
        if ok:
            ctx.ok("C07.R2", key + " writes CrcWriter::crc().sum() as the trailing CRC32", "", f.loc())
        else:
            ctx.violation("C07.R2", "C07.R2/writer-crc/" + key, "%s no longer writes the CrcWriter's own checksum" % key, f.loc())

    # ---------------------------------------------------------------- R3 tables
    ctx.rule("C07.R3", "A7 dec∘enc = id exhaustively for the CRAM code tables; Block decode/encode exhaustive over CompressionMethod")
    a7.table_agreement(ctx, "C07.R3", {"noodles_cram"}, 8, exceptions={
        K + "io::writer::record::feature::Feature::code": "writer-side feature enum: encoder only"})
    fe = ctx.anchor("C07.R3", K + "io::writer::container::block::Block::encode")
    if fe is not None:
        ms = [m for m in fb.matches.get(fe.key, []) if "Encoder" in m["sty"]]
        pairs = []
        for m in ms:
            for a in m["arms"]:
                e = re.search(r"Encoder::(\w+)", a["p"])
                cm = re.search(r"CompressionMethod::(\w+)", a["v"])
                if e and cm:
                    pairs.append((e.group(1), cm.group(1)))
        bad = [p for p in pairs if p[0] != p[1]]
        if len(pairs) < 7:
            ctx.violation("C07.R3", "C07.R3/ANCHOR-MISSING/%s/encoder-table" % fe.key, "Block::encode's Encoder -> CompressionMethod table not found (%d arms)" % len(pairs), fe.loc())
        elif bad:
            ctx.violation("C07.R3", "C07.R3/encoder-method-mismatch/%s" % fe.key,
                          "Block::encode labels data compressed by Encoder::%s as CompressionMethod::%s: the reader will inflate it with the wrong codec" % bad[0], fe.loc())
        else:
            ctx.ok("C07.R3", "Block::encode: Encoder::X is labelled CompressionMethod::X for all %d encoders" % len(pairs), "", fe.loc())
    for key in (K + "io::reader::container::block::Block::<'c>::decode",):
        f = ctx.anchor("C07.R3", key)
        if f is None:
            continue
        ms = [m for g in fb.family(key) for m in fb.matches.get(g.key, []) if m["sty"].endswith("compression_method::CompressionMethod")]
        if not ms:
            ctx.violation("C07.R3", "C07.R3/ANCHOR-MISSING/%s/match" % key, "%s no longer matches on CompressionMethod" % key, f.loc())
            continue
        adt = fb.adts.get(K + "container::block::compression_method::CompressionMethod")
        nvar = len(adt["variants"]) if adt else 0
        for m in ms:
            pats = [a["p"] for a in m["arms"]]
            wild = [p for p in pats if p == "_" or p.startswith("$")]
            named = {x.split("::")[-1].split("(")[0] for p in pats for x in p.split(" | ") if "CompressionMethod::" in x}
            if wild and len(named) < nvar:
                # a wildcard that ends in an error is fine (unsupported codec -> Err)
                w = [a["v"] for a in m["arms"] if a["p"] in wild]
                if all("Err" in x or "unimplemented" in x or "…" in x for x in w):
                    ctx.ok("C07.R3", "%s: %d of %d methods named, wildcard is an error arm" % (key, len(named), nvar), "", f.loc())
                else:
                    ctx.violation("C07.R3", "C07.R3/wildcard/" + key, "%s handles CompressionMethod with a value-producing wildcard arm" % key, f.loc())
            else:
                ctx.ok("C07.R3", "%s: all %d compression methods named" % (key, len(named)), "", f.loc())

    # ---------------------------------------------------------------- R4 data series agreement
    ctx.rule("C07.R4", "A7 data series and their guards are used by functions of the same stem in slice reader and slice writer")
    RD, WR = K + "io::reader::container::slice::records", K + "io::writer::container::slice::records"
    rs, ws = _users(fb, RD, r"data_series_encodings::DataSeriesEncodings::(\w+)$"), _users(fb, WR, r"data_series_encodings::DataSeriesEncodings::(\w+)$")
    ctx.floor("C07.R4", "data series used by the slice reader", len(rs), 28)
    STEM_EXC = {"soft_clip": "soft_clip_bases"}
    for sname in sorted(set(rs) | set(ws)):
        a = {_stem(x, STEM_EXC) for x in rs.get(sname, ())}
        b = {_stem(x, STEM_EXC) for x in ws.get(sname, ())}
        if not a or not b:
            ctx.violation("C07.R4", "C07.R4/series-one-sided/" + sname,
                          "data series %s is %s: the other side never touches it, so the series desynchronises" % (
                              sname, "only read" if a else "only written"))
        elif a != b:
            ctx.violation("C07.R4", "C07.R4/series-stems/" + sname,
                          "data series %s is read by %s but written by %s" % (sname, sorted(a), sorted(b)))
        else:
            ctx.ok("C07.R4", "series " + sname, "read_/write_ %s" % sorted(a))
    GUARD_RX = r"::(Flags::is_detached|Flags::is_unmapped|Flags::quality_scores_are_stored_as_array|Flags::has_mate_downstream|" \
               r"PreservationMap::alignment_starts_are_deltas|PreservationMap::records_have_names)$"
    rg, wg = _users(fb, RD, GUARD_RX), _users(fb, WR, GUARD_RX)
    ctx.floor("C07.R4", "guard predicates used by the slice reader", len(rg), 5)
    for g in sorted(set(rg) | set(wg)):
        a = {_stem(x, STEM_EXC) for x in rg.get(g, ())}
        b = {_stem(x, STEM_EXC) for x in wg.get(g, ())}
        if a != b:
            ctx.violation("C07.R4", "C07.R4/guard-stems/" + g,
                          "guard %s protects %s on the reader side but %s on the writer side: a series would be read under a "
                          "different condition than it is written" % (g, sorted(a), sorted(b)))
        else:
            ctx.ok("C07.R4", "guard " + g, "used by read_/write_ %s" % sorted(a))

    # guard signatures: the set of (guard predicate, polarity) switch edges that dominate each read_x / write_x call
    ctx.rule("C07.R4b", "A7 guard signatures: every series accessor is called under the same dominating guard edges in reader and writer")
    SIG_EXC = {
        ("mate", "mate_distance"): "the reader tests the stored mate_is_downstream flag, the writer tests `record.mate_distance.is_some()` (set together by set_mates)",
        ("feature", "soft_clip"): "named soft_clip_bases on the reader side", ("feature", "soft_clip_bases"): "named soft_clip on the writer side",
    }
    rsig, wsig = _guard_sigs(fb, RD, "read"), _guard_sigs(fb, WR, "write")
    ncmp = 0
    for k in sorted(set(rsig) | set(wsig)):
        a, b = rsig.get(k), wsig.get(k)
        if k in SIG_EXC or k[0] == "value":
            continue
        if a is None or b is None:
            ctx.violation("C07.R4b", "C07.R4b/one-sided/%s.%s" % k,
                          "%s_%s is called from %s_%s on one side only (%s)" % ("read/write", k[1], "read/write", k[0], "reader" if b is None else "writer"))
            continue
        ncmp += 1
        if a != b:
            ctx.violation("C07.R4b", "C07.R4b/guard-signature/%s.%s" % k,
                          "%s is read under %s but written under %s: the two sides desynchronise on records where the guards differ" % (
                              k[1], sorted(a), sorted(b)))
        else:
            ctx.ok("C07.R4b", "%s in %s" % (k[1], k[0]), "guards %s on both sides" % (sorted(a) or "none"))
    ctx.floor("C07.R4b", "accessor call sites compared", ncmp, 35)

    # delta coding is applied symmetrically: whenever the `alignment_starts_are_deltas` flag can be true, the writer
    # subtracts the previous start on EVERY path to the encode call and the reader adds it on every path from decode
    ctx.rule("C07.R4c", "A7 identity-or-inverse: AP delta coding — writer subtracts prev on every flag-true path, reader adds it")
    for key, opk, sink, what in (
            (WR + "::Writer::<'a>::write_alignment_start", ("Sub", "SubWithOverflow"), r"codec::Encode<'_>>::encode$|::encode$", "writer"),
            (RD + "::Records::<'c, 'ch>::read_alignment_start", ("Add", "AddWithOverflow"), None, "reader")):
        f = ctx.anchor("C07.R4c", key)
        if f is None:
            continue
        sws = R.switch_on_call(f, r"PreservationMap::alignment_starts_are_deltas$")
        if not sws:
            # the flag is stored in a local first: find switches on a bool local that derives from the call
            sws = [(b, tt, ft, None) for b, tt, ft, cb in R.switch_on_try_call(f, r"PreservationMap::alignment_starts_are_deltas$")]
        opblocks = {bi for bi, blk in enumerate(f.blocks) if not blk.get("cu") and
                    any(st[0] == "=" and st[2][0] == "bin" and st[2][1] in opk for st in blk["s"])}
        if not sws or not opblocks:
            ctx.violation("C07.R4c", "C07.R4c/shape/" + key, "%s: deltas flag test or the %s operation not found" % (key, opk[0]), f.loc())
            continue
        false_edges = {(sb, ft) for sb, tt, ft, _c in sws}
        if what == "writer":
            goals = [b for b, c in R.find_calls(f, sink)]
        else:
            goals = C.success_exit_blocks(f)
        reach = C.reachable(f, 0, removed=opblocks, removed_edges=false_edges)
        bad = [g for g in goals if g in reach]
        if not goals:
            ctx.violation("C07.R4c", "C07.R4c/ANCHOR-MISSING/%s/sink" % key, "encode/return site not found in %s" % key, f.loc())
        elif bad:
            ctx.violation("C07.R4c", "C07.R4c/asymmetric-delta/" + key,
                          "the %s can reach its %s with the deltas flag set but without %s the previous alignment start: the other side "
                          "applies the inverse unconditionally, so the two desynchronise (e.g. for records without a start)" % (
                              what, "encode call" if what == "writer" else "result", "subtracting" if what == "writer" else "adding"), f.loc(bad[0]))
        else:
            ctx.ok("C07.R4c", key, "every flag-true path passes the %s with the previous start" % opk[0], f.loc())

    # ---------------------------------------------------------------- R5 bookkeeping
    ctx.rule("C07.R6", "A10 append-buffer discipline: CRAM header text and name-tokenizer token readers reset their buffers before appending")
    a10.discipline_rule(ctx, "C07.R6", r"^<?noodles_cram::(io|r#async|codecs)", 3)

    ctx.rule("C07.R5", "A2 record counter advanced only in flush() by the number of records just written")
    R.writer_set_rule(ctx, "C07.R5", K + "io::writer::Writer", "record_counter", {
        K + "io::writer::Writer::<W>::flush": "+= records.len()",
        K + "io::writer::builder::Builder::build_from_writer": "constructor (0)",
    }, "record counter written only by flush()")

    counter_collection_rule(ctx, "C07.R5", (K + "io::writer::Writer::<W>::flush", K + "r#async::io::writer::Writer::<W>::flush"), 2)

    ctx.rule("C07.R9", "written-iff-present: the quality-score-array flag is set only depending on the record having quality scores "
                       "(the reader takes read_length bytes from the QS series whenever the flag is set)")
    _qs_flag_rule(ctx)

    ctx.rule("C07.R10", "declared raw sizes: a writer Block's uncompressed_size derives from the length of the codec's input, never of its output")
    _raw_size_rule(ctx)

    ctx.rule("C07.R11", "A7/A8 sentinel vs terminator: the marker written for an unnamed record is free of the name series' terminator and is the "
                        "marker the reader maps back to None")
    _name_marker_rule(ctx)

    ctx.rule("C07.R12", "A7 exhaustiveness: the version-3.1 predicate names every CRAM 3.1 codec and is asked about every encoder slot of the map")
    _version_rule(ctx)

    ctx.rule("C07.R13", "TLEN sign belongs to the leftmost segment: resolve_mates compares alignment starts before it assigns +TLEN / -TLEN")
    _tlen_sign_rule(ctx)

    ctx.rule("C07.R14", "A11 bit-length classes: itf8_size_of (declared) == bytes emitted by write_itf8, class by class")
    _itf8_size_rule(ctx)

    ctx.rule("C07.R15", "A10 memo coherence: a loop-carried memo in the CRAM reader / writer (`if cur != prev { value = lookup(cur) } .. prev = cur`) "
                        "updates its key only on paths of the iteration that refreshed the value or took the equal edge; expected count today 0 "
                        "(the slice reader looks the reference sequence up for every record), the round-7 seed is the positive example")
    n15 = a10.memo_coherence_rule(ctx, "C07.R15", r"^<?noodles_cram::")
    if not n15:
        ctx.ok("C07.R15", "no loop-carried memo in noodles_cram", "0 (key, value, comparison) triples found")

    ctx.rule("C07.R16", "the serialised substitution-matrix row is the FULL order of the row's four substitutions: in "
                        "substitution_matrix::encode every sort runs over the whole row, never over a sub-slice (`[..3]`): a partial sort "
                        "leaves the row the reader decodes different from the row the writer codes substitutions with whenever the last "
                        "column does not already sort last (X>N more frequent than some X>Y)")
    f16 = ctx.anchor("C07.R16", "noodles_cram::io::writer::container::compression_header::preservation_map::substitution_matrix::encode")
    if f16 is not None:
        ctx.saw_fn(f16)
        sorts = [(b, c) for b, c in f16.calls() if re.search(r"::sort(_unstable)?(_by|_by_key|_by_cached_key)?$", c.get("f") or "")]
        if not sorts:
            ctx.violation("C07.R16", "C07.R16/ANCHOR-MISSING/encode/sort", "substitution_matrix::encode no longer sorts the row", f16.loc())
        for b16, c16 in sorts:
            sub = R.derives_from_call(f16, c16["args"][0], R.mk_pred(r"ops::index::Index(Mut)?<.*::index(_mut)?$|slice::<impl \[T\]>::(split_at(_mut)?|get(_mut)?|first_chunk|split_first|split_last)"))
            if sub:
                ctx.violation("C07.R16", "C07.R16/partial-row-sort/" + f16.key,
                              "substitution_matrix::encode sorts a sub-slice of the row: the serialised order of the four substitutions is "
                              "no longer the order the writer codes with, and reads with such a substitution decode to the wrong base", f16.loc(b16))
            else:
                ctx.ok("C07.R16", f16.key, "the row is sorted as a whole", f16.loc(b16))

    ctx.rule("C07.R17", "TLEN of mates stored attached is recomputed only for segments on the SAME reference sequence: resolve_mates compares the "
                        "reference_sequence_id fields of the segments and stores 0 on the differs edge (SAM: TLEN is 0 for segments mapped to "
                        "different references; genuine defect F65, repaired: 0/0 read back as 21/-21)")
    f17 = ctx.anchor("C07.R17", "noodles_cram::io::reader::container::slice::resolve_mates")
    if f17 is not None:
        ctx.saw_fn(f17)
        hit17 = None
        for b17, c17 in f17.calls():
            if not re.search(r"cmp::PartialEq(<.*>)?>?::(ne|eq)$", c17.get("f") or "") or len(c17["args"]) != 2:
                continue
            both = True
            for a in c17["args"]:
                l = C.op_local(a)
                d1 = C.single_def(f17, l) if l is not None else None
                pl = d1[3][2] if d1 is not None and d1[0] == "=" and d1[3][0] == "ref" else None
                if not (pl and any(isinstance(p_, list) and p_[0] == "f" and p_[2] == "reference_sequence_id" for p_ in pl[1])):
                    both = False
            if not both:
                continue
            nxt = c17.get("t")
            t17 = f17.blocks[nxt]["t"] if nxt is not None else None
            if not t17 or t17[0] != "sw":
                continue
            region = set()
            for _v, tg in t17[2]:
                region |= {x for x in range(len(f17.blocks)) if C.dominates(f17, tg, x)}
            region |= {x for x in range(len(f17.blocks)) if C.dominates(f17, t17[3], x)}
            zero = [bi for bi in region for st in f17.blocks[bi]["s"] if st[0] == "=" and st[2][0] == "use" and
                    (C.op_const(st[2][1]) or {}).get("v") == 0 and (C.op_const(st[2][1]) or {}).get("ty") == "i32"]
            if zero:
                hit17 = (b17, zero[0])
        if hit17:
            ctx.ok("C07.R17", f17.key, "the template length is set to 0 behind the comparison of the segments' reference ids", f17.loc(hit17[1]))
        else:
            ctx.violation("C07.R17", "C07.R17/tlen-across-references/" + f17.key,
                          "resolve_mates recomputes TLEN from the positions of attached mates without comparing their reference sequence ids: "
                          "a pair spanning two references reads back with the distance between two unrelated coordinates instead of 0", f17.loc())

    ctx.rule("C07.R7", "A7 span of a template: the reader recomputes TLEN of in-slice mates from min(start of both segments) and max(END of both "
                       "segments) — each alignment_end() result feeds the maximum")
    ft = ctx.anchor("C07.R7", K + "io::reader::container::slice::calculate_template_length_chunk")
    if ft is not None:
        ends = [c["dest"][0] for b, c in ft.calls() if re.search(r"calculate_template_length_chunk::alignment_end$", c.get("f") or "")]
        maxes = [c for b, c in ft.calls() if re.search(r"(cmp::Ord::max|core::cmp::max|Ord>::max)$", c.get("f") or "")]
        mins = [c for b, c in ft.calls() if re.search(r"(cmp::Ord::min|core::cmp::min|Ord>::min)$", c.get("f") or "")]
        fed = [c for c in maxes if sum(1 for e in ends if any(R.derives_from_local(ft, a, e) for a in c["args"])) >= 2]
        if len(ends) >= 2 and fed and mins:
            ctx.ok("C07.R7", ft.key + " :: end = max(end(record), end(mate)), start = min(..)", "%d alignment_end call(s)" % len(ends), ft.loc())
        else:
            ctx.violation("C07.R7", "C07.R7/template-end-not-max/" + ft.key,
                          "calculate_template_length_chunk no longer takes the template end as the maximum of BOTH segments' alignment ends "
                          "(alignment_end calls: %d, max() fed by both: %d, min(): %d): when the upstream read extends past its mate's end, |TLEN| "
                          "comes back too small on both mates" % (len(ends), len(fed), len(mins)), ft.loc())


def counter_collection_rule(ctx, rule, keys, floor):
    """the amount added to record_counter is the length of the very collection that was handed to write_container"""
    fb = ctx.fb
    is_len = R.mk_pred(r"Vec::<T, A>::len$")
    nfl = 0
    for key in keys:
        f = ctx.body(rule, key)
        if f is None:
            continue
        nfl += 1
        bd = a10.Body(fb, f)
        wc = [c for b, c in f.calls() if re.search(r"writer::container::write_container$", c.get("f") or "") and len(c["args"]) >= 5]
        adds = [st for blk in f.blocks if not blk.get("cu") for st in blk["s"]
                if st[0] == "=" and st[2][0] == "bin" and st[2][1].startswith("Add")
                and any(n == "record_counter" for n, _o in C.place_fields(C.op_place(st[2][2]) or [0, []]))]
        lens = [c for b, c in f.calls() if is_len(c.get("f") or "") and any(R.derives_from_local(f, a[2][3], c["dest"][0], through_calls=True) for a in adds)]
        if not wc or not adds or not lens:
            ctx.violation(rule, rule + "/ANCHOR-MISSING/%s/shape" % key,
                          "%s: write_container call (%d), record_counter += (%d) or the len() feeding it (%d) not found" % (key, len(wc), len(adds), len(lens)), f.loc())
            continue
        written = bd.pointee(wc[0]["args"][-1])
        counted = {bd.pointee(c["args"][0]) for c in lens}
        if counted == {written}:
            ctx.ok(rule, key + " :: record_counter += len of the collection handed to write_container", a10.fmt_ident(f, written), f.loc())
        else:
            ctx.violation(rule, rule + "/counter-from-other-collection/" + key,
                          "%s advances record_counter by the length of %s while write_container was handed %s: the counter of every later "
                          "container and slice is wrong (read names generated from it collide)" % (
                              key, sorted(a10.fmt_ident(f, x) for x in counted if x), a10.fmt_ident(f, written) if written else "?"), f.loc())
    ctx.floor(rule, "CRAM writer flush() bodies", nfl, floor)


def _raw_size_rule(ctx):
    """declared raw sizes: the `uncompressed_size` a writer Block is built with is the length of the block's INPUT — it derives from
    a len() of the data handed to the codec, never from the codec's output (defect F35: the fqzcomp arm declared data.len())."""
    fb = ctx.fb
    akey = K + "io::writer::container::block::Block"
    adt = fb.adts.get(akey)
    if adt is None:
        ctx.violation("C07.R10", "C07.R10/ANCHOR-MISSING/" + akey, "writer Block type not found")
        return
    fields = adt["variants"][0]["fields"]
    iu = next((i for i, fl in enumerate(fields) if fl["name"] == "uncompressed_size"), None)
    isrc = next((i for i, fl in enumerate(fields) if fl["name"] == "src"), None)
    n = 0
    for k, f in sorted(fb.fns.items()):
        if not f.blocks or not k.startswith(K + "io::writer"):
            continue
        for bi, blk in enumerate(f.blocks):
            if blk.get("cu"):
                continue
            for st in blk["s"]:
                if not (st[0] == "=" and st[2][0] == "agg" and st[2][1] == "adt" and st[2][2] == akey):
                    continue
                n += 1
                ctx.saw_fn(f)
                ops = st[2][4]
                size_op, data_op = ops[iu], ops[isrc]
                # the codec output: whatever the block's `src` payload derives from through a call into codecs::
                is_codec = lambda s_: "::codecs::" in s_ and s_.split("::")[-1] == "encode"
                from_output = R.derives_from_call(f, size_op, is_codec)
                from_len = R.derives_from_call(f, size_op, lambda s_: s_.endswith("::len"))
                if from_output:
                    ctx.violation("C07.R10", "C07.R10/raw-size-from-codec-output/" + k,
                                  "%s builds a Block whose uncompressed_size derives from the codec's OUTPUT: the block declares its "
                                  "compressed length as raw size" % k, f.loc(bi))
                elif from_len:
                    ctx.ok("C07.R10", k + " :: Block.uncompressed_size", "derives from a len() that is not downstream of a codec encode call", f.loc(bi))
                else:
                    ctx.violation("C07.R10", "C07.R10/raw-size-not-a-length/" + k, "%s: uncompressed_size of a Block does not derive from a len()" % k, f.loc(bi))
    ctx.floor("C07.R10", "writer Block constructions", n, 2)


def _name_marker_rule(ctx):
    """The read-name series is NUL-terminated by its encoding (ByteArrayStop, stop byte 0): the marker the writer stores for an
    unnamed record must not contain the terminator, and the reader must map exactly that marker back to 'no name' (defect F38:
    the marker "*\\0" was written as "*\\0\\0", read as "*" and "", and shifted every later name of the slice)."""
    fb = ctx.fb
    wk = next((k for k in fb.consts if k.startswith(K + "io::writer::container::slice::records::") and k.endswith("write_name::MISSING")), None)
    rfn = next((k for k in fb.matches if k.startswith(K + "io::reader::container::slice::records::") and "read_name" in k), None)
    if wk is None or rfn is None:
        ctx.violation("C07.R11", "C07.R11/ANCHOR-MISSING/name-marker", "writer marker const (%s) or reader match (%s) not found" % (wk, rfn))
        return
    raw = fb.consts[wk].get("raw", "")
    wbytes = bytes.fromhex(raw) if raw else b""
    stop = 0
    arms = [a["p"] for m in fb.matches[rfn] for a in m["arms"] if "None" in a["v"]]
    accepted = set()
    for p_ in arms:
        for m in re.finditer(r'"raw":"([0-9a-f]*)"', p_):
            accepted.add(bytes.fromhex(m.group(1)))
        for m in re.finditer(r'b"((?:\\x[0-9a-f]{2})+)"', p_):
            accepted.add(bytes(int(x, 16) for x in re.findall(r"\\x([0-9a-f]{2})", m.group(1))))
    if not wbytes or bytes([stop]) in wbytes:
        ctx.violation("C07.R11", "C07.R11/marker-contains-terminator/" + wk,
                      "the writer's marker for an unnamed record (%r) contains the terminator of the NUL-terminated name series: it is stored "
                      "as two strings and every later read name of the slice moves by one record" % wbytes, "%s:%s" % (fb.consts[wk]["file"], fb.consts[wk]["line"]))
    elif wbytes not in accepted:
        ctx.violation("C07.R11", "C07.R11/marker-not-recognised/" + rfn,
                      "the reader maps %s to 'no name' but the writer stores %r for an unnamed record" % (sorted(accepted), wbytes))
    else:
        ctx.ok("C07.R11", "unnamed-record marker %r" % wbytes, "free of the series terminator and mapped back to None by the reader (accepted: %s)" % sorted(accepted))


def _version_rule(ctx):
    """CRAM version it can emit: the predicate that raises the file version to 3.1 names every Encoder variant whose compression
    method is a CRAM 3.1 method (codes 5-8: rANS Nx16, arithmetic coder, fqzcomp, name tokenizer), and is asked about EVERY place of
    the encoder map that can hold an encoder (defect F39: fqzcomp and the default encoder were left out)."""
    fb = ctx.fb
    pk = K + "io::writer::builder::uses_cram_3_1_codecs"
    f = ctx.anchor("C07.R12", pk)
    if f is None:
        return
    ms = fb.matches.get(pk + "::is_cram_3_1_codec") or [m for k, v in fb.matches.items() if k.startswith(pk) for m in v]
    named = set()
    for m in ms:
        for a in m["arms"]:
            if a["v"] == "true":
                named |= set(re.findall(r"codecs::Encoder::(\w+)", a["p"]))
    enc = fb.adts.get(K + "codecs::Encoder")
    if not named or enc is None:
        ctx.violation("C07.R12", "C07.R12/ANCHOR-MISSING/%s/pattern" % pk, "the 3.1 codec pattern or the Encoder type was not found", f.loc())
        return
    # CRAM 3.1 methods by name of the compression method the encoder is mapped to in Block::encode
    V31 = {"RansNx16", "AdaptiveArithmeticCoding", "Fqzcomp", "NameTokenizer"}
    variants = {v["name"] for v in enc["variants"]}
    need = V31 & variants
    if V31 - variants:
        ctx.violation("C07.R12", "C07.R12/ANCHOR-MISSING/Encoder-variants", "Encoder no longer has the variants %s" % sorted(V31 - variants), f.loc())
    missing = need - named
    extra = named - V31
    if missing or extra:
        ctx.violation("C07.R12", "C07.R12/3.1-codec-set/" + pk,
                      "the predicate that selects CRAM version 3.1 names %s; CRAM 3.1 methods missing: %s, not 3.1: %s — a file using such a codec "
                      "declares version 3.0" % (sorted(named), sorted(missing), sorted(extra)), f.loc())
    else:
        ctx.ok("C07.R12", pk + " :: 3.1 codec set", "names exactly %s" % sorted(named), f.loc())
    mk_ = K + "container::block_content_encoder_map::BlockContentEncoderMap"
    adt = fb.adts.get(mk_)
    holders = [fl["name"] for fl in (adt or {"variants": [{"fields": []}]})["variants"][0]["fields"] if "codecs::Encoder" in fl["ty"]]
    asked = {(c.get("f") or "").split("::")[-1] for g in fb.family(pk) for _b, c in g.calls() if (c.get("f") or "").startswith(mk_ + "::")}
    ctx.floor("C07.R12", "encoder-holding fields of BlockContentEncoderMap", len(holders), 4)
    left = [h for h in holders if h not in asked]
    if left:
        ctx.violation("C07.R12", "C07.R12/encoder-slot-not-asked/" + pk,
                      "uses_cram_3_1_codecs does not look at %s of the encoder map: a 3.1 codec set there leaves the file at version 3.0" % left, f.loc())
    else:
        ctx.ok("C07.R12", pk + " :: asks every encoder slot", ", ".join(sorted(holders)), f.loc())


def _tlen_sign_rule(ctx):
    """TLEN is positive for the LEFTMOST segment: in resolve_mates every store of a template length happens after a comparison of
    alignment starts (defect F40: the sign followed the order of the records in the slice)."""
    fb = ctx.fb
    key = K + "io::reader::container::slice::resolve_mates"
    f = ctx.anchor("C07.R13", key)
    if f is None:
        return
    stores = [bi for bi, blk in enumerate(f.blocks) if not blk.get("cu") for st in blk["s"]
              if st[0] == "=" and any(n == "template_length" for n, _o in C.place_fields(st[1]))]
    cmps = []
    for b, kind, ops, t_t, f_t in R._cmp_switches(f):
        pass
    for b, c in f.calls():
        if re.search(r"::(lt|le|gt|ge|cmp|partial_cmp|min|max|min_by_key|max_by_key)$", c.get("f") or ""):
            def from_start(o, depth=0):
                l = C.op_local(o)
                if l is None or depth > 6:
                    return False
                for d in C.defs(f).get(l, []):
                    if d[0] == "=":
                        rv = d[3]
                        pl = rv[2] if rv[0] == "ref" else (C.op_place(rv[1]) if rv[0] == "use" else None)
                        if pl is not None and any(n == "alignment_start" for n, _o in C.place_fields(pl)):
                            return True
                        if any(from_start(o2, depth + 1) for o2 in R.rvalue_operands(rv)):
                            return True
                return False
            if any(from_start(a) for a in c["args"]):
                cmps.append(b)
    if not stores:
        ctx.violation("C07.R13", "C07.R13/ANCHOR-MISSING/%s/stores" % key, "resolve_mates no longer stores template lengths", f.loc())
        return
    if not cmps:
        ctx.violation("C07.R13", "C07.R13/sign-without-position/" + key,
                      "resolve_mates assigns +TLEN / -TLEN without ever comparing the alignment starts of the segments: the sign follows the order "
                      "of the records in the slice, so a pair whose rightmost segment comes first reads back with both signs flipped", f.loc(stores[0]))
        return
    before = [s_ for s_ in stores if not any(s_ in C.reachable(f, c_) for c_ in cmps)]
    if before:
        ctx.violation("C07.R13", "C07.R13/sign-before-comparison/" + key, "a template length is stored on a path that has not compared alignment starts", f.loc(before[0]))
    else:
        ctx.ok("C07.R13", key + " :: %d template length store(s) follow a comparison of alignment starts" % len(stores), "", f.loc(cmps[0]))


def _itf8_size_rule(ctx):
    """declared lengths: itf8_size_of (what Block::size, container length and landmarks are computed from) agrees with write_itf8
    (what is emitted) on every magnitude class. Both see the value only through shifts, comparisons and leading_zeros, so over the
    33 bit-length classes of an i32 each is a finite table, computed from the MIR by A11's bit-class interpreter."""
    from .. import a11
    fb = ctx.fb
    fs = ctx.anchor("C07.R14", K + "io::writer::container::block::itf8_size_of")
    fw = ctx.anchor("C07.R14", K + "io::writer::num::itf8::write_itf8")
    if fs is None or fw is None:
        return
    ts = a11.bit_class_table(fb, fs, 0, 1, "result")
    tw = a11.bit_class_table(fb, fw, 1, 2, "written")
    diff = [c for c in range(33) if ts[c] is not a11.UNDECIDED and tw[c] is not a11.UNDECIDED and ts[c] != tw[c]]
    und = [c for c in range(33) if ts[c] is a11.UNDECIDED or tw[c] is a11.UNDECIDED]
    if diff:
        c = diff[0]
        lo = 0 if c == 0 else (1 << (c - 1))
        rng = "negative values" if c == 32 else "values %d..=%d" % (lo, (1 << c) - 1)
        ctx.violation("C07.R14", "C07.R14/itf8-size-table/" + fs.key,
                      "itf8_size_of declares %s byte(s) for %s (bit length %d) but write_itf8 emits %s: Block::size(), the container length "
                      "and the landmarks are off by the difference for every block field in that range (classes that differ: %s)" % (
                          ts[c], rng, c, tw[c], diff), fs.loc())
    else:
        ctx.ok("C07.R14", "itf8_size_of == bytes written by write_itf8 on %d of 33 bit-length classes" % (33 - len(und)),
               "sizes by class: %s%s" % (", ".join("%d:%s" % (c, ts[c]) for c in (0, 7, 8, 14, 15, 21, 22, 28, 29, 32) if ts[c] is not a11.UNDECIDED),
                                         "; not decided (unmodelled construct): %s" % und if und else ""), fs.loc())


def _qs_flag_rule(ctx):
    """written-iff-present for the quality score array: the CRAM flag QUALITY_SCORES_ARE_STORED_AS_ARRAY makes the reader take
    read_length bytes from the QS series, so the writer may set it only on a path (or with a value) that depends on the record
    HAVING quality scores. Every use of the flag constant in the record converter must be behind a switch on
    `quality_scores().is_empty()`, or be the flag argument of a `set(flag, cond)` whose cond derives from that test."""
    fb = ctx.fb
    key = K + "io::writer::record::convert::<impl noodles_cram::io::writer::record::Record>::try_from_alignment_record"
    f = ctx.anchor("C07.R9", key)
    if f is None:
        return
    import json as _json
    qs_calls = [c["dest"][0] for b, c in f.calls() if re.search(r"alignment::record::Record::quality_scores$", c.get("f") or "") and c.get("dest") and not c["dest"][1]]
    tests = set()
    for q in qs_calls:
        der = a10._derived_from(f, q)
        for b, c in f.calls():
            if re.search(r"::(is_empty|len)$", c.get("f") or "") and c["args"] and C.op_local(c["args"][0]) in der and c.get("dest") and not c["dest"][1]:
                tests |= a10._derived_from(f, c["dest"][0])
    gates = {b for b, blk in enumerate(f.blocks) if not blk.get("cu") and blk["t"][0] == "sw" and C.op_local(blk["t"][1]) in tests}
    uses = []
    for b, blk in enumerate(f.blocks):
        if blk.get("cu"):
            continue
        txt = _json.dumps(blk["s"]) + (_json.dumps(blk["t"][1]["args"]) if blk["t"][0] == "call" else "")
        if "Flags::QUALITY_SCORES_ARE_STORED_AS_ARRAY" in txt:
            uses.append(b)
    if not uses or not qs_calls:
        ctx.violation("C07.R9", "C07.R9/ANCHOR-MISSING/%s/flag" % key, "the record converter no longer mentions the quality-score array flag "
                      "(uses: %d) or the record's quality scores (calls: %d)" % (len(uses), len(qs_calls)), f.loc())
        return
    open_ = C.reachable(f, 0, removed=gates) if 0 not in gates else set()
    for b in uses:
        t = f.blocks[b]["t"]
        if t[0] == "call" and (t[1].get("f") or "").endswith("::set") and len(t[1]["args"]) == 3 and C.op_local(t[1]["args"][2]) in tests:
            ctx.ok("C07.R9", key + " :: flag set(.., cond)", "cond derives from the emptiness of the record's quality scores", f.loc(b))
        elif b in open_:
            ctx.violation("C07.R9", "C07.R9/flag-set-unconditionally/" + key,
                          "the converter sets QUALITY_SCORES_ARE_STORED_AS_ARRAY on a path that does not depend on the record having quality scores: "
                          "for `QUAL *` the flag is written, no score bytes are, and the reader (which takes read_length bytes from the QS "
                          "series when the flag is set) cannot decode noodles' own output", f.loc(b))
        else:
            ctx.ok("C07.R9", key + " :: flag use", "behind a switch on quality_scores().is_empty()", f.loc(b))


def _writes_static(key):
    def cp(fn, c):
        k = c.get("f") or ""
        if not k.endswith("write_all"):
            return False
        # the argument is a reference to the static: `&EOF` lowers to a pointer constant or a copy of the static's place
        for a in c["args"]:
            if _mentions_static(fn, a, key):
                return True
        return False
    return cp


def _mentions_static(fn, op, key, depth=0):
    if depth > 6:
        return False
    kc = C.op_const(op)
    if kc is not None:
        return key.split("::")[-1] in str(kc.get("ty", "")) or kc.get("def") == key or "[u8; 38]" in str(kc.get("ty", ""))
    l = C.op_local(op)
    if l is None:
        p = C.op_place(op)
        l = p[0] if p else None
    if l is None:
        return False
    for d in C.defs(fn).get(l, []):
        if d[0] in ("=", "partial"):
            for o in R.rvalue_operands(d[3]):
                if _mentions_static(fn, o, key, depth + 1):
                    return True
            if d[3][0] == "other" and "EOF" in str(d[3][1]):
                return True
    return False


def _users(fb, prefix, rx):
    out = {}
    r = re.compile(rx)
    for k, f in fb.fns.items():
        if not k.startswith(prefix):
            continue
        for b, c in f.calls():
            m = r.search(c.get("f") or "")
            if m:
                out.setdefault(m.group(1), set()).add(f.root.split("::")[-1])
    return out


_G = r"::(Flags::\w+|PreservationMap::\w+|CramFlags::\w+)$"


def _guard_sigs(fb, prefix, pre):
    out = {}
    for k, f in fb.fns.items():
        if not k.startswith(prefix) or f.is_closure:
            continue
        fstem = re.sub(r"^(read|write)_", "", k.split("::")[-1])
        sws = R.switch_on_call(f, _G)
        for b, c in f.calls():
            ck = c.get("f") or ""
            last = ck.split("::")[-1]
            if not ck.startswith(prefix) or not last.startswith(pre + "_"):
                continue
            stem = re.sub(r"^(read|write)_", "", last)
            sig = set()
            for sb, tt, ft, gc in sws:
                g = re.search(_G, gc["f"]).group(1)
                if tt != ft and b not in C.reachable(f, 0, removed_edges={(sb, tt)}):
                    sig.add((g, True))
                if tt != ft and b not in C.reachable(f, 0, removed_edges={(sb, ft)}):
                    sig.add((g, False))
            out[(fstem, stem)] = out.get((fstem, stem), set()) | sig
    return out


def _stem(name, exc):
    s = re.sub(r"^(read|write)_", "", name)
    return exc.get(s, s)
