"""C20 — format autodetection and conversions: detection tables and windows (DESIGN.md §5 C20)."""
import re

from .. import a5
from .. import cfg as C
from .. import rules as R

EXPLANATION = (
    "Decides the detection/dispatch tables structurally; conversions are not decided. (R1) the magic literals duplicated in "
    "noodles-util (BAM\\1, CRAM, BCF, gzip 1f8b) evaluate equal to the constants the format crates' writers emit; (R2) "
    "for alignment and variant, sync and async: the reader builder and the writer builder map every (Format, "
    "CompressionMethod) key to the SAME inner variant (match-arm tables from type-checked HIR: a writer arm that builds the "
    "compressed writer for the uncompressed key is reported — this rule found the genuine defect F13, repaired), each arm's "
    "constructor belongs to the arm's format crate, and compressed arms wrap a bgzf reader/writer while uncompressed arms do "
    "not; (R3) detection must not assume a fill_buf window (shared known finding F6 with C12); (R4) the generic writer's "
    "finish reaches the concrete finisher for every arm (C14.R3); default compression per format is the same in writer "
    "builder and path-extension detection."
    " (R5) configuration plumbing: every field of every workspace `Builder` struct is read by some function other than a derived trait impl, so an option stored by a setter (e.g. the reference sequence repository of the generic alignment reader) cannot be silently ignored."
    " (R6) VCF -> BCF keeps the keys: the header text order of INFO / FILTER / FORMAT equals the order StringMaps::try_from numbers the dictionary in (shared with C10.R10)."
    " (R7) detection window: no builder of the generic readers constructs its detection BufReader with a constant capacity below the default 8 KiB at which known finding F6 was triaged. (R8) dispatch agreement: every arm of a noodles-util wrapper's trait method forwards to the same-named method. (R9) the BGZF arm of detect_format treats a stream shorter than the BAM magic number as not-BAM (genuine defect F59, repaired). (R10) records() and read_record of the generic reader go through the same CRAM reader layer (F62, repaired).")
ASSUMPTIONS = ["the inner enum variant names (Bam/BamRaw/SamGz/...) identify (format, compression) — checked against the constructor each arm calls"]
NOT_DECIDED = ["record preservation across conversions at the SAM/VCF data-model level", "detection from a path extension vs content"]

U = "noodles_util::"


def run(ctx):
    fb = ctx.fb
    ctx.rule("C20.R1", "A7/A8 magic literals in noodles-util equal the writers' constants")
    pairs = [
        (U + "alignment::io::reader::builder::detect_format::BAM_MAGIC_NUMBER", "noodles_bam::io::MAGIC_NUMBER"),
        (U + "alignment::io::reader::builder::detect_format::CRAM_MAGIC_NUMBER", "noodles_cram::MAGIC_NUMBER"),
        (U + "alignment::io::reader::builder::detect_compression_method::GZIP_MAGIC_NUMBER", "noodles_bgzf::gz::MAGIC_NUMBER"),
        (U + "variant::io::reader::builder::detect_compression_method::GZIP_MAGIC_NUMBER", "noodles_bgzf::gz::MAGIC_NUMBER"),
        (U + "variant::io::reader::builder::detect_format::BCF_MAGIC_NUMBER", "noodles_bcf::io::MAGIC_NUMBER"),
    ]
    for a, b in pairs:
        if b not in fb.consts:
            alt = [k for k in fb.consts if k.endswith("MAGIC_NUMBER") and k.startswith(b.split("::")[0])]
            b = alt[0] if alt else b
        R.const_rule(ctx, "C20.R1", "%s == %s" % (a.split("::")[-1], b), {"u": a, "w": b},
                     lambda v: (v["w"][:len(v["u"])] == v["u"], "util literal is (a prefix of) the writer's magic"), "format specs",
                     "a drifted literal makes the generic reader misclassify every file of that format")

    ctx.rule("C20.R2", "A7 reader-builder and writer-builder dispatch tables agree per (Format, CompressionMethod)")
    for dom in ("alignment", "variant"):
        for asy in ("", "r#async::"):
            rk = U + "%s::%sio::reader::builder::Builder::build_from_reader" % (dom, asy)
            wk = U + "%s::%sio::writer::builder::Builder::build_from_writer" % (dom, asy)
            rt, wt = _table(fb, rk), _table(fb, wk)
            tag = "%s %s" % (dom, "async" if asy else "sync")
            if rt is None or wt is None:
                ctx.violation("C20.R2", "C20.R2/ANCHOR-MISSING/%s" % (rk if rt is None else wk), "dispatch table of %s not found" % tag)
                continue
            ctx.saw_fn(fb.fns.get(rk))
            ctx.saw_fn(fb.fns.get(wk))
            keys = sorted(set(rt) | set(wt))
            for k in keys:
                a, b = rt.get(k), wt.get(k)
                if a is None or b is None:
                    # an arm that is an error on one side is fine only if it is an error on both or absent
                    if (a or b) and (a or b)[0] not in ("Err", "block"):
                        ctx.violation("C20.R2", "C20.R2/one-sided/%s/%s" % (tag.replace(" ", "-"), "+".join(k)),
                                      "%s: key %s is handled by the %s builder only" % (tag, k, "reader" if b is None else "writer"))
                    continue
                if a[0] in ("Err", "block") or b[0] in ("Err", "block"):
                    continue
                if a[0] != b[0]:
                    ctx.violation("C20.R2", "C20.R2/variant-mismatch/%s/%s" % (tag.replace(" ", "-"), "+".join(k)),
                                  "%s: for (format, compression) = %s the reader builds Inner::%s but the writer builds Inner::%s: the stream "
                                  "the writer produces is not what was requested / not what the reader of that key expects" % (tag, k, a[0], b[0]),
                                  fb.fns[wk].loc())
                    continue
                # constructor crate and bgzf wrapping
                bad = []
                for side, (variant, text) in (("reader", a), ("writer", b)):
                    fmt = k[0].lower()
                    if ("noodles_%s::" % fmt) not in text and fmt not in text.lower():
                        bad.append("%s arm does not construct a %s %s" % (side, fmt, side))
                    compressed = k[1] != "None"
                    wraps = "bgzf" in text
                    if fmt != "cram" and compressed != wraps and "{…}" not in text:
                        bad.append("%s arm %s bgzf although compression = %s" % (side, "wraps" if wraps else "does not wrap", k[1]))
                if bad:
                    ctx.violation("C20.R2", "C20.R2/arm-constructor/%s/%s" % (tag.replace(" ", "-"), "+".join(k)), "%s %s: %s" % (tag, k, "; ".join(bad)), fb.fns[wk].loc())
                else:
                    ctx.ok("C20.R2", "%s %s -> Inner::%s on both sides" % (tag, k, a[0]), "")
            ctx.floor("C20.R2", "%s dispatch keys" % tag, len(keys), 4)

    ctx.rule("C20.R3", "A5d detection does not assume a fill_buf window (shared with C12.R3)")
    n = 0
    for s in a5.fill_buf_sites(fb):
        if not s["fn"].startswith(U):
            continue
        n += 1
        f = fb.fns[s["fn"]]
        ctx.saw_fn(f)
        if s["class"] == "window-assumption":
            ctx.violation("C20.R3", "C20.R3/window/%s/%s" % (s["fn"], "+".join(s["window"])),
                          "%s inspects one fill_buf() window through %s" % (s["fn"], s["window"]), f.loc(s["block"]))
        else:
            ctx.ok("C20.R3", s["fn"], s["class"], f.loc(s["block"]))
    ctx.floor("C20.R3", "fill_buf sites in noodles-util", n, 8)

    ctx.rule("C20.R4", "generic writer finish reaches every arm's finisher; default compression agrees with path-extension detection")
    ui = ctx.anchor("C20.R4", U + "alignment::io::writer::inner::Inner::<W>::finish")
    if ui is not None:
        fin = "noodles_sam::alignment::io::write::Write::finish"
        impls = sorted(fb.impls_of_trait_item().get(fin, []))
        got = {c.get("f") for b, c in ui.calls()}
        miss = [k for k in impls if k not in got]
        if miss:
            ctx.violation("C20.R4", "C20.R4/finish-arm/" + ui.key, "generic writer finish() does not reach %s" % miss, ui.loc())
        else:
            ctx.ok("C20.R4", ui.key + " reaches all %d alignment Write::finish impls" % len(impls), "", ui.loc())
    # every generic writer (alignment / variant, sync / async) offers a finishing call, and its dispatch has one arm per Inner
    # variant that reaches a flush / finisher of that arm (every arm buffers: BufWriter or the BGZF staging buffer)
    FIN_RX = re.compile(r"::(finish|try_finish|shutdown|flush|poll_shutdown|poll_flush)$")
    for dom in ("alignment", "variant"):
        for asy in ("", "r#async::"):
            wty = U + "%s::%sio::writer::Writer" % (dom, asy)
            inner = U + "%s::%sio::writer::inner::Inner" % (dom, asy)
            fins = [k for k in fb.fns if k.startswith(wty + "::<W>::") and k.split("::")[-1] in ("finish", "try_finish", "shutdown")
                    and not fb.fns[k].is_closure]
            if not fins:
                ctx.violation("C20.R4", "C20.R4/no-finisher/" + wty,
                              "%s has no finish()/shutdown(): every arm buffers (BufWriter / BGZF staging), so the tail of the file is written, "
                              "if at all, when the writer is dropped, where a destination failure is swallowed (async: never written)" % wty)
                continue
            ifins = [k for k in fb.fns if k.startswith(inner + "::<W>::") and k.split("::")[-1] in ("finish", "try_finish", "shutdown")
                     and not fb.fns[k].is_closure]
            nvar = len(fb.adts[inner]["variants"]) if inner in fb.adts else 0
            reach = 0
            for ik in ifins:
                body = ctx.body("C20.R4", ik)
                if body is None:
                    continue
                reach = max(reach, len([1 for b, c in body.calls() if FIN_RX.search(c.get("f") or "")
                                        and "future" not in (c.get("f") or "") and "IntoFuture" not in (c.get("f") or "")]))
            if ifins and nvar and reach >= nvar:
                ctx.ok("C20.R4", "%s :: finisher dispatches to all %d arms" % (wty, nvar), "%s; %d flush/finish call(s)" % (fins[0].split("::")[-1], reach))
            else:
                ctx.violation("C20.R4", "C20.R4/finisher-arms/" + wty,
                              "%s: the finisher reaches %d flush/finish call(s) for %d Inner variants" % (wty, reach, nvar))
    for dom, fmt_default in (("alignment", {"Bam": "Bgzf"}), ("variant", {"Bcf": "Bgzf"})):
        wk = U + "%s::io::writer::builder::Builder::build_from_writer" % dom
        ms = [m for m in fb.matches.get(wk, []) if m["sty"].endswith("format::Format")]
        found = {}
        for m in ms:
            for a in m["arms"]:
                for alt in a["p"].split(" | "):
                    v = re.search(r"Format::(\w+)", alt)
                    cm = re.search(r"CompressionMethod::(\w+)", a["v"])
                    if v:
                        found[v.group(1)] = cm.group(1) if cm else "None"
        for fmt, want in fmt_default.items():
            if found.get(fmt) == want:
                ctx.ok("C20.R4", "%s default compression of %s is %s" % (dom, fmt, want), "")
            else:
                ctx.violation("C20.R4", "C20.R4/default-compression/%s/%s" % (dom, fmt), "%s writer builder defaults %s to %s, expected %s" % (dom, fmt, found.get(fmt), want))

    ctx.rule("C20.R5", "A2 configuration plumbing: every option stored by a builder (generic and per-format) is read by some consumer")
    R.option_plumbing_rule(ctx, "C20.R5", r"::[Bb]uilder$", 150, exceptions={
        "noodles_bgzf::io::multithreaded_writer::builder::Builder.worker_count":
            "set_worker_count is #[deprecated] and documented as ignored (the rayon pool is configured globally)"})

    ctx.rule("C20.R8", "A7 dispatch agreement: every arm of a generic wrapper's trait method forwards to the SAME-named method of that trait on "
                       "the wrapped format type (a copy/paste slip in one arm answers one accessor with another field, for one format only)")
    forwarding_rule(ctx, "C20.R8", 30)

    ctx.rule("C20.R9", "the generic alignment reader opens everything the generic writer emits, also the empty file: the BGZF arm of "
                       "detect_format treats an inflated stream SHORTER than the BAM magic number as 'not BAM' (its read_exact's error is "
                       "compared with UnexpectedEof), like the uncompressed arm's `get(..4)`; genuine defect F59, repaired")
    f9 = ctx.anchor("C20.R9", "noodles_util::alignment::io::reader::builder::detect_format")
    if f9 is not None:
        ctx.saw_fn(f9)
        rx9 = [b for b, c in f9.calls() if re.search(r"::read_exact$", c.get("f") or "")]
        cmp9 = [bi for bi, blk in enumerate(f9.blocks) if not blk.get("cu") for st in blk["s"]
                if st[0] == "=" and st[2][0] == "agg" and st[2][1] == "adt" and st[2][2].endswith("io::error::ErrorKind") and st[2][3] == "UnexpectedEof"]
        if not rx9:
            ctx.ok("C20.R9", f9.key, "no read_exact in the sniffing code (a length-checked view cannot fail at EOF)", f9.loc())
        elif cmp9 and all(any(c in C.reachable(f9, b) for c in cmp9) for b in rx9):
            ctx.ok("C20.R9", f9.key, "the sniffing read_exact's error is compared with UnexpectedEof", f9.loc(rx9[0]))
        else:
            ctx.violation("C20.R9", "C20.R9/short-stream-fails-detection/" + f9.key,
                          "detect_format propagates the UnexpectedEof of its sniffing read_exact: a BGZF stream that inflates to fewer bytes than "
                          "the BAM magic number (the generic writer's empty SAM.gz) cannot be opened by the generic reader", f9.loc(rx9[0]))

    ctx.rule("C20.R10", "one reader layer per format: the generic alignment reader's records() reads CRAM through the SAME buffered reader as "
                        "read_record (cram::io::BufReader::read_record_buf); it does not reach under it with get_mut() — the buffered reader "
                        "holds the rest of the container a record was taken from (genuine defect F62, repaired: those records were lost)")
    f10 = ctx.anchor("C20.R10", "noodles_util::alignment::io::reader::inner::Inner::<R>::records")
    if f10 is not None:
        ctx.saw_fn(f10)
        fam10 = list(fb.family(f10.key))
        under = [(g, b) for g in fam10 for b, c in g.calls() if re.search(r"cram::io::buf_reader::BufReader::<R>::get_mut$", c.get("f") or "")]
        through = [(g, b) for g in fam10 for b, c in g.calls() if re.search(r"cram::io::buf_reader::BufReader::<R>::read_record_buf$", c.get("f") or "")]
        if under:
            ctx.violation("C20.R10", "C20.R10/buffered-reader-bypassed/" + f10.key,
                          "Inner::records reaches under the CRAM BufReader with get_mut(): the records the buffered reader still holds after a "
                          "read_record are skipped", under[0][0].loc(under[0][1]))
        elif through:
            ctx.ok("C20.R10", f10.key, "the Cram arm reads through BufReader::read_record_buf", through[0][0].loc(through[0][1]))
        else:
            ctx.violation("C20.R10", "C20.R10/ANCHOR-MISSING/Inner::records/cram", "Inner::records: no CRAM read through the buffered reader found", f10.loc())

    ctx.rule("C20.R7", "detection window: the generic readers look at ONE fill_buf window (known finding F6, triaged at BufReader's default 8 KiB): "
                       "no builder constructs its detection reader with a smaller constant capacity")
    n7 = small = 0
    for k7, f7 in sorted(fb.fns.items()):
        if not f7.blocks or not re.match(r"<?noodles_util::", k7):
            continue
        for b7, c7 in f7.calls():
            fk7 = c7.get("f") or ""
            if re.search(r"(bufreader::BufReader|buf_reader::BufReader)::<\w+>::(new|with_capacity)$", fk7):
                n7 += 1
                ctx.saw_fn(f7)
                if fk7.endswith("with_capacity"):
                    cap = C.eval_const(f7, c7["args"][0])
                    if cap is not None and cap < 8192:
                        small += 1
                        ctx.violation("C20.R7", "C20.R7/detection-window-shrunk/" + k7,
                                      "%s builds its detection reader with a %d-byte buffer: format detection inflates the first BGZF member from "
                                      "one fill_buf window, so a stream whose first block needs more than %d compressed bytes (any BCF with a few "
                                      "dozen records) is no longer recognised" % (k7, cap, cap), f7.loc(b7))
    if not small:
        ctx.ok("C20.R7", "BufReader constructions in noodles-util", "%d, none with a constant capacity below 8192" % n7)
    ctx.floor("C20.R7", "BufReader constructions in the generic readers", n7, 4)

    ctx.rule("C20.R6", "VCF -> BCF keeps the keys: the header text order (INFO / FILTER / FORMAT) that the BCF reader numbers the dictionary "
                       "from equals the order StringMaps::try_from numbers it in for the BCF writer (C10.R10)")
    from .c10 import dictionary_order_rule
    dictionary_order_rule(ctx, "C20.R6")


def _table(fb, key):
    """(Format, Compression) -> (Inner variant | 'Err' | 'block', arm text) from the builder's tuple match."""
    ms = [m for g in fb.family(key) for m in fb.matches.get(g.key, []) if m["sty"].startswith("(") and "format::Format" in m["sty"]]
    if not ms:
        return None
    out = {}
    for m in ms:
        for a in m["arms"]:
            fmts = re.findall(r"Format::(\w+)", a["p"].split(",core::option")[0]) or ["_"]
            comp = "None" if a["p"].rstrip(")").endswith("Option::None") else (re.search(r"CompressionMethod::(\w+)", a["p"]) or [None, "Some"])[1] if "Some" in a["p"] else "None"
            v = a["v"]
            mv = re.search(r"inner::Inner::(\w+)", v)
            if mv:
                val = (mv.group(1), v)
            elif "Err(" in v:
                val = ("Err", v)
            else:
                val = ("block", v)
            for f in fmts:
                out[(f, comp)] = val
    return out


def _split_impl(k):
    """'<X as T>::m' -> (X, T, m) (None for anything else)"""
    if not k or not k.startswith("<"):
        return None
    depth = 0
    for i, ch in enumerate(k):
        if ch == "<":
            depth += 1
        elif ch == ">":
            depth -= 1
            if depth == 0:
                inner, rest = k[1:i], k[i + 1:]
                if not rest.startswith("::") or "::" in rest[2:]:
                    return None
                d2, pos = 0, None
                for j in range(len(inner)):
                    if inner[j] == "<":
                        d2 += 1
                    elif inner[j] == ">":
                        d2 -= 1
                    elif d2 == 0 and inner.startswith(" as ", j):
                        pos = j
                if pos is None:
                    return None
                return inner[:pos], inner[pos + 4:], rest[2:]
    return None


def forwarding_rule(ctx, rule, floor):
    """The generic wrappers of noodles-util implement a format-independent trait by dispatching on the format: every arm of
    `<Wrapper as T>::m` that calls a method of the SAME trait T on another type calls the method of the same name m."""
    fb = ctx.fb
    n = 0
    for k, f in sorted(fb.fns.items()):
        if not f.blocks or not k.startswith("<noodles_util"):
            continue
        me = _split_impl(k)
        if not me:
            continue
        arms = []
        for b, c in f.calls():
            o = _split_impl(c.get("f") or "")
            if o and o[1] == me[1] and o[0] != me[0]:
                arms.append((b, o))
        if not arms:
            continue
        n += 1
        ctx.saw_fn(f)
        bad = [(b, o) for b, o in arms if o[2] != me[2]]
        if bad:
            b, o = bad[0]
            ctx.violation(rule, "%s/forwards-to-other-method/%s" % (rule, k),
                          "%s forwards to %s::%s in the arm for %s: the generic record / reader / writer answers this accessor with another "
                          "field of the wrapped value for that format only" % (k, o[1].split("::")[-1], o[2], o[0]), f.loc(b))
        else:
            ctx.ok(rule, k, "%d arm(s) forward to the same-named method" % len(arms), f.loc())
    ctx.floor(rule, "forwarding impls in noodles_util", n, floor)
