"""C13 — truncation yields a prefix, then EOF or an error: classification + integrity (DESIGN.md §5 C13)."""
import re

from .. import a5
from .. import cfg as C
from .. import rules as R
from . import c12

EXPLANATION = (
    "Decides the structural necessary conditions for 'a cut file never reads as a clean, complete one': (R1) the BAM/BCF "
    "record readers (sync and async) return Ok after their size-prefix loop only when nothing or everything was read, so a "
    "stream ending inside a record is UnexpectedEof, and the record body is read with read_exact; (R2) a torn BGZF block or "
    "CRAM block/container header cannot pass as data: CRC32/ISIZE/frame-size guards dominate the success exits (same "
    "instances as C01.R6 and C07.R2, re-decided here); (R3) CRAM: read_container returns 0 only through is_eof on a "
    "CRC-verified header and reads the body with read_exact; the records iterator ends only on that 0; (R4) index readers "
    "(BAI, CSI, tabix, gzi, crai, fai): no raw read() at all — every element goes through read_exact-based helpers — and "
    "every count that sizes a loop or allocation is converted with try_from; (R5) the only io::Result matches that turn an "
    "error into a success are the tabled EOF conversions (C14.R1b)."
    " R1 also covers the eager BCF reader (genuine defect F25, repaired; the site had been mis-triaged as safe in the error-to-success table); (R6) the bgzf read_nonempty_block_with returns a nonzero length only for a block read by that call, so the direct-read path cannot report bytes it did not produce at the end of a stream without EOF block (genuine defect F26, repaired)."
    " (R7) a truncated text stream ends the scan: every loop around fill_buf has an exit edge controlled by the emptiness of the window."
    " (R8) a read error inside an iterator chain reaches the caller: no Result is consumed as an iterator (flat_map over a Result, Result::into_iter), which would turn a cut-off list into a shorter list and Ok. (R9) the read_exact contract: every success exit of a hand-written read_exact (BGZF reader, multithreaded reader, default_read_exact) passes a whole-buffer test on the destination or a read_exact delegation. (R10) a block that failed to parse is emptied and the position advanced before the error is returned (genuine defect F63, repaired). (R11) no chunks(n) feeding a fixed-width decode in the index readers.")
ASSUMPTIONS = ["read_exact reports UnexpectedEof on a short source (std/tokio contract)",
               "the 'never panics' clause is C15's inventory restricted to these readers"]
NOT_DECIDED = ["that the records yielded before the error equal the originally written prefix (needs values)",
               "BGZF: a file cut exactly at a block boundary reads as a clean (shorter) stream — inherent to the format when the EOF marker is not required"]

INDEX_READERS = re.compile(r"^<?noodles_(bam::bai|csi|tabix|bgzf::gzi|cram::crai|fasta::fai|fastq::fai)::(r#async::)?io::reader")


def run(ctx):
    fb = ctx.fb
    ctx.rule("C13.R1", "A5e record readers: Ok after the size-prefix loop only when nothing or everything was read; body via read_exact")
    for key in ("noodles_bam::io::reader::record::read_exact_or_eof", "noodles_bam::r#async::io::reader::record::read_exact_or_eof",
                "noodles_bcf::io::reader::record::read_exact_or_eof", "noodles_bcf::r#async::io::reader::record::read_exact_or_eof"):
        f = ctx.body("C13.R1", key)
        if f is not None:
            c12.eof_or_partial(ctx, "C13.R1", f, allow_zero=True)
    for key in ("noodles_bam::io::reader::record::read_record", "noodles_bam::r#async::io::reader::record::read_record",
                "noodles_bcf::io::reader::record::read_record", "noodles_bcf::r#async::io::reader::record::read_record"):
        f = ctx.body("C13.R1", key)
        if f is None:
            continue
        # the only Ok(0) exit is the one on the `size == 0` edge; every other success exit passes a read_exact of the body
        rx = R.find_calls(f, r"::read_exact$")
        if not rx:
            ctx.violation("C13.R1", "C13.R1/no-read_exact/" + key, "%s no longer reads the record body with read_exact" % key, f.loc())
        else:
            ctx.ok("C13.R1", key + " reads the body with read_exact (%d site(s))" % len(rx), "", f.loc())

    # the eager BCF reader obtains its length prefix through the same nothing-or-everything helper (it used to map UnexpectedEof to
    # Ok(0): genuine defect F25 — which this suite had mis-triaged as "0 bytes = EOF" in its error-to-success table)
    R.must_pass(ctx, "C13.R1", "noodles_bcf::io::reader::record_buf::read_record_buf", r"noodles_bcf::io::reader::record::read_exact_or_eof$",
                "the eager BCF reader reads the l_shared prefix through read_exact_or_eof (partial prefix = UnexpectedEof)")

    ctx.rule("C13.R6", "A3 no fabricated bytes at end of stream: bgzf read_nonempty_block_with returns a nonzero length only for a block this call "
                       "read (the direct-read path hands that length to the caller as the number of bytes produced)")
    fnb = ctx.anchor("C13.R6", "noodles_bgzf::io::reader::Reader::<R>::read_nonempty_block_with")
    if fnb is not None:
        sws = [(sb, tt, ft) for sb, tt, ft, c in R.switch_on_call(fnb, r"option::Option::<T>::is_some$")
               if any(R.derives_from_call(fnb, a_, R.mk_pred(r"frame::read_frame_into$")) for a_ in c["args"])]
        if not sws:
            ctx.violation("C13.R6", "C13.R6/ANCHOR-MISSING/%s/loop" % fnb.key, "read_nonempty_block_with no longer loops on read_frame_into(..).is_some()", fnb.loc())
        else:
            reach = C.reachable(fnb, 0, removed_edges={(sb, tt) for sb, tt, ft in sws})
            bad = None
            for bi in sorted(reach):
                blk = fnb.blocks[bi]
                if blk.get("cu"):
                    continue
                for st in blk["s"]:
                    if st[0] == "=" and st[1][0] == 0 and not st[1][1] and st[2][0] == "agg" and st[2][3] == "Ok":
                        v = C.eval_const(fnb, st[2][4][0]) if st[2][4] else None
                        if v != 0:
                            bad = bi
            if bad is None:
                ctx.ok("C13.R6", fnb.key + " :: Ok(n > 0) only after a frame was read in this call", "the end-of-stream exit returns the constant 0", fnb.loc())
            else:
                ctx.violation("C13.R6", "C13.R6/stale-length-at-eof/" + fnb.key,
                              "read_nonempty_block_with returns a non-constant length on the path where no frame was read (end of stream): the "
                              "direct-read path reports the PREVIOUS block's length as bytes produced without writing them, on every call",
                              fnb.loc(bad))

    ctx.rule("C13.R7", "a truncated text stream ends the scan: every loop around fill_buf has an exit controlled by the emptiness of the window "
                       "(then EOF or an error is reported, never an endless consume(0) loop)")
    from .. import a5
    a5.fill_loop_eof_rule(ctx, "C13.R7", 15)

    ctx.rule("C13.R2", "A4 a torn block cannot pass as data: BGZF and CRAM integrity guards (re-decided)")
    FR = "noodles_bgzf::io::reader::frame::"
    R.integrity_guard(ctx, "C13.R2", FR + "inflate", r"noodles_bgzf::deflate::crc32$", "BGZF CRC32 of inflated data == trailer CRC32")
    R.bound_guard(ctx, "C13.R2", FR + "parse_trailer", "ISIZE <= BGZF_MAX_ISIZE",
                  lambda fn, ops, kind: any(R.const_operand_is(o, keys={"noodles_bgzf::BGZF_MAX_ISIZE"}) for o in ops))
    f = ctx.anchor("C13.R2", FR + "read_frame_into")
    if f is not None:
        # EOF (Ok(None)) only when the 18 header bytes could not be read at all; the body is read_exact
        rx = R.find_calls(f, r"Read::read_exact$")
        if len(rx) >= 2:
            ctx.ok("C13.R2", f.key + " reads header and body with read_exact", "", f.loc())
        else:
            ctx.violation("C13.R2", "C13.R2/frame-read/" + f.key, "read_frame_into no longer reads header and body with read_exact", f.loc())
    R.integrity_guard(ctx, "C13.R2", "noodles_cram::io::reader::container::block::read_block",
                      r"cram::io::reader::container::block::crc32$", "CRAM block CRC32")
    for key in ("noodles_cram::io::reader::container::header::read_header_inner",
                "noodles_cram::r#async::io::reader::container::header::read_header_inner"):
        R.integrity_guard(ctx, "C13.R2", key, r"flate2::crc::Crc::sum$", "CRAM container header CRC32")

    ctx.rule("C13.R3", "CRAM: read_container returns 0 only via is_eof on a CRC-verified header; body via read_exact")
    for key in ("noodles_cram::io::reader::container::header::read_header_inner",
                "noodles_cram::r#async::io::reader::container::header::read_header_inner"):
        f = ctx.body("C13.R3", key)
        if f is None:
            continue
        sw = R.switch_on_call(f, r"io::reader::container::header::is_eof$")
        zero_exits = []
        for bi, blk in enumerate(f.blocks):
            for st in blk["s"]:
                if st[0] == "=" and st[2][0] == "agg" and st[2][2].endswith("result::Result") and st[2][3] == "Ok" and st[2][4]:
                    if C.eval_const(f, st[2][4][0]) == 0:
                        zero_exits.append(bi)
        if len(sw) != 1 or not zero_exits:
            ctx.violation("C13.R3", "C13.R3/eof-shape/" + key, "%s: is_eof test or the Ok(0) exit not found" % key, f.loc())
            continue
        sb, tt, ft, _c = sw[0]
        reach = C.reachable(f, 0, removed_edges={(sb, tt)})
        if any(z in reach for z in zero_exits):
            ctx.violation("C13.R3", "C13.R3/eof-bypass/" + key, "%s can return Ok(0) (end of file) without is_eof() being true" % key, f.loc())
        else:
            # is_eof is evaluated after the CRC comparison
            crc = [b for b, kind, ops, eq_t, ne_t in R._cmp_switches(f) if kind in ("Eq", "Ne") and
                   any(R.derives_from_call(f, o, R.mk_pred(r"flate2::crc::Crc::sum$")) for o in ops)]
            if crc and all(C.dominates(f, c, sb) for c in crc):
                ctx.ok("C13.R3", key + " :: Ok(0) only on the is_eof() edge, which the CRC comparison dominates", "", f.loc())
            else:
                ctx.violation("C13.R3", "C13.R3/eof-before-crc/" + key, "%s evaluates is_eof() before the header CRC was verified" % key, f.loc())
    for key in ("noodles_cram::io::reader::container::read_container", "noodles_cram::r#async::io::reader::container::read_container"):
        f = ctx.body("C13.R3", key)
        if f is not None:
            rx_calls = {b for b, c in R.find_calls(f, r"::read_exact$")}
            if rx_calls:
                ctx.ok("C13.R3", key + " reads the container body with read_exact", "", f.loc())
            else:
                ctx.violation("C13.R3", "C13.R3/body-read/" + key, "%s no longer reads the container body with read_exact" % key, f.loc())
            # every exit passes a read_exact: also the EOF container is only complete with its body (defect F37: a file cut
            # inside the last 15 bytes was read as complete)
            ex = C.success_exit_blocks(f)
            around = [e for e in ex if e in C.reachable(f, 0, removed=rx_calls)]
            if rx_calls and around:
                ctx.violation("C13.R3", "C13.R3/eof-body-not-read/" + key,
                              "%s can report success (the end-of-file container included) without a read_exact of the container body: a file "
                              "that ends inside its EOF container is read as complete" % key, f.loc(around[0]))
            elif rx_calls:
                ctx.ok("C13.R3", key + " :: every success exit (EOF container included) passes a read_exact of the body", "", f.loc())

    ctx.rule("C13.R4", "index readers: no raw read(); counts converted with try_from")
    raw = [s for s in a5.raw_io_sites(fb, a5.RAW_READ) if INDEX_READERS.search(s["fn"])]
    for s in raw:
        f = fb.fns[s["fn"]]
        if s["class"] != "delegation":
            ctx.violation("C13.R4", "C13.R4/raw-read/" + s["fn"], "index reader %s calls raw read(): a short read is not detected as truncation" % s["fn"], f.loc(s["block"]))
    nfun = ncount = 0
    for k, f in sorted(fb.fns.items()):
        if not INDEX_READERS.search(k) or f.is_closure:
            continue
        nfun += 1
        ctx.saw_fn(f)
        # a signed count read from the file that sizes a loop / allocation must go through try_from
        reads_signed = [c for g in fb.family(k) for b, c in g.calls() if re.search(r"read_i32_le$|read_i64_le$", c.get("f") or "")]
        if not reads_signed:
            continue
        ncount += 1
        tf = [c for g in fb.family(k) for b, c in g.calls() if re.search(r"TryFrom<i(32|64)> for \w+>::try_from$", c.get("f") or "")]
        casts = [st for g in fb.family(k) for blk in g.blocks for st in blk["s"]
                 if st[0] == "=" and st[2][0] == "cast" and st[2][1] == "IntToInt" and st[2][3] in ("i32", "i64") and st[2][4] in ("usize", "u64", "u32")
                 and C.eval_const(g, st[2][2]) is None]
        if casts:
            ctx.violation("C13.R4", "C13.R4/signed-count-cast/" + k,
                          "%s converts a signed count from the file with `as`: a negative count becomes a huge length" % k, f.loc())
        elif tf:
            ctx.ok("C13.R4", k, "signed count(s) converted with try_from", f.loc())
        else:
            ctx.ok("C13.R4", k, "signed value read but not used as a count (no conversion)", f.loc())
    ctx.floor("C13.R4", "index reader functions", nfun, 60)
    ctx.floor("C13.R4", "index reader functions reading a signed count", ncount, 15)
    ctx.ok("C13.R4", "raw read() sites in index readers", "%d (all delegation)" % len(raw))

    ctx.rule("C13.R8", "A5a a read error inside an iterator chain reaches the caller: no reader uses a Result as an iterator "
                       "(`flat_map(|_| read())`, `result.into_iter()`: Err yields no item, so a cut-off list reads back shorter and Ok)")
    n8 = 0
    for d8 in a5.discards(fb):
        if "used as an iterator" not in d8["how"]:
            continue
        n8 += 1
        f8 = fb.fns[d8["fn"]]
        ctx.saw_fn(f8)
        ctx.violation("C13.R8", "C13.R8/result-as-iterator/%s" % f8.root,
                      "%s feeds a fallible read through %s: when the stream ends inside the list the error yields no item instead of "
                      "ending the read — a truncated file reads back as a shorter structure and Ok" % (f8.root, d8["callee"].split("::")[-1]), f8.loc(d8["block"]))
    if not n8:
        ctx.ok("C13.R8", "no Result-as-iterator site in the workspace", "flat_map / into_iter over a Result: 0 sites (the matcher shares C14.R1's scan of every Result-returning call site)")

    ctx.rule("C13.R5", "the only io::Result matches turning an error into success are the tabled EOF conversions")
    from .c14 import ERR_TO_OK_TABLE
    for s in a5.err_to_ok(fb):
        if a5.result_err_ty(s["ty"]) != "std::io::error::Error":
            continue
        f = fb.fns[s["fn"]]
        if s["fn"] in ERR_TO_OK_TABLE:
            ctx.ok("C13.R5", s["fn"], "tabled: " + ERR_TO_OK_TABLE[s["fn"]], f.loc(s["block"]))
        else:
            ctx.violation("C13.R5", "C13.R5/err-swallowed/" + s["fn"],
                          "%s turns an io::Error into a success path: a truncated stream could read as a clean end" % s["fn"], f.loc(s["block"]))

    ctx.rule("C13.R9", "read_exact contract: every success exit of a hand-written read_exact (BGZF reader, multithreaded reader, "
                       "default_read_exact) is reached only through a test that the WHOLE buffer was filled or a read_exact delegation; "
                       "'at least one byte' is the contract of read, and at the end of a cut file it reports a partly filled buffer as read")
    a5.read_exact_contract_rule(ctx, "C13.R9", 3)

    ctx.rule("C13.R10", "a block that failed to parse is never served: on the Err edge of the block parser the single-threaded BGZF reader empties "
                        "the block (Data::resize(0)) and advances its running position over the consumed frame before it returns the error — "
                        "otherwise the next read hands out the rejected bytes and every later virtual position is too small (genuine defect "
                        "F63, repaired)")
    f10 = ctx.anchor("C13.R10", "noodles_bgzf::io::reader::Reader::<R>::read_nonempty_block_with")
    if f10 is not None:
        ctx.saw_fn(f10)
        done = False
        for b10, c10 in f10.calls():
            if not re.search(r"ops::function::FnMut::call_mut$", c10.get("f") or ""):
                continue
            nxt = c10.get("t")
            t10 = f10.blocks[nxt]["t"] if nxt is not None else None
            # `f(..)?`: the result goes through Try::branch first (Break = the error edge)
            if t10 and t10[0] == "call" and (t10[1].get("f") or "").endswith("Try>::branch") and t10[1].get("t") is not None:
                t10 = f10.blocks[t10[1]["t"]]["t"]
            if not t10 or t10[0] != "sw":
                continue
            vals = dict((v, tg) for v, tg in t10[2])
            err_t = vals.get(1, t10[3])
            resets = {b for b, c in f10.calls() if re.search(r"io::block::data::Data::resize$", c.get("f") or "") and len(c["args"]) >= 2
                      and C.eval_const(f10, c["args"][1]) == 0}
            moves = {bi for bi, blk in enumerate(f10.blocks) if not blk.get("cu") for st in blk["s"]
                     if st[0] == "=" and any(isinstance(p_, list) and p_[0] == "f" and p_[2] == "position" for p_ in st[1][1])}
            rets = set(C.return_blocks(f10))
            open1 = C.reachable(f10, err_t, removed=resets) & rets if err_t not in resets else set()
            open2 = C.reachable(f10, err_t, removed=moves) & rets if err_t not in moves else set()
            done = True
            if not open1 and not open2:
                ctx.ok("C13.R10", f10.key, "the Err edge of the block parser passes resize(0) and the position update", f10.loc(b10))
            else:
                ctx.violation("C13.R10", "C13.R10/rejected-block-served/" + f10.key,
                              "read_nonempty_block_with returns the block parser's error without %s: after a CRC mismatch the next read serves "
                              "the rejected block's bytes / later virtual positions are too small by the frame's size" % (
                                  "emptying the block" if open1 else "advancing its position over the frame"), f10.loc(b10))
        if not done:
            ctx.violation("C13.R10", "C13.R10/ANCHOR-MISSING/read_nonempty_block_with/parser-call", "no call of the block parser closure found", f10.loc())

    ctx.rule("C13.R11", "index readers decode fixed-size entries from whole entries only: no `chunks(n)` (whose last chunk may be short) feeding a "
                        "fixed-width decode in the index readers — a file cut inside an entry must be an error, not a panic in split_at / "
                        "try_into().unwrap(); `chunks_exact` (remainder checked or ignored) is the positive control of the scanner")
    n11, ex11 = 0, 0
    for k11, f11 in sorted(fb.fns.items()):
        if not f11.blocks or not k11.startswith(("noodles_", "<noodles_")):
            continue
        for b11, c11 in f11.calls():
            fk11 = c11.get("f") or ""
            if re.search(r"slice::<impl \[T\]>::(chunks_exact|as_chunks)$", fk11):
                ex11 += 1
            if re.search(r"slice::<impl \[T\]>::chunks$", fk11) and INDEX_READERS.search(f11.root):
                n11 += 1
                ctx.saw_fn(f11)
                ctx.violation("C13.R11", "C13.R11/short-last-chunk/" + f11.root,
                              "%s splits the bytes it read with chunks(n): when the file ends inside an entry the last chunk is short and the "
                              "fixed-width decode that follows panics instead of reporting the truncation" % f11.root, f11.loc(b11))
    if not n11:
        ctx.ok("C13.R11", "no chunks(n) in the index readers", "%d chunks_exact / as_chunks site(s) seen in the workspace" % ex11)
    ctx.floor("C13.R11", "chunks_exact / as_chunks sites seen (positive control)", ex11, 3)
