"""C05 — BAM record encode/decode inverse; lazy = eager: structural clauses (DESIGN.md §5 C05)."""
import re

from .. import a4
from .. import a7
from .. import cfg as C
from .. import rules as R

EXPLANATION = (
    "Decides structural necessary conditions of the BAM record codec: (R1) no silent truncation — every non-constant "
    "narrowing `as` cast in the encoder / writer closure is either proven in range by the interval domain (value ranges "
    "of the defining expression and dominating comparisons) or is in the confirmed table with a reason; (R2) length / "
    "count / coordinate conversions go through try_from and the unwrap/expect inventory of the encoder is frozen; (R3) "
    "CIGAR overflow pairing: encode() passes data::field::write_cigar (CG tag) whenever the op count overflowed, decode() "
    "passes cigar::resolve, the lazy RecordRef::cigar reaches get_raw_cigar, and the placeholder constants agree; (R4) the "
    "only writers of the pub(crate) raw buffer Record.0 are the two validating read_record paths and tabled constructors, "
    "so every RecordRef::new_unchecked consumer sees a validated buffer; (R6) dec∘enc = id exhaustively for the CIGAR "
    "kind, aux type and array subtype tables (match-arm tables from type-checked HIR), missing-value sentinels agree; "
    "(R7) reg2bin geometry constants (shifts 14..26 step 3, offsets ((1<<k)-1)/7) and UNMAPPED_BIN = 4680."
    " (R8) reused destination: every entry->Ok path of the eager decoder overwrites or clears each of the twelve RecordBuf columns (whole-object store, clear, or a callee that definitely resets its parameter), so a record decoded into a reused buffer carries nothing of the previous one."
    " (R9) record framing on the read path: the block_size prefix loop advances (never overwrites) its cursor and returns Ok only when nothing or everything was read."
    " (R10) writer scratch buffer: the BAM writers clear their record buffer on every path before the encoder fills it, so the block written is exactly this record. (R11) the overflow-CIGAR placeholder length and l_seq both derive from Sequence::len(). (R12) the lazy base iterator takes the trailing padding nibble from the window's end parity (genuine defect F58, repaired).")
ASSUMPTIONS = ["interval reasoning is dominance-based, not path-sensitive; what it cannot prove is tabled with a reason",
               "match tables are read from type-checked HIR patterns; values computed by arithmetic are out of reach"]
NOT_DECIDED = ["whole-record equality over all field values", "aux value range boundaries, 4-bit base packing for odd lengths (unit-test territory)",
               "reg2bin correctness beyond its constants", "equality of lazy accessors and eager decode on values"]

B = "noodles_bam::"
ENC_SCOPE = re.compile(r"^<?noodles_bam::(record::codec::encoder|io::writer|r#async::io::writer|bai::io::writer|bai::r#async::io::writer)")

CAST_TABLE = {
    (B + "record::codec::encoder::bin::region_to_bin", "usize", "u16"):
        "spec-sanctioned truncation: bins of coordinates >= 2^29 do not fit (the property itself restricts reg2bin to < 2^29)",
    (B + "record::codec::encoder::cigar::op::encode_op", "usize", "u32"):
        "op.len() <= MAX_LENGTH = 2^28-1 is tested on the branch (two calls of the pure accessor, so dominance on one local cannot see it)",
    (B + "record::codec::encoder::sequence::build_codes", "usize", "u8"):
        "loop index over the 16-entry base table",
    (B + "record::codec::encoder::num::write_i8", "i8", "u8"): "bit reinterpretation of a signed byte for writing",
}


def run(ctx):
    fb = ctx.fb
    # ---------------------------------------------------------------- R1 narrowing casts
    ctx.rule("C05.R1", "A4 no silent truncation: narrowing casts in the BAM encoder/writer closure proven in range or tabled")
    n = 0
    for s in a4.narrowing_casts(fb, lambda k, f: bool(ENC_SCOPE.search(k))):
        n += 1
        f = fb.fns[s["fn"]]
        ctx.saw_fn(f)
        key = (s["root"], s["frm"], s["to"])
        if s["discharged"]:
            ctx.ok("C05.R1", "%s %s->%s" % key, "proven: " + s["discharged"], "%s:%d" % (f.file, s["line"]))
        elif key in CAST_TABLE:
            ctx.ok("C05.R1", "%s %s->%s" % key, "tabled: " + CAST_TABLE[key], "%s:%d" % (f.file, s["line"]))
        else:
            ctx.violation("C05.R1", "C05.R1/narrowing-cast/%s/%s->%s" % key,
                          "%s casts %s to %s with `as` and neither the value range nor a dominating guard proves it fits: a length, "
                          "count or coordinate that does not fit is silently truncated instead of rejected" % key, "%s:%d" % (f.file, s["line"]))
    ctx.floor("C05.R1", "narrowing casts in the encoder closure", n, 4)

    # ---------------------------------------------------------------- R2 checked conversions
    ctx.rule("C05.R2", "lengths/counts converted by try_from; unwrap/expect inventory of the encoder frozen")
    need_try = {
        B + "record::codec::encoder::name::write_length": "u8",
        B + "record::codec::encoder::sequence::write_length": "u32",
        B + "record::codec::encoder::cigar::overflowing_write_cigar_op_count": "u16",
        B + "record::codec::encoder::position::write_position": "i32",
        B + "record::codec::encoder::reference_sequence_id::write_reference_sequence_id": "i32",
        "<noodles_bam::io::writer::Writer<W> as noodles_sam::alignment::io::write::Write>::write_alignment_record": "u32",
    }
    for key, ty in need_try.items():
        f = ctx.anchor("C05.R2", key)
        if f is None:
            continue
        tf = [c for g in fb.family(key) for b, c in g.calls() if re.search(r"TryFrom<\w+> for %s>::try_from$" % ty, c.get("f") or "")]
        if tf:
            ctx.ok("C05.R2", "%s converts through %s::try_from" % (key, ty), "", f.loc())
        else:
            ctx.violation("C05.R2", "C05.R2/no-try_from/" + key, "%s no longer converts its length/count/coordinate through %s::try_from" % (key, ty), f.loc())
    unw = {}
    for k, f in fb.fns.items():
        if ENC_SCOPE.search(k):
            for b, c in f.calls():
                if re.search(r"(option::Option::<T>::(unwrap|expect)|result::Result::<T, E>::(unwrap|expect))$", c.get("f") or ""):
                    unw[f.root] = unw.get(f.root, 0) + 1
    UNWRAP_TABLE = {
        # count, reason
        B + "record::codec::encoder::data::validate": 2,   # split_off(..=i).unwrap() with i = memchr(..) < src.len() (Z and H values)
    }
    for root, cnt in sorted(unw.items()):
        if cnt > UNWRAP_TABLE.get(root, 0):
            ctx.violation("C05.R2", "C05.R2/unwrap/" + root,
                          "%s has %d unwrap/expect call(s) in the encoder closure (table: %d): a conversion failure would panic instead of being rejected with an error" % (
                              root, cnt, UNWRAP_TABLE.get(root, 0)), fb.fns[root].loc())
    ctx.ok("C05.R2", "unwrap/expect sites in the encoder closure", "%d (table %d)" % (sum(unw.values()), sum(UNWRAP_TABLE.values())))

    # ---------------------------------------------------------------- R3 CIGAR overflow pairing
    ctx.rule("C05.R3", "A3 pairing: CG-tag convention on encode, resolve on decode, get_raw_cigar in the lazy view; placeholder constants agree")
    fe = ctx.anchor("C05.R3", B + "record::codec::encoder::encode")
    if fe is not None:
        # the Option returned by overflowing_write_cigar_op_count: on its Some edge the success exit passes data::field::write_cigar
        sw = R.switch_on_call(fe, r"option::Option::<T>::is_some$")
        if len(sw) != 1:
            ctx.violation("C05.R3", "C05.R3/encode-guard/" + fe.key, "encode() no longer tests `cigar.is_some()` exactly once before the CG tag", fe.loc())
        else:
            sb, tt, ft, c = sw[0]
            R.must_pass(ctx, "C05.R3", fe.key, r"encoder::data::field::write_cigar$", "encode() writes the CG tag when the op count overflowed",
                        only_if_edge=tt, fn=fe)
            # exactly one CG field: on the overflow edge the record's data goes through the CG-filtering generic writer, never through the
            # raw copy of field-encoded data, which may already carry the carrier tag of a lazily read record (defect F44)
            appends = [b for b, c2 in R.find_calls(fe, r"encoder::data::field::write_cigar$")]
            raws = [b for b, c2 in R.find_calls(fe, r"encoder::data::write_data$")]
            gens = [b for b, c2 in R.find_calls(fe, r"encoder::data::write_generic_data$")]
            dup = [a for a in appends if any(C.dominates(fe, r_, a) for r_ in raws) or not any(C.dominates(fe, g_, a) for g_ in gens)]
            if not appends:
                pass
            elif dup:
                ctx.violation("C05.R3", "C05.R3/cg-appended-after-raw-data/" + fe.key,
                              "encode() appends the CG field behind data written by write_data(): field-encoded data (a lazy bam::Record) is "
                              "copied verbatim, including the CG carrier it already has, so a record with more than 65535 CIGAR operations is "
                              "written with two CG fields and does not decode", fe.loc(dup[0]))
            else:
                ctx.ok("C05.R3", fe.key + " :: the CG append follows the CG-filtering generic data writer", "", fe.loc(appends[0]))
        R.must_pass(ctx, "C05.R3", fe.key, r"encoder::cigar::overflowing_write_cigar_op_count$", "encode() writes the op count through the overflow-aware helper", fn=fe)
    R.must_pass(ctx, "C05.R3", B + "record::codec::decoder::decode", r"decoder::cigar::resolve$", "decode() resolves the CG-tag placeholder")
    fl = ctx.anchor("C05.R3", B + "record_ref::RecordRef::<'a>::cigar")
    if fl is not None:
        if R.find_calls(fl, r"noodles_bam::record::data::get_raw_cigar$"):
            ctx.ok("C05.R3", fl.key + " consults get_raw_cigar for the placeholder", "", fl.loc())
        else:
            ctx.violation("C05.R3", "C05.R3/lazy-cigar/" + fl.key, "the lazy RecordRef::cigar no longer resolves the CG-tag placeholder", fl.loc())
    # one definition of aux-field framing on the read side: the CG lookup of the lazy view walks the aux data with the
    # decoder's own tag/type/value/array readers (a private re-implementation of the value widths drifts: 'Z' is
    # NUL-terminated, 'B' is counted)
    fg = ctx.anchor("C05.R3", B + "record::data::get_raw_cigar")
    if fg is not None:
        called = {(c.get("f") or "").split("::")[-1] for k2, g in fb.fns.items() if k2.startswith(fg.key) for b, c in g.calls()
                  if (c.get("f") or "").startswith("noodles_bam::record::data::field::")}
        need = {"decode_tag", "decode_type", "decode_value", "decode_raw_array", "decode_subtype"}
        if need <= called:
            ctx.ok("C05.R3", fg.key + " walks the aux data with the shared field readers", str(sorted(called)), fg.loc())
        else:
            ctx.violation("C05.R3", "C05.R3/private-aux-framing/" + fg.key,
                          "get_raw_cigar no longer advances over aux fields with the shared %s: a second definition of the value "
                          "framing can drift from the decoder's and the lazy CIGAR silently falls back to the placeholder" % sorted(need - called), fg.loc())
    R.const_rule(ctx, "C05.R3", "overflow op count placeholder",
                 {"n": B + "record::codec::encoder::cigar::overflowing_write_cigar_op_count::OVERFLOWING_OP_COUNT"},
                 lambda v: (v["n"] == 2, "n_cigar_op = 2 (kSmN)"), "SAMv1 §4.2.2")

    # ---------------------------------------------------------------- R4 raw buffer ownership
    ctx.rule("C05.R4", "A2 writers of the pub(crate) raw buffer Record.0; read paths validate (C15.G)")
    R.writer_set_rule(ctx, "C05.R4", B + "record::Record", "0", {
        B + "io::reader::Reader::<R>::read_record": "fills the buffer through io::reader::record::read_record, which validates",
        B + "r#async::io::reader::Reader::<R>::read_record": "async twin, validates",
        "<noodles_bam::record::Record as core::default::Default>::default": "canonical empty record constant (valid by construction)",
        "<noodles_bam::record::Record as core::convert::TryFrom<alloc::vec::Vec<u8>>>::try_from": "validating conversion",
        B + "record::Record::fields_mut": "pub(crate) accessor used by the readers",
    }, "raw BAM record buffer written only by validating paths")
    for key in (B + "io::reader::record::read_record", B + "r#async::io::reader::record::read_record"):
        R.must_pass(ctx, "C05.R4", key, r"noodles_bam::io::reader::record::validate$", "read_record validates after reading the body",
                    start_after=lambda c: (c.get("f") or "").endswith("::read_exact"))

    # ---------------------------------------------------------------- R5 validate bounds what the lazy accessors slice
    validate_formula_rule(ctx, "C05.R5")

    # ---------------------------------------------------------------- R6 tables
    ctx.rule("C05.R8", "A3 reused buffer: every success path of the BAM record decoder overwrites or clears each column of the destination RecordBuf")
    R.reused_buffer_rule(ctx, "C05.R8", "noodles_bam::record::codec::decoder::decode", "record_buf::RecordBuf::",
                         ["reference_sequence_id_mut", "alignment_start_mut", "mapping_quality_mut", "flags_mut", "mate_reference_sequence_id_mut",
                          "mate_alignment_start_mut", "template_length_mut", "name_mut", "cigar_mut", "sequence_mut", "quality_scores_mut", "data_mut"])

    ctx.rule("C05.R9", "A5e record framing on the read path: the 4-byte block_size prefix is read by a loop that advances its cursor and returns Ok "
                       "only when nothing or everything was read (shared with C12.R4 / C13.R1)")
    from . import c12
    for key in ("noodles_bam::io::reader::record::read_exact_or_eof", "noodles_bam::r#async::io::reader::record::read_exact_or_eof"):
        f9 = ctx.body("C05.R9", key)
        if f9 is not None:
            c12.eof_or_partial(ctx, "C05.R9", f9, allow_zero=True)

    ctx.rule("C05.R10", "A10 writer scratch buffer: the BAM writers (sync, async) clear their record buffer on every path before the encoder "
                        "fills it, so that the block written is exactly this record (a rejected record leaves partial output behind)")
    from .. import a10
    a10.scratch_buffer_rule(ctx, "C05.R10", r"^<?noodles_bam::", 2)

    ctx.rule("C05.R11", "A7 the overflow-CIGAR placeholder `kSmN` carries k = l_seq: encode() hands overflowing_write_cigar_op_count the same "
                        "Sequence::len() it writes as l_seq (both decoders recognise the placeholder only when k equals l_seq); the CIGAR's read "
                        "length differs from it whenever SEQ is `*` or the CIGAR consumes no read base")
    fe11 = ctx.anchor("C05.R11", "noodles_bam::record::codec::encoder::encode")
    if fe11 is not None:
        ctx.saw_fn(fe11)
        ow = R.find_calls(fe11, r"encoder::cigar::overflowing_write_cigar_op_count$")
        wl = R.find_calls(fe11, r"encoder::sequence::write_length$")
        is_len = R.mk_pred(r"alignment::record::sequence::Sequence::len$")
        if not ow or not wl:
            ctx.violation("C05.R11", "C05.R11/ANCHOR-MISSING/encode/calls", "encode() no longer calls overflowing_write_cigar_op_count / sequence::write_length", fe11.loc())
        else:
            for b11, c11 in ow:
                a_ok = len(c11["args"]) >= 2 and R.derives_from_call(fe11, c11["args"][1], is_len) and \
                    not R.derives_from_call(fe11, c11["args"][1], R.mk_pred(r"Cigar::read_length$"))
                l_ok = any(len(c["args"]) >= 2 and R.derives_from_call(fe11, c["args"][1], is_len) for _b, c in wl)
                if a_ok and l_ok:
                    ctx.ok("C05.R11", fe11.key, "placeholder length and l_seq both come from Sequence::len()", fe11.loc(b11))
                else:
                    ctx.violation("C05.R11", "C05.R11/placeholder-length-not-l_seq/" + fe11.key,
                                  "encode() gives overflowing_write_cigar_op_count a length that does not come from Sequence::len() (the value "
                                  "written as l_seq): a record with more than 65535 CIGAR operations and SEQ `*` (or a CIGAR without read "
                                  "bases) is written with a placeholder neither decoder recognises", fe11.loc(b11))

    ctx.rule("C05.R12", "lazy sequence windows: bam::record::sequence::Iter::new decides whether the last byte of a window holds a base past the "
                        "window from the window's END offset (its parity), never from the length of the whole packed buffer — the halves of "
                        "Sequence::split_at_checked share the buffer (genuine defect F58, repaired)")
    f12 = ctx.anchor("C05.R12", "noodles_bam::record::sequence::iter::Iter::<'a>::new")
    if f12 is not None:
        ctx.saw_fn(f12)
        backs = [b for b, c in R.find_calls(f12, r"sequence::iter::discard_back_decoded_bases$")]
        # closures: the discard happens inside `.map(|&n| ..)`; the guard is the switch that dominates the next_back() call
        nb = [b for b, c in R.find_calls(f12, r"DoubleEndedIterator>?::next_back$")]
        if not nb:
            ctx.violation("C05.R12", "C05.R12/ANCHOR-MISSING/Iter::new/next_back", "Iter::new no longer takes a trailing byte with next_back()", f12.loc())
        for b12 in nb:
            guards = [g for g in C.dom_chain(f12, b12) if f12.blocks[g]["t"][0] == "sw" and g != b12]
            # the nearest dominating test decides; it reads `end` and does not read the buffer
            near = max(guards, key=lambda g: len(C.dom_chain(f12, g))) if guards else None
            from_end = near is not None and R.derives_from_local(f12, f12.blocks[near]["t"][1], 3, through_calls=True)
            from_buf = near is not None and R.derives_from_local(f12, f12.blocks[near]["t"][1], 1, through_calls=True)
            if from_end and not from_buf:
                ctx.ok("C05.R12", f12.key, "the trailing byte is split off behind a test of `end`", f12.loc(b12))
            else:
                ctx.violation("C05.R12", "C05.R12/padding-from-buffer-length/" + f12.key,
                              "Iter::new takes the trailing padding nibble behind a test that does not derive from the window's end (or derives "
                              "from the buffer alone): a window that is not the whole read iterates with its last base missing", f12.loc(b12))

    ctx.rule("C05.R6", "A7 dec∘enc = id exhaustively for CIGAR kind / aux type / array subtype tables; sentinels agree")
    a7.table_agreement(ctx, "C05.R6", {"noodles_bam"}, 3)
    R.const_rule(ctx, "C05.R6", "UNMAPPED_BIN", {"b": B + "record::codec::encoder::bin::UNMAPPED_BIN"},
                 lambda v: (v["b"] == 4680, "reg2bin(-1, 0) = 4680"), "SAMv1 §4.2.1")

    # ---------------------------------------------------------------- R7 reg2bin geometry
    ctx.rule("C05.R7", "A8 region_to_bin level shifts and offsets form the (14,5) geometry")
    f = ctx.anchor("C05.R7", B + "record::codec::encoder::bin::region_to_bin")
    if f is not None:
        shifts = []
        offsets = []
        for blk in f.blocks:
            for st in blk["s"]:
                if st[0] == "=" and st[2][0] == "bin":
                    if st[2][1] in ("Shr", "ShrUnchecked"):
                        v = C.eval_const(f, st[2][3])
                        if v is not None:
                            shifts.append(v)
                    if st[2][1] in ("Add", "AddWithOverflow"):
                        v = C.eval_const(f, st[2][2])
                        if v is not None and v > 0:
                            offsets.append(v)
        want_shifts = {14, 17, 20, 23, 26}
        want_offsets = {4681, 585, 73, 9, 1}
        if set(shifts) == want_shifts and want_offsets <= set(offsets):
            ctx.ok("C05.R7", "shifts %s, offsets %s" % (sorted(set(shifts)), sorted(want_offsets)), "", f.loc())
        else:
            ctx.violation("C05.R7", "C05.R7/geometry/" + f.key,
                          "reg2bin constants differ from SAMv1 §5.3: shifts %s (want %s), offsets %s (want ⊇ %s)" % (
                              sorted(set(shifts)), sorted(want_shifts), sorted(set(offsets)), sorted(want_offsets)), f.loc())


def _formula_tokens(fb, key):
    out = set()
    for g in fb.family(key):
        for blk in g.blocks:
            t = blk["t"]
            if t[0] == "call":
                k = t[1].get("f") or ""
                if k.split("::")[-1] in ("div_ceil", "size_of"):
                    out.add(k.split("::")[-1] + ":" + (t[1].get("ga") or ""))
    return out


def validate_formula_rule(ctx, rule):
    """validate()'s size formula contains every term the lazy slicers of the raw BAM record use (shared with C15.G)."""
    fb = ctx.fb
    ctx.rule(rule, "A7 sibling agreement: validate()'s size formula contains every term the lazy slicers use (4*n_cigar, ceil(l_seq/2))")
    fv = ctx.anchor(rule, B + "io::reader::record::validate")
    if fv is not None:
        vt = _formula_tokens(fb, fv.key)
        slicers = [k for k in fb.fns if k.startswith(B + "record_ref::RecordRef::<'a>::raw_") or k == B + "record_ref::RecordRef::<'a>::cigar"]
        ctx.floor(rule, "lazy slicers of the raw record", len(slicers), 4)
        need = set()
        for k in slicers:
            ctx.saw_fn(fb.fns[k])
            need |= _formula_tokens(fb, k)
        missing = need - vt
        if missing:
            ctx.violation(rule, rule + "/validate-formula/" + fv.key,
                          "validate() no longer accounts for %s although the lazy accessors slice with it: a record that passes validation "
                          "can make an accessor slice out of range" % sorted(missing), fv.loc())
        else:
            ctx.ok(rule, "validate() formula ⊇ slicer terms %s" % sorted(need), "", fv.loc())
        R.const_rule(ctx, rule, "fixed-size prefix", {"m": B + "io::reader::record::validate::MIN_BUF_LENGTH"},
                     lambda v: (v["m"] == 32, "32 bytes before the read name"), "SAMv1 §4.2")

