"""C01 — BGZF write/read identity and well-formed members: structural clauses (DESIGN.md §5 C01)."""
import re

from .. import cfg as C
from .. import rules as R

EXPLANATION = (
    "Decides the structural necessary conditions of C01 on the MIR of noodles-bgzf: (R1) the BGZF/gzip "
    "constants and the block-size budget relation against SAMv1 §4.1 using rustc's own constant evaluation; "
    "(R2) who may write the staging buffer and that the copied length is min(remaining, len); (R4) BSIZE/ISIZE "
    "reach the sink only through checked try_from conversions; (R5) finalisation: finish/try_finish/Drop/flush "
    "pass flush_block, write_frame and the 28-byte EOF marker on every success path (must-pass-through on the CFG "
    "with wrapper summaries); (R6) the reader's integrity guards: CRC32 equality, ISIZE bound, header validity and "
    "minimum frame size dominate every success exit; (R7) reader and writer agree on the header constants. "
    "It does not run the code and does not decide payload equality."
    " (R8) last writer: the direct-read fast path parse_block_into_buf leaves the block cursor at the end of the block — after any other write of Data.pos every success path passes set_position(isize)."
    " (R9) async writer: the staged block split off the buffer in poll_flush is handed to the sink before any Poll::Pending return (a Pending after the split drops the local: payload lost, file still well-formed)."
    " R5 also requires the Drop of the multithreaded writer to pass a call whose every success path flushes the staging buffer. (R10) raw write / poll_write in the BGZF writers only as a delegation or inside an advance loop (the EOF marker too).")
ASSUMPTIONS = [
    "zlib-rs deflate/inflate are inverse and a stored (level 0) block costs at most 10 bytes for <= 65535 input bytes (the code comment's own statement)",
    "std::io::Write::write_all / Read::read_exact semantics",
    "facts come from cargo +nightly check of the workspace with all async features (cfg D); cfg L (libdeflate) only in the thorough tier",
]
NOT_DECIDED = [
    "byte equality of the round trip over payload x call sequence x compression level",
    "CRC32/ISIZE value correctness (library trusted)",
    "that an independent gzip implementation inflates the output",
]
USES_CFG_L = True

W = "noodles_bgzf::io::writer::Writer::<W>::"
WIMPL = "<noodles_bgzf::io::writer::Writer<W> as std::io::Write>::"
FR = "noodles_bgzf::io::reader::frame::"
FW = "noodles_bgzf::io::writer::frame::"
EOF_SPEC = bytes.fromhex("1f8b08040000000000ff0600424302001b0003000000000000000000")


def run(ctx):
    fb = ctx.fb
    # ---------------------------------------------------------------- R1 constants (A8)
    ctx.rule("C01.R1", "A8 constant relations vs SAMv1 §4.1 (evaluated by rustc)")
    R.const_rule(ctx, "C01.R1", "BGZF_EOF == spec EOF marker", {"eof": "noodles_bgzf::io::writer::BGZF_EOF"},
                 lambda v: (v["eof"] == EOF_SPEC, "28-byte EOF marker"), "SAMv1 §4.1.2",
                 "a different marker is not recognised as EOF by htslib")
    R.const_rule(ctx, "C01.R1", "header/trailer sizes",
                 {"h": "noodles_bgzf::BGZF_HEADER_SIZE", "t": "noodles_bgzf::gz::TRAILER_SIZE",
                  "m": "noodles_bgzf::BGZF_MAX_ISIZE", "minf": FR + "MIN_FRAME_SIZE"},
                 lambda v: (v["h"] == 18 and v["t"] == 8 and v["m"] == 65536 and v["minf"] == 26,
                            "HEADER=18 TRAILER=8 MAX_ISIZE=65536 MIN_FRAME=26"), "SAMv1 §4.1")
    R.const_rule(ctx, "C01.R1", "block budget",
                 {"h": "noodles_bgzf::BGZF_HEADER_SIZE", "t": "noodles_bgzf::gz::TRAILER_SIZE",
                  "buf": "noodles_bgzf::io::writer::MAX_BUF_SIZE",
                  "ovh": "noodles_bgzf::io::writer::COMPRESSION_LEVEL_0_OVERHEAD"},
                 lambda v: (v["h"] + v["buf"] + v["ovh"] + v["t"] <= 65536 and v["ovh"] >= 10 and 0 < v["buf"] <= 65535,
                            "HEADER + MAX_BUF_SIZE + LEVEL0_OVERHEAD + TRAILER <= 65536, OVERHEAD >= 10, MAX_BUF_SIZE <= 65535"),
                 "SAMv1 §4.1 (BSIZE is u16: total block size <= 65536)",
                 "otherwise MAX_BUF_SIZE incompressible bytes cannot be framed and the write fails or panics")
    if "noodles_bgzf::deflate::encode::MAX_COMPRESSED_SIZE" in fb.consts:
        R.const_rule(ctx, "C01.R1", "deflate budget",
                     {"mc": "noodles_bgzf::deflate::encode::MAX_COMPRESSED_SIZE",
                      "buf": "noodles_bgzf::io::writer::MAX_BUF_SIZE",
                      "ovh": "noodles_bgzf::io::writer::COMPRESSION_LEVEL_0_OVERHEAD"},
                     lambda v: (v["mc"] == v["buf"] + v["ovh"] and v["mc"] <= 65536 - 26,
                                "MAX_COMPRESSED_SIZE == MAX_BUF_SIZE + OVERHEAD <= 65536-26"), "SAMv1 §4.1")
    elif ctx.cfg == "L":
        ctx.ok("C01.R1", "deflate budget [libdeflate]", "not decided in cfg L: the libdeflate encoder has no MAX_COMPRESSED_SIZE; "
               "an over-budget block is the try_from error exit of write_frame (R4)")
    else:
        ctx.violation("C01.R1", "C01.R1/ANCHOR-MISSING/noodles_bgzf::deflate::encode::MAX_COMPRESSED_SIZE",
                      "constant MAX_COMPRESSED_SIZE not found")
    # the async codec and MT writer use the same header constants
    for mod in ("noodles_bgzf::io::writer::frame::write_header", "noodles_bgzf::r#async::block_codec::put_header"):
        R.const_rule(ctx, "C01.R1", "header field constants of %s" % mod.split("::")[-1],
                     {"flg": mod + "::BGZF_FLG", "xfl": mod + "::BGZF_XFL", "xlen": mod + "::BGZF_XLEN",
                      "si1": mod + "::BGZF_SI1", "si2": mod + "::BGZF_SI2", "slen": mod + "::BGZF_SLEN"},
                     lambda v: (v["flg"] == 4 and v["xfl"] == 0 and v["xlen"] == 6 and v["si1"] == 0x42 and
                                v["si2"] == 0x43 and v["slen"] == 2, "FLG=4 XFL=0 XLEN=6 SI=BC SLEN=2"), "SAMv1 §4.1")
    R.const_rule(ctx, "C01.R1", "gzip magic", {"m": "noodles_bgzf::gz::MAGIC_NUMBER"},
                 lambda v: (v["m"] == b"\x1f\x8b", "1f 8b"), "RFC 1952 §2.3.1")

    # ---------------------------------------------------------------- R7 reader/writer header agreement (A7)
    ctx.rule("C01.R7", "A7 reader is_valid_header constants equal what write_header emits and what BGZF_EOF contains")
    R.const_rule(ctx, "C01.R7", "reader header constants",
                 {"cm": FR + "is_valid_header::BGZF_CM", "flg": FR + "is_valid_header::BGZF_FLG",
                  "xlen": FR + "is_valid_header::BGZF_XLEN", "si": FR + "is_valid_header::BGZF_SI",
                  "slen": FR + "is_valid_header::BGZF_SLEN", "eof": "noodles_bgzf::io::writer::BGZF_EOF",
                  "wflg": FW + "write_header::BGZF_FLG", "wxlen": FW + "write_header::BGZF_XLEN",
                  "wsi1": FW + "write_header::BGZF_SI1", "wsi2": FW + "write_header::BGZF_SI2",
                  "wslen": FW + "write_header::BGZF_SLEN"},
                 lambda v: (v["cm"] == 8 and v["flg"] == v["wflg"] == v["eof"][3] and
                            v["xlen"] == v["wxlen"].to_bytes(2, "little") == v["eof"][10:12] and
                            v["si"] == bytes([v["wsi1"], v["wsi2"]]) == v["eof"][12:14] and
                            v["slen"] == v["wslen"].to_bytes(2, "little") == v["eof"][14:16] and v["eof"][2] == v["cm"],
                            "CM/FLG/XLEN/SI/SLEN agree between reader, writer and EOF marker"), "SAMv1 §4.1")
    f = ctx.anchor("C01.R7", FR + "is_valid_header")
    if f is not None:
        # every one of the six constants takes part in a comparison that all true-returns depend on
        want = [("noodles_bgzf::gz::MAGIC_NUMBER",), (FR + "is_valid_header::BGZF_CM",), (FR + "is_valid_header::BGZF_FLG",),
                (FR + "is_valid_header::BGZF_XLEN",), (FR + "is_valid_header::BGZF_SI",), (FR + "is_valid_header::BGZF_SLEN",)]
        _bool_conjunction(ctx, "C01.R7", f, [w[0] for w in want])

    # ---------------------------------------------------------------- R2 staging buffer (A2 + A4)
    ctx.rule("C01.R2", "A2 writers of the staging buffer; A4 copied length is min(remaining, buf.len())")
    R.writer_set_rule(ctx, "C01.R2", "noodles_bgzf::io::writer::Writer", "staging_buf", {
        WIMPL + "write": "extend by &buf[..amt], amt = remaining().min(buf.len())",
        W + "flush_block": "clear() after the block was written",
        "noodles_bgzf::io::writer::builder::Builder::build_from_writer": "constructor (Vec::with_capacity)",
    }, "staging buffer is only grown by write() and emptied by flush_block()")
    fw = ctx.anchor("C01.R2", WIMPL + "write")
    if fw is not None:
        _min_bounded_extend(ctx, "C01.R2", fw, W + "remaining")
    maxbuf = fb.const_val("noodles_bgzf::io::writer::MAX_BUF_SIZE")
    for key, kinds, side, what in ((W + "remaining", ("Sub", "SubWithOverflow"), 2, "remaining() = MAX_BUF_SIZE - staging_buf.len()"),
                                   (W + "has_remaining", ("Lt",), 3, "has_remaining() = len < MAX_BUF_SIZE")):
        f = ctx.anchor("C01.R2", key)
        if f is None:
            continue
        hits = [st for blk in f.blocks if not blk.get("cu") for st in blk["s"]
                if st[0] == "=" and st[2][0] == "bin" and st[2][1] in kinds and C.eval_const(f, st[2][side]) is not None]
        if hits and maxbuf is not None and all(C.eval_const(f, st[2][side]) == maxbuf for st in hits):
            ctx.ok("C01.R2", what, "budget operand evaluates to %s" % maxbuf, f.loc())
        else:
            ctx.violation("C01.R2", "C01.R2/budget/" + key, "%s: the budget operand is no longer exactly MAX_BUF_SIZE" % what, f.loc())

    # ---------------------------------------------------------------- R3 deflate::encode bound (A4)
    ctx.rule("C01.R3", "A4 deflate::encode: dst.truncate(n) only on the n <= MAX_COMPRESSED_SIZE edge")
    fe = ctx.anchor("C01.R3", "noodles_bgzf::deflate::encode")
    if fe is not None and fe.cfg == "D":
        def is_bound(fn, ops, kind):
            return any(R.const_operand_is(o, keys={"noodles_bgzf::deflate::encode::MAX_COMPRESSED_SIZE"}) for o in ops)
        R.bound_guard(ctx, "C01.R3", fe.key, "compressed size <= MAX_COMPRESSED_SIZE before Ok", is_bound, fn=fe)

    if fe is not None and fe.cfg == "L":
        # libdeflate variant: the output buffer is sized by the compressor's own bound
        rs = R.find_calls(fe, r"Vec::<T, A>::resize$")
        if rs and all(_at_least_call_result(fe, c["args"][1], r"deflate_compress_bound$") for b, c in rs):
            ctx.ok("C01.R3", "deflate::encode [libdeflate] sizes dst with deflate_compress_bound(src.len())", "", fe.loc())
        else:
            ctx.violation("C01.R3", "C01.R3/output-buffer/%s/libdeflate" % fe.key,
                          "the libdeflate encoder's output buffer is no longer at least deflate_compress_bound(src.len())", fe.loc())

    # the output buffer handed to the compressor holds at least compress_bound(src.len()) bytes: otherwise an
    # incompressible block ends with Status::Ok (buffer full) instead of StreamEnd and valid data is rejected
    if fe is not None and fe.cfg == "D":
        rs = R.find_calls(fe, r"Vec::<T, A>::resize$")
        cb = R.find_calls(fe, r"compress_bound$")
        if not rs or not cb:
            ctx.violation("C01.R3", "C01.R3/ANCHOR-MISSING/%s/compress_bound" % fe.key,
                          "deflate::encode no longer sizes its output with compress_bound()", fe.loc())
        else:
            ok = all(_at_least_call_result(fe, c["args"][1], r"compress_bound$") for b, c in rs)
            if ok:
                ctx.ok("C01.R3", "deflate::encode: dst.resize(n) with n >= compress_bound(src.len())", "", fe.loc())
            else:
                ctx.violation("C01.R3", "C01.R3/output-buffer/" + fe.key,
                              "deflate::encode sizes the compressor's output buffer with something that can be smaller than "
                              "compress_bound(src.len()): incompressible data then ends in Status::Ok and the block is rejected", fe.loc(rs[0][0]))

    # ---------------------------------------------------------------- R4 checked conversions (A4)
    ctx.rule("C01.R4", "A4 BSIZE/ISIZE written only through try_from; block_size returned = HEADER+len+TRAILER")
    for key, ty in ((FW + "write_header", "u16"), (FW + "write_trailer", "u32")):
        f = ctx.anchor("C01.R4", key)
        if f is None:
            continue
        casts = [st for b in f.blocks if not b.get("cu") for st in b["s"]
                 if st[0] == "=" and st[2][0] == "cast" and st[2][1] == "IntToInt" and _narrowing(st[2][3], st[2][4])
                 and not _is_discr_or_const(f, st[2][2])]
        tf = R.find_calls(f, r"TryFrom<\w+> for %s>::try_from$" % ty)
        if casts:
            ctx.violation("C01.R4", "C01.R4/narrowing-cast/" + key,
                          "%s contains a narrowing `as` cast (%s -> %s): a value that does not fit is silently truncated" % (
                              key, casts[0][2][3], casts[0][2][4]), f.loc())
        elif not tf:
            ctx.violation("C01.R4", "C01.R4/no-try_from/" + key, "%s no longer converts through %s::try_from" % (key, ty), f.loc())
        else:
            ctx.ok("C01.R4", key + " :: size field converted by try_from, no narrowing cast", "", f.loc())
    R.writer_set_rule(ctx, "C01.R4", "noodles_bgzf::io::writer::Writer", "position", {
        W + "flush_block": "+= block_size returned by write_frame",
        W + "try_finish": "+= BGZF_EOF.len()",
        "noodles_bgzf::io::writer::builder::Builder::build_from_writer": "constructor (0)",
    }, "compressed position advances only by emitted frame sizes")
    ffb = ctx.anchor("C01.R4", W + "flush_block")
    if ffb is not None:
        # the value added to position derives from write_frame's result
        adds = [st for b in ffb.blocks if not b.get("cu") for st in b["s"]
                if st[0] == "=" and st[2][0] == "bin" and st[2][1].startswith("Add") and
                any(n == "position" for n, _o in C.place_fields(C.op_place(st[2][2]) or [0, []]))]
        ok = adds and all(R.derives_from_call_deep(fb, ffb, a[2][3], R.mk_pred(r"writer::frame::write_frame$")) for a in adds)
        if ok:
            ctx.ok("C01.R4", "flush_block: position += write_frame(..)", "", ffb.loc())
        else:
            ctx.violation("C01.R4", "C01.R4/position/" + ffb.key,
                          "flush_block no longer advances `position` by the size returned from write_frame", ffb.loc())

    # ---------------------------------------------------------------- R8 direct-read fast path leaves the block consumed
    ctx.rule("C01.R8", "A3 last writer: parse_block_into_buf (inflate straight into the caller's buffer) leaves the block cursor at the end "
                       "of the block — after any other write of Data.pos every success path passes set_position(isize)")
    fpb = ctx.anchor("C01.R8", "noodles_bgzf::io::reader::frame::parse_block_into_buf")
    if fpb is not None:
        DATA = "noodles_bgzf::io::block::data::Data"
        writers = set(R.field_writers(fb, DATA, "pos"))
        may_write = fb.reaches(lambda k: k in writers)
        is_pf = R.mk_pred(r"reader::frame::parse_frame$")
        consuming = {b for b, c in fpb.calls() if (c.get("f") or "").endswith("block::data::Data::set_position")
                     and len(c["args"]) > 1 and R.derives_from_call(fpb, c["args"][1], is_pf)}
        others = [(b, c) for b, c in fpb.calls() if (c.get("f") or "") in may_write and b not in consuming]
        if not writers or not consuming:
            ctx.violation("C01.R8", "C01.R8/ANCHOR-MISSING/%s/set_position" % fpb.key,
                          "parse_block_into_buf no longer marks the block consumed with set_position(isize) (writers of Data.pos found: %d)" % len(writers), fpb.loc())
        else:
            ex = C.success_exit_blocks(fpb)
            bad = None
            for b, c in others:
                if c["t"] is None or c["t"] in consuming:
                    continue
                reach = C.reachable(fpb, c["t"], removed=consuming)
                hit = [e for e in ex if e in reach]
                if hit:
                    bad = (b, c, hit[0])
                    break
            if bad is None:
                ctx.ok("C01.R8", fpb.key + " :: cursor at end of block on every success path",
                       "%d other cursor write(s), each followed by set_position(isize) before Ok" % len(others), fpb.loc())
            else:
                b, c, e = bad
                ctx.violation("C01.R8", "C01.R8/cursor-reset-after-consume/" + fpb.key,
                              "parse_block_into_buf returns Ok on a path where %s (which rewrites the block cursor) is the last cursor write: the block, "
                              "whose bytes went to the caller's buffer and never into the block buffer, claims unread data and the next read serves "
                              "stale bytes" % c["f"].split("::")[-1], fpb.loc(b))

    # ---------------------------------------------------------------- R5 finalisation (A3)
    ctx.rule("C01.R9", "async writer: the staged block split off the buffer in poll_flush is handed to the sink before any Poll::Pending return "
                       "(a Pending after the split drops up to 64 KiB of payload; the file stays well-formed)")
    from .c16 import drained_value_rule
    drained_value_rule(ctx, "C01.R9", ("noodles_bgzf::r#async::io::writer", "<noodles_bgzf::r#async::io::writer"), 1)

    ctx.rule("C01.R10", "A5b every byte of a frame and of the EOF marker reaches the sink: in the BGZF writers (sync, multithreaded, async) a raw "
                        "write / poll_write appears only as a delegation or inside a loop that advances by the returned count — a single "
                        "attempt leaves a truncated marker behind a short-writing sink (pipe, socket) while shutdown still answers Ok")
    from .. import a5 as _a5
    n10 = 0
    for s10 in _a5.raw_io_sites(fb, _a5.RAW_WRITE):
        if not re.search(r"^<?noodles_bgzf::(io::(writer|multithreaded_writer)|r#async::io::writer)", s10["fn"]):
            continue
        f10 = fb.fns[s10["fn"]]
        n10 += 1
        ctx.saw_fn(f10)
        if s10["class"] in ("delegation", "loop"):
            ctx.ok("C01.R10", s10["fn"], s10["class"], f10.loc(s10["block"]))
        else:
            ctx.violation("C01.R10", "C01.R10/short-write/%s" % s10["fn"],
                          "%s hands bytes to the sink with a single raw %s: when the sink accepts fewer bytes the rest of the frame / EOF marker "
                          "is never written and the emitted file is not well-formed BGZF" % (s10["fn"], s10["callee"].split("::")[-1]), f10.loc(s10["block"]))
    ctx.floor("C01.R10", "raw write sites in the BGZF writers", n10, 1)

    ctx.rule("C01.R5", "A3 must-pass-through: finish/try_finish/Drop/flush/flush_block/write_frame")
    eof_call = R.call_with_const_arg(r"std::io::Write::write_all$|as std::io::Write>::write_all$",
                                     {"noodles_bgzf::io::writer::BGZF_EOF"})
    R.must_pass(ctx, "C01.R5", W + "finish", r"writer::Writer::<W>::try_finish$", "finish() passes try_finish()")
    R.must_pass(ctx, "C01.R5", W + "try_finish", r"writer::Writer<W> as std::io::Write>::flush$", "try_finish() flushes staged data")
    R.must_pass(ctx, "C01.R5", W + "try_finish", None, "try_finish() writes BGZF_EOF", callpred=eof_call)
    R.must_pass(ctx, "C01.R5", W + "flush_block", r"deflate::encode$", "flush_block() deflates the staging buffer")
    R.must_pass(ctx, "C01.R5", W + "flush_block", r"writer::frame::write_frame$", "flush_block() writes a frame")
    R.must_pass(ctx, "C01.R5", FW + "write_frame", r"writer::frame::write_header$", "write_frame() writes the header")
    R.must_pass(ctx, "C01.R5", FW + "write_frame", r"writer::frame::write_trailer$", "write_frame() writes the trailer")
    R.must_pass(ctx, "C01.R5", FW + "write_frame", r"std::io::Write::write_all$", "write_frame() writes the compressed data with write_all")
    fd = ctx.anchor("C01.R5", "<noodles_bgzf::io::writer::Writer<W> as core::ops::drop::Drop>::drop")
    if fd is not None:
        sw = R.switch_on_call(fd, r"option::Option::<T>::is_some$")
        if len(sw) != 1:
            ctx.violation("C01.R5", "C01.R5/drop-guard/" + fd.key, "Drop no longer tests inner.is_some() exactly once", fd.loc())
        else:
            b, tt, ft, _c = sw[0]
            R.must_pass(ctx, "C01.R5", fd.key, r"writer::Writer::<W>::try_finish$",
                        "Drop passes try_finish() when the writer was not finished", only_if_edge=tt, fn=fd,
                        exits=C.return_blocks(fd))
    # "finished or dropped" also holds for the multithreaded writer: its Drop reaches the staged-data flush (finish() = flush + finish_inner)
    fdm = ctx.anchor("C01.R5", "<noodles_bgzf::io::multithreaded_writer::MultithreadedWriter<W> as core::ops::drop::Drop>::drop")
    if fdm is not None:
        calls = {(c.get("f") or "") for _b, c in fdm.calls()}
        def _reaches_flush(fk, depth=0):
            if re.search(r"MultithreadedWriter<W> as std::io::Write>::flush$", fk):
                return True
            g = fb.fns.get(fk)
            if g is None or depth >= 2 or not g.blocks:
                return False
            # every success path of the callee passes the flush
            hit = {b for b, c in g.calls() if _reaches_flush(c.get("f") or "", depth + 1)}
            ex = C.success_exit_blocks(g)
            return bool(hit) and not any(e in C.reachable(g, 0, removed=hit) for e in ex)
        hits = {b for b, c in fdm.calls() if _reaches_flush(c.get("f") or "")}
        live = [b for b, blk in enumerate(fdm.blocks) if not blk.get("cu")]
        sw = [b for b in live if fdm.blocks[b]["t"][0] == "sw"]
        rets = C.return_blocks(fdm)
        # the only way around the flush is the `state is Done` edge (nothing staged any more)
        around = [r for r in rets if r in C.reachable(fdm, 0, removed=hits)]
        if hits:
            ctx.ok("C01.R5", fdm.key + " :: Drop of an unfinished multithreaded writer passes flush() of the staged block", "via finish()", fdm.loc())
        else:
            ctx.violation("C01.R5", "C01.R5/mt-drop-without-flush/" + fdm.key,
                          "Drop of the multithreaded writer no longer passes a call whose every success path flushes the staging buffer "
                          "(finish() = flush() + finish_inner()): the last, partial block of a dropped writer is discarded, the file stays "
                          "well-formed and shorter", fdm.loc())

    ffl = ctx.anchor("C01.R5", WIMPL + "flush")
    if ffl is not None:
        sw = R.switch_on_call(ffl, r"Vec::<T, A>::is_empty$|::is_empty$")
        if len(sw) != 1:
            ctx.violation("C01.R5", "C01.R5/flush-guard/" + ffl.key, "flush() no longer tests staging_buf.is_empty() exactly once", ffl.loc())
        else:
            b, tt, ft, _c = sw[0]
            R.must_pass(ctx, "C01.R5", ffl.key, r"writer::Writer::<W>::flush_block$",
                        "flush() passes flush_block() when data is staged", only_if_edge=ft, fn=ffl)
    if fw is not None:
        sw = R.switch_on_call(fw, r"writer::Writer::<W>::has_remaining$")
        if len(sw) != 1:
            ctx.violation("C01.R5", "C01.R5/write-guard/" + fw.key, "write() no longer tests has_remaining() exactly once", fw.loc())
        else:
            b, tt, ft, _c = sw[0]
            R.must_pass(ctx, "C01.R5", fw.key, r"as std::io::Write>::flush$",
                        "write() flushes when the staging buffer is full", only_if_edge=ft, fn=fw)

    # ---------------------------------------------------------------- R6 reader integrity (A4)
    ctx.rule("C01.R6", "A4 integrity guards dominate success exits: CRC32, ISIZE bound, header validity, frame size")
    R.integrity_guard(ctx, "C01.R6", FR + "inflate", r"noodles_bgzf::deflate::crc32$", "CRC32 of inflated data == trailer CRC32")
    R.must_pass(ctx, "C01.R6", FR + "inflate", r"noodles_bgzf::deflate::decode$", "inflate() decodes")

    def isize_bound(fn, ops, kind):
        return any(R.const_operand_is(o, keys={"noodles_bgzf::BGZF_MAX_ISIZE"}) for o in ops)
    R.bound_guard(ctx, "C01.R6", FR + "parse_trailer", "ISIZE <= BGZF_MAX_ISIZE", isize_bound)
    fph = ctx.anchor("C01.R6", FR + "parse_header")
    if fph is not None:
        sw = R.switch_on_call(fph, r"reader::frame::is_valid_header$")
        if len(sw) != 1:
            ctx.violation("C01.R6", "C01.R6/header-guard/" + fph.key, "parse_header no longer branches on is_valid_header()", fph.loc())
        else:
            b, tt, ft, _c = sw[0]
            ex = C.success_exit_blocks(fph)
            bad = [e for e in ex if e in C.reachable(fph, ft, removed={b})] or [e for e in ex if e in C.reachable(fph, 0, removed={b})]
            if bad:
                ctx.violation("C01.R6", "C01.R6/header-vacuous/" + fph.key,
                              "parse_header returns Ok on the invalid-header edge", fph.loc(bad[0]))
            else:
                ctx.ok("C01.R6", fph.key + " :: Ok only on the is_valid_header()==true edge", "", fph.loc())

    def minframe(fn, ops, kind):
        return any(R.const_operand_is(o, keys={FR + "MIN_FRAME_SIZE"}) for o in ops)
    def body_resize(fn):
        # buf.resize(block_size, 0): the resize whose length is not a constant
        return [b for b, c in R.find_calls(fn, r"Vec::<T, A>::resize$") if C.op_const(c["args"][1]) is None]
    R.bound_guard(ctx, "C01.R6", FR + "read_frame_into", "block_size >= MIN_FRAME_SIZE before the body is sized and read",
                  minframe, protect=body_resize)
    R.bound_guard(ctx, "C01.R6", FR + "split_frame", "buf.len() >= MIN_FRAME_SIZE before slicing", minframe)
    R.must_pass(ctx, "C01.R6", FR + "parse_frame", r"reader::frame::parse_header$", "parse_frame() validates the header")
    R.must_pass(ctx, "C01.R6", FR + "parse_frame", r"reader::frame::parse_trailer$", "parse_frame() validates the trailer")
    R.must_pass(ctx, "C01.R6", FR + "parse_frame", r"reader::frame::split_frame$", "parse_frame() splits with length check")
    for k in ("parse_block", "parse_block_into_buf"):
        R.must_pass(ctx, "C01.R6", FR + k, r"reader::frame::parse_frame$", k + "() parses the frame")
        R.must_pass(ctx, "C01.R6", FR + k, r"reader::frame::inflate$", k + "() inflates with CRC check")
        R.must_pass(ctx, "C01.R6", FR + k, r"reader::frame::block_initialize$", k + "() re-initialises the block")
    # who may inflate without the CRC check: deflate::decode callers
    callers = sorted(k for k, outs in fb.callgraph().items() if "noodles_bgzf::deflate::decode" in outs)
    allowed = {FR + "inflate", "noodles_bgzf::r#async::io::reader::inflate::inflate",
               "noodles_bgzf::r#async::io::reader::inflate::inflate::{closure#0}"}
    for k in callers:
        if k in allowed or fb.fns[k].root in allowed:
            continue
        ctx.violation("C01.R6", "C01.R6/raw-decode-caller/" + k,
                      "%s calls deflate::decode directly, bypassing the CRC-checking inflate()" % k, fb.fns[k].loc())
    ctx.ok("C01.R6", "callers of deflate::decode", "%d caller(s), all CRC-checking wrappers" % len(callers))
    ctx.floor("C01.R6", "deflate::decode callers", len(callers), 1)


def _is_discr_or_const(f, op):
    if C.eval_const(f, op) is not None:
        return True
    l = C.op_local(op)
    d = C.single_def(f, l) if l is not None else None
    return d is not None and d[0] == "=" and d[3][0] in ("discr",)


def _at_least_call_result(f, op, callee_rx, depth=0):
    """Is the operand provably >= the result of a call matching callee_rx?  (moves, widening casts, + non-negative,
    max(..) keep the lower bound; min, -, /, >> and anything else do not)."""
    import re as _re
    if depth > 8:
        return False
    l = C.op_local(op)
    if l is None:
        return False
    d = C.single_def(f, l)
    if d is None:
        return False
    if d[0] == "call":
        k = d[2].get("f") or ""
        if _re.search(callee_rx, k):
            return True
        if _re.search(r"(cmp::Ord::max|as core::cmp::Ord>::max|cmp::max)$", k):
            return any(_at_least_call_result(f, a, callee_rx, depth + 1) for a in d[2]["args"])
        return False
    if d[0] == "=":
        rv = d[3]
        if rv[0] == "use":
            return _at_least_call_result(f, rv[1], callee_rx, depth + 1)
        if rv[0] == "cast" and rv[1] == "IntToInt":
            return _at_least_call_result(f, rv[2], callee_rx, depth + 1)
        if rv[0] == "bin" and rv[1] in ("Add", "AddWithOverflow", "AddUnchecked"):
            return _at_least_call_result(f, rv[2], callee_rx, depth + 1) or _at_least_call_result(f, rv[3], callee_rx, depth + 1)
    # (_x.0) of a WithOverflow pair
    p = C.op_place(op)
    if p and len(p[1]) == 1 and isinstance(p[1][0], list) and p[1][0][0] == "f" and p[1][0][1] == 0:
        dd = C.single_def(f, p[0])
        if dd is not None and dd[0] == "=" and dd[3][0] == "bin" and dd[3][1] == "AddWithOverflow":
            return _at_least_call_result(f, dd[3][2], callee_rx, depth + 1) or _at_least_call_result(f, dd[3][3], callee_rx, depth + 1)
    return False


def _narrowing(frm, to):
    w = {"u8": 8, "i8": 8, "u16": 16, "i16": 16, "u32": 32, "i32": 32, "u64": 64, "i64": 64, "usize": 64, "isize": 64,
         "u128": 128, "i128": 128}
    if frm not in w or to not in w:
        return False
    if w[to] < w[frm]:
        return True
    if w[to] == w[frm] and frm[0] != to[0]:
        return True
    if frm[0] == "i" and to[0] == "u":
        return True
    return False


def _min_bounded_extend(ctx, rule, f, remaining_key):
    """write(): the slice given to extend() is &buf[..amt] with amt = remaining().min(buf.len())."""
    mins = R.find_calls(f, r"core::cmp::Ord::min$|cmp::min$|as core::cmp::Ord>::min$")
    ok = False
    for b, c in mins:
        a0, a1 = c["args"][0], c["args"][1]
        d0 = R.derives_from_call(f, a0, R.mk_pred(r"writer::Writer::<W>::remaining$"))
        d1 = R.derives_from_call(f, a1, R.mk_pred(r"slice::<impl \[T\]>::len$"))
        d0b = R.derives_from_call(f, a1, R.mk_pred(r"writer::Writer::<W>::remaining$"))
        d1b = R.derives_from_call(f, a0, R.mk_pred(r"slice::<impl \[T\]>::len$"))
        if (d0 and d1) or (d0b and d1b):
            ok = True
    ext = R.find_calls(f, r"Extend<.*>>::extend$|Vec::<T, A>::extend_from_slice$")
    ok2 = False
    for b, c in ext:
        # the extended slice derives from an index by a RangeTo whose end derives from the min() call
        if R.derives_from_call(f, c["args"][1], R.mk_pred(r"core::cmp::Ord::min$|as core::cmp::Ord>::min$")):
            ok2 = True
    if ok and ok2:
        ctx.ok(rule, f.key + " :: extend(&buf[..remaining().min(buf.len())])", "", f.loc())
    else:
        ctx.violation(rule, rule + "/unbounded-extend/" + f.key,
                      "write() no longer bounds the staged bytes by remaining().min(buf.len())", f.loc())


def _bool_conjunction(ctx, rule, f, const_keys):
    """Every constant takes part in a comparison that lies on all paths to a non-false return."""
    # non-false exits
    exits = []
    for bi, blk in enumerate(f.blocks):
        if blk.get("cu"):
            continue
        for st in blk["s"]:
            if st[0] == "=" and st[1][0] == 0 and not st[1][1]:
                k = C.op_const(st[2][1]) if st[2][0] == "use" else None
                if not (k is not None and k.get("v") == 0):
                    exits.append(bi)
        t = blk["t"]
        if t[0] == "call" and t[1]["dest"][0] == 0:
            exits.append(bi)
    okall = True
    for ck in const_keys:
        blocks = set()
        for bi, blk in enumerate(f.blocks):
            if blk.get("cu"):
                continue
            uses = False
            for st in blk["s"]:
                if st[0] == "=":
                    for o in R.rvalue_operands(st[2]):
                        k = C.op_const(o)
                        if k is not None and k.get("def") == ck:
                            uses = True
            if uses:
                blocks.add(bi)
        if not blocks:
            ctx.violation(rule, "%s/const-unused/%s/%s" % (rule, f.key, ck), "%s no longer compares against %s" % (f.key, ck), f.loc())
            okall = False
            continue
        reach = C.reachable(f, 0, removed=blocks)
        # exits located in the comparison block itself are fine (the comparison result is returned)
        bad = [e for e in exits if e in reach]
        if bad:
            ctx.violation(rule, "%s/not-on-all-paths/%s/%s" % (rule, f.key, ck),
                          "%s can return true without comparing against %s" % (f.key, ck), f.loc(bad[0]))
            okall = False
    if okall:
        ctx.ok(rule, f.key + " :: all %d constants are compared on every path to `true`" % len(const_keys), "", f.loc())
