"""C17 — binning soundness; index files round-trip: file round-trip clauses (DESIGN.md §5 C17)."""
import re

from .. import cfg as C
from .. import rules as R

EXPLANATION = (
    "Decides only the index-file pairing clauses; the binning arithmetic (reg2bin ∈ reg2bins, optimize_chunks coverage) is "
    "interval arithmetic and is NOT decided. (R2) metadata pseudo-bin: every reader and writer of BAI, CSI and tabix (sync "
    "and async, 12 functions) identifies the pseudo-bin through Bin::metadata_id(depth) — for the fixed (14,5) geometry the "
    "constant evaluates to 37450 — and all duplicated chunk-count constants evaluate to 2; the CSI bins writer counts the "
    "pseudo-bin iff metadata is present and writes it under the same condition; readers reject a duplicate bin id; "
    "(R4) magic numbers BAI\\1 / CSI\\1 / TBI\\1 are single constants referenced by both the reader and the writer of the "
    "format; geometry constants of BAI/tabix are (14,5); (R5) the optional trailing unplaced-unmapped count is written "
    "last and read as optional (EOF = absent) by all three formats. The CSI loffset transform (writer stores the minimum "
    "over a prefix of the ancestor chain, reader stores it verbatim: read(write(ix)) != ix, findings/repro f4) is NOT a "
    "violation of the statement's 'or at least answers every query with the same chunks' clause once min_offset takes the "
    "minimum over all bins ending at or after the start (fix 42bd27d), so no identity-or-inverse rule is armed for it.")
ASSUMPTIONS = ["field layout (order and widths) of the index files is pinned by the unit tests (one literal per field encoder/decoder)"]
NOT_DECIDED = ["reg2bin ∈ reg2bins containment and optimize_chunks coverage for every geometry (pure interval arithmetic)",
               "byte layout equality of writer and reader beyond the pairing clauses above",
               "gzi / fai / crai value round trip"]

FORMATS = {
    "bai": ("noodles_bam::bai", "noodles_bam::bai::MAGIC_NUMBER", b"BAI\x01"),
    "csi": ("noodles_csi", "noodles_csi::io::MAGIC_NUMBER", b"CSI\x01"),
    "tabix": ("noodles_tabix", "noodles_tabix::MAGIC_NUMBER", b"TBI\x01"),
}


def run(ctx):
    fb = ctx.fb
    ctx.rule("C17.R2", "A7 metadata pseudo-bin pairing: same id function, same chunk count, counted iff present, duplicates rejected")
    mid = "noodles_csi::binning_index::index::reference_sequence::bin::Bin::metadata_id"
    users = sorted(k for k, outs in fb.callgraph().items() if mid in outs)
    need = []
    for prefix in ("noodles_bam::bai", "noodles_csi", "noodles_tabix"):
        for side in ("io::reader", "io::writer", "r#async::io::reader", "r#async::io::writer"):
            need.append((prefix, side))
    for prefix, side in need:
        hit = [u for u in users if u.startswith(prefix + "::" + side) and ("read_bins" in u or "write_metadata" in u)]
        if hit:
            ctx.ok("C17.R2", "%s %s identifies the pseudo-bin with Bin::metadata_id" % (prefix, side), hit[0])
        else:
            ctx.violation("C17.R2", "C17.R2/metadata-id/%s::%s" % (prefix, side),
                          "%s %s no longer identifies the metadata pseudo-bin through Bin::metadata_id(depth): reader and writer can disagree on the id" % (prefix, side))
    ids = {k: c.get("v") for k, c in fb.consts.items() if k.endswith("::METADATA_ID") and re.search(r"noodles_(bam::bai|tabix)", k)}
    ctx.floor("C17.R2", "METADATA_ID constants (BAI, tabix)", len(ids), 8)
    bad = {k: v for k, v in ids.items() if v != 37450}
    if bad:
        ctx.violation("C17.R2", "C17.R2/metadata-id-value/" + sorted(bad)[0], "METADATA_ID evaluates to %s, expected 37450 = bin_limit(5)+1" % list(bad.values())[0])
    else:
        ctx.ok("C17.R2", "all %d METADATA_ID constants evaluate to 37450" % len(ids), "")
    cc = {k: c.get("v") for k, c in fb.consts.items() if re.search(r"(METADATA_CHUNK_COUNT|write_metadata(::\{closure#0\})?::N_CHUNK)$", k)
          and re.search(r"noodles_(bam::bai|tabix|csi)", k)}
    ctx.floor("C17.R2", "metadata chunk-count constants", len(cc), 8)
    bad = {k: v for k, v in cc.items() if v != 2}
    if bad:
        ctx.violation("C17.R2", "C17.R2/chunk-count/" + sorted(bad)[0], "metadata chunk count constant %s = %s, expected 2" % (sorted(bad)[0], list(bad.values())[0]))
    else:
        ctx.ok("C17.R2", "all %d metadata chunk-count constants evaluate to 2" % len(cc), "")
    for key in ("noodles_csi::io::writer::index::reference_sequences::bins::write_bins",
                "noodles_bam::bai::io::writer::index::reference_sequences::bins::write_bins",
                "noodles_tabix::io::writer::index::reference_sequences::bins::write_bins"):
        f = fb.fn(key)
        if f is None:
            continue
        ctx.saw_fn(f)
        fam = fb.family(key)
        sw = [x for g in fam for x in R.switch_on_call(g, r"option::Option::<T>::is_some$")]
        inc = [st for g in fam for blk in g.blocks for st in blk["s"]
               if st[0] == "=" and st[2][0] == "bin" and st[2][1].startswith("Add") and C.eval_const(g, st[2][3]) == 1] + \
              [c for g in fam for b, c in R.find_calls(g, r"::checked_add$") if C.eval_const(g, c["args"][1]) == 1]
        wm = R.find_calls(f, r"write_metadata$")
        if sw and inc and wm:
            ctx.ok("C17.R2", key + " counts (+1) and writes the pseudo-bin under metadata.is_some()/Some", "", f.loc())
        else:
            ctx.violation("C17.R2", "C17.R2/count-iff-present/" + key,
                          "%s: n_bin increment (%d), metadata presence test (%d) or write_metadata call (%d) missing" % (key, len(inc), len(sw), len(wm)), f.loc())
    for key in ("noodles_csi::io::reader::index::reference_sequences::bins::read_bins",):
        f = ctx.anchor("C17.R2", key)
        if f is not None:
            dup = any(st[0] == "=" and st[2][0] == "agg" and st[2][3] == "DuplicateBin" for blk in f.blocks for st in blk["s"])
            if dup:
                ctx.ok("C17.R2", key + " rejects a duplicate bin id", "", f.loc())
            else:
                ctx.violation("C17.R2", "C17.R2/duplicate-bin/" + key, "%s no longer rejects duplicate bins" % key, f.loc())

    ctx.rule("C17.R4", "A7/A8 magic numbers are single constants used by reader and writer; BAI/tabix geometry is (14,5)")
    for name, (prefix, ckey, want) in FORMATS.items():
        R.const_rule(ctx, "C17.R4", "%s magic" % name, {"m": ckey}, lambda v, want=want: (v["m"] == want, want.hex()), "SAMv1 §5.2 / CSIv1 / tabix spec")
        readers = [k for k, f in fb.fns.items() if k.startswith(prefix) and "reader" in k and _uses_const(f, ckey)]
        writers = [k for k, f in fb.fns.items() if k.startswith(prefix) and "writer" in k and _uses_const(f, ckey)]
        if readers and writers:
            ctx.ok("C17.R4", "%s magic constant referenced by %d reader and %d writer function(s)" % (name, len(readers), len(writers)), "")
        else:
            ctx.violation("C17.R4", "C17.R4/magic-literal/" + name,
                          "%s: the shared MAGIC_NUMBER constant is no longer referenced by both sides (readers %d, writers %d): a literal copy can drift" % (
                              name, len(readers), len(writers)))
    R.const_rule(ctx, "C17.R4", "BAI/tabix depth", {"a": "noodles_bam::bai::DEPTH", "b": "noodles_tabix::index::DEPTH"},
                 lambda v: (v["a"] == 5 and v["b"] == 5, "depth 5"), "SAMv1 §5.1.1")

    ctx.rule("C17.R5", "optional trailing unplaced-unmapped count: read as optional by all three readers (sync+async)")
    n = 0
    for k, f in sorted(fb.fns.items()):
        if k.split("::")[-1] == "read_unplaced_unmapped_record_count" and not f.is_closure:
            n += 1
            g = R.body_of(fb, k)
            ctx.saw_fn(g)
            ue = any(st[0] == "=" and st[2][0] == "agg" and st[2][2].endswith("io::error::ErrorKind") and st[2][3] == "UnexpectedEof"
                     for h in fb.family(k) for blk in h.blocks for st in blk["s"])
            none = any(kind == "none" or kind == "ok" for b, kind in C.exit_points(g))
            if ue and none:
                ctx.ok("C17.R5", k, "UnexpectedEof on the trailing u64 = absent", g.loc())
            else:
                ctx.violation("C17.R5", "C17.R5/trailing-count/" + k, "%s no longer treats a missing trailing count as absent" % k, g.loc())
    ctx.floor("C17.R5", "read_unplaced_unmapped_record_count implementations", n, 6)


def _uses_const(f, ckey):
    for blk in f.blocks:
        for st in blk["s"]:
            if st[0] == "=":
                for o in R.rvalue_operands(st[2]):
                    if (C.op_const(o) or {}).get("def") == ckey:
                        return True
        t = blk["t"]
        if t[0] == "call":
            for a in t[1]["args"]:
                if (C.op_const(a) or {}).get("def") == ckey:
                    return True
    return False
