import json
"""C17 — binning soundness; index files round-trip: file round-trip clauses (DESIGN.md §5 C17)."""
import re

from .. import a10
from .. import cfg as C
from .. import rules as R

EXPLANATION = (
    "Decides only the index-file pairing clauses; the binning arithmetic (reg2bin ∈ reg2bins, optimize_chunks coverage) is "
    "interval arithmetic and is NOT decided. (R2) metadata pseudo-bin: every reader and writer of BAI, CSI and tabix (sync "
    "and async, 12 functions) identifies the pseudo-bin through Bin::metadata_id(depth) — for the fixed (14,5) geometry the "
    "constant evaluates to 37450 — and all duplicated chunk-count constants evaluate to 2; the CSI bins writer counts the "
    "pseudo-bin iff metadata is present and writes it under the same condition; readers reject a duplicate bin id; "
    "(R4) magic numbers BAI\\1 / CSI\\1 / TBI\\1 are single constants referenced by both the reader and the writer of the "
    "format; geometry constants of BAI/tabix are (14,5); (R5) the optional trailing unplaced-unmapped count is written "
    "last and read as optional (EOF = absent) by all three formats. The CSI loffset transform (writer stores the minimum "
    "over a prefix of the ancestor chain, reader stores it verbatim: read(write(ix)) != ix, findings/repro f4) is NOT a "
    "violation of the statement's 'or at least answers every query with the same chunks' clause once min_offset takes the "
    "minimum over all bins ending at or after the start (fix 42bd27d), so no identity-or-inverse rule is armed for it."
    " (R2, path form) in all six write_bins bodies no success exit is reachable once the absence edges of every test of `metadata` and the write_metadata call are removed: the pseudo-bin is written on every path on which metadata is present; (R6) reg2bin and reg2bins use the same coordinate convention (exactly one `- 1` on start and on end before the shifts); (R7) append-buffer discipline of the text index readers (crai, fai, tabix names): the rule that reports the genuine defect F14 (crai read_index), repaired in /repo."
    " (R8) optimize_chunks prunes by a per-chunk test of that chunk's end, never by a prefix cut or binary search over chunk ends in a list ordered by start."
    " (R9) Bin::add_chunk builds the merged chunk's end as the maximum of both ends (genuine defect F24, repaired)."
    " (R10) no index reader takes a field from a single raw read() (shared with C12.R1 / C13.R4). (R11) the linear index is filled (update) and consulted (min_offset) with the same window function of a 1-based position, (p - 1) / 2^14. (R12) the CSI readers keep every bin's loffset whatever its value.")
ASSUMPTIONS = ["field layout (order and widths) of the index files is pinned by the unit tests (one literal per field encoder/decoder)"]
NOT_DECIDED = ["reg2bin ∈ reg2bins containment and optimize_chunks coverage for every geometry (pure interval arithmetic)",
               "byte layout equality of writer and reader beyond the pairing clauses above",
               "gzi / fai / crai value round trip"]

FORMATS = {
    "bai": ("noodles_bam::bai", "noodles_bam::bai::MAGIC_NUMBER", b"BAI\x01"),
    "csi": ("noodles_csi", "noodles_csi::io::MAGIC_NUMBER", b"CSI\x01"),
    "tabix": ("noodles_tabix", "noodles_tabix::MAGIC_NUMBER", b"TBI\x01"),
}


def run(ctx):
    fb = ctx.fb
    ctx.rule("C17.R2", "A7 metadata pseudo-bin pairing: same id function, same chunk count, counted iff present, duplicates rejected")
    mid = "noodles_csi::binning_index::index::reference_sequence::bin::Bin::metadata_id"
    users = sorted(k for k, outs in fb.callgraph().items() if mid in outs)
    need = []
    for prefix in ("noodles_bam::bai", "noodles_csi", "noodles_tabix"):
        for side in ("io::reader", "io::writer", "r#async::io::reader", "r#async::io::writer"):
            need.append((prefix, side))
    for prefix, side in need:
        hit = [u for u in users if u.startswith(prefix + "::" + side) and ("read_bins" in u or "write_metadata" in u)]
        if hit:
            ctx.ok("C17.R2", "%s %s identifies the pseudo-bin with Bin::metadata_id" % (prefix, side), hit[0])
        else:
            ctx.violation("C17.R2", "C17.R2/metadata-id/%s::%s" % (prefix, side),
                          "%s %s no longer identifies the metadata pseudo-bin through Bin::metadata_id(depth): reader and writer can disagree on the id" % (prefix, side))
    ids = {k: c.get("v") for k, c in fb.consts.items() if k.endswith("::METADATA_ID") and re.search(r"noodles_(bam::bai|tabix)", k)}
    ctx.floor("C17.R2", "METADATA_ID constants (BAI, tabix)", len(ids), 8)
    bad = {k: v for k, v in ids.items() if v != 37450}
    if bad:
        ctx.violation("C17.R2", "C17.R2/metadata-id-value/" + sorted(bad)[0], "METADATA_ID evaluates to %s, expected 37450 = bin_limit(5)+1" % list(bad.values())[0])
    else:
        ctx.ok("C17.R2", "all %d METADATA_ID constants evaluate to 37450" % len(ids), "")
    cc = {k: c.get("v") for k, c in fb.consts.items() if re.search(r"(METADATA_CHUNK_COUNT|write_metadata(::\{closure#0\})?::N_CHUNK)$", k)
          and re.search(r"noodles_(bam::bai|tabix|csi)", k)}
    ctx.floor("C17.R2", "metadata chunk-count constants", len(cc), 8)
    bad = {k: v for k, v in cc.items() if v != 2}
    if bad:
        ctx.violation("C17.R2", "C17.R2/chunk-count/" + sorted(bad)[0], "metadata chunk count constant %s = %s, expected 2" % (sorted(bad)[0], list(bad.values())[0]))
    else:
        ctx.ok("C17.R2", "all %d metadata chunk-count constants evaluate to 2" % len(cc), "")
    for key in ("noodles_csi::io::writer::index::reference_sequences::bins::write_bins",
                "noodles_bam::bai::io::writer::index::reference_sequences::bins::write_bins",
                "noodles_tabix::io::writer::index::reference_sequences::bins::write_bins"):
        f = fb.fn(key)
        if f is None:
            continue
        ctx.saw_fn(f)
        fam = fb.family(key)
        sw = [x for g in fam for x in R.switch_on_call(g, r"option::Option::<T>::is_some$")]
        inc = [st for g in fam for blk in g.blocks for st in blk["s"]
               if st[0] == "=" and st[2][0] == "bin" and st[2][1].startswith("Add") and C.eval_const(g, st[2][3]) == 1] + \
              [c for g in fam for b, c in R.find_calls(g, r"::checked_add$") if C.eval_const(g, c["args"][1]) == 1]
        wm = R.find_calls(f, r"write_metadata$")
        if sw and inc and wm:
            ctx.ok("C17.R2", key + " counts (+1) and writes the pseudo-bin under metadata.is_some()/Some", "", f.loc())
        else:
            ctx.violation("C17.R2", "C17.R2/count-iff-present/" + key,
                          "%s: n_bin increment (%d), metadata presence test (%d) or write_metadata call (%d) missing" % (key, len(inc), len(sw), len(wm)), f.loc())
    # path form of "written iff present": no success path on which every test of `metadata` took the Some branch
    # (or no test happened) reaches Ok without passing write_metadata
    nwb = 0
    for key in sorted(k for k, g in fb.fns.items() if re.search(r"noodles_(csi|bam::bai|tabix)::(r#async::)?io::writer::index::reference_sequences::bins::write_bins(::\{closure#0\})?$", k)
                      and ((g.coro and g.is_closure) or (not g.is_async and not g.is_closure))):
        g = fb.fns[key]
        ml = [l for l, nm in _names(g).items() if nm == "metadata"]
        if not ml:
            ctx.violation("C17.R2", "C17.R2/ANCHOR-MISSING/%s/metadata" % key, "%s has no `metadata` binding" % key, g.loc())
            continue
        nwb += 1
        ctx.saw_fn(g)
        none_edges = set()
        for b, tt, ft, c in R.switch_on_call(g, r"option::Option::<T>::(is_some|is_none)$"):
            if any(R.derives_from_local(g, a, m) for a in c["args"] for m in ml):
                none_edges.add((b, ft if c["f"].endswith("is_some") else tt))
        for b, blk in enumerate(g.blocks):
            if blk["t"][0] != "sw" or blk.get("cu"):
                continue
            cond = C.switch_condition(g, b)
            if cond and cond[0] == "discr" and (cond[1][0] in ml or any(R.derives_from_local(g, ["c", [cond[1][0], []]], m) for m in ml)):
                vals = dict((v, tg) for v, tg in blk["t"][2])
                if 0 in vals:
                    none_edges.add((b, vals[0]))
                elif set(vals) == {1}:
                    none_edges.add((b, blk["t"][3]))      # `[1 -> Some] otherwise None`
        wm = {b for b, c in g.calls() if (c.get("f") or "").split("::{closure")[0].endswith("write_metadata")}
        ex = C.success_exit_blocks(g)
        reach = C.reachable(g, 0, removed=wm, removed_edges=none_edges)
        hit = [e for e in ex if e in reach]
        if not none_edges or not wm:
            ctx.violation("C17.R2", "C17.R2/written-iff-present/" + key, "%s: no presence test of `metadata` (%d) or no write_metadata call (%d)" % (
                key, len(none_edges), len(wm)), g.loc())
        elif hit:
            path = R.shortest_path(g, 0, set(hit), removed=wm) or []
            ctx.violation("C17.R2", "C17.R2/written-iff-present/" + key,
                          "%s returns Ok on a path that never finds `metadata` absent and never writes the pseudo-bin (lines %s): the "
                          "metadata of that reference sequence is silently dropped" % (key, R.path_lines(g, path)), g.loc(hit[0]))
        else:
            ctx.ok("C17.R2", key + " writes the pseudo-bin on every success path on which metadata is present",
                   "%d absence edge(s), %d write_metadata site(s), %d success exit(s)" % (len(none_edges), len(wm), len(ex)), g.loc())
    ctx.floor("C17.R2", "write_bins bodies checked for written-iff-present", nwb, 6)
    for key in ("noodles_csi::io::reader::index::reference_sequences::bins::read_bins",):
        f = ctx.anchor("C17.R2", key)
        if f is not None:
            dup = any(st[0] == "=" and st[2][0] == "agg" and st[2][3] == "DuplicateBin" for blk in f.blocks for st in blk["s"])
            if dup:
                ctx.ok("C17.R2", key + " rejects a duplicate bin id", "", f.loc())
            else:
                ctx.violation("C17.R2", "C17.R2/duplicate-bin/" + key, "%s no longer rejects duplicate bins" % key, f.loc())

    ctx.rule("C17.R7", "A10 append-buffer discipline: the text index readers (crai, fai, tabix names) reset their line buffer before every appended line")
    a10.discipline_rule(ctx, "C17.R7", r"^<?noodles_(cram::crai|fasta::fai|fastq::fai|csi::io)", 12)

    ctx.rule("C17.R8", "pruning is per chunk: optimize_chunks drops a chunk by testing THAT chunk's end against min_offset (filter/retain), never by a "
                       "prefix cut or binary search (partition_point, skip_while, ...) over a list that is ordered by start, not by end")
    fo = ctx.anchor("C17.R8", "noodles_csi::binning_index::optimize_chunks")
    if fo is not None:
        fam = fb.family(fo.key)
        PRE = re.compile(r"::(partition_point|binary_search|binary_search_by|binary_search_by_key|skip_while|take_while|position|rposition)$")
        PER = re.compile(r"::(filter|retain|retain_mut|filter_map)$")

        def closure_reads_end(g, c):
            for a_ in c["args"]:
                l = C.op_local(a_)
                d = C.single_def(g, l) if l is not None else None
                if d is not None and d[0] == "=" and d[3][0] == "agg" and d[3][1] == "closure":
                    if any((cc.get("f") or "").endswith("chunk::Chunk::end") for h in fb.family(d[3][2]) for _b, cc in h.calls()):
                        return True
            return False
        pre = [(g, b, c) for g in fam for b, c in g.calls() if PRE.search(c.get("f") or "") and closure_reads_end(g, c)]
        per = [(g, b, c) for g in fam for b, c in g.calls() if PER.search(c.get("f") or "") and closure_reads_end(g, c)]
        if pre:
            g, b, c = pre[0]
            ctx.violation("C17.R8", "C17.R8/prefix-cut-on-end/%s/%s" % (fo.key, c["f"].split("::")[-1]),
                          "optimize_chunks prunes with %s over chunk ends: the list is ordered by start, so a long chunk that ends beyond "
                          "min_offset can sit in front of the cut and is dropped although a retained range needs it" % c["f"].split("::")[-1], g.loc(b))
        elif not per:
            ctx.violation("C17.R8", "C17.R8/ANCHOR-MISSING/%s/filter" % fo.key, "optimize_chunks no longer filters chunks by their end", fo.loc())
        else:
            ctx.ok("C17.R8", fo.key + " :: per-chunk end test", "%d filter site(s), no prefix cut" % len(per), fo.loc())

    ctx.rule("C17.R9", "merging never shrinks: Bin::add_chunk builds the merged chunk's end as the maximum of both chunks' ends")
    fac = ctx.anchor("C17.R9", "noodles_csi::binning_index::index::reference_sequence::bin::Bin::add_chunk")
    if fac is not None:
        news = [c for b, c in fac.calls() if (c.get("f") or "").endswith("chunk::Chunk::new") and len(c["args"]) >= 2]
        is_max = R.mk_pred(r"(cmp::Ord::max|core::cmp::max|Ord>::max)$")
        is_end = R.mk_pred(r"chunk::Chunk::end$")
        ok9 = False
        for c in news:
            mx = [cc for b, cc in fac.calls() if is_max(cc.get("f") or "") and R.derives_from_local(fac, c["args"][1], cc["dest"][0])]
            if any(sum(1 for a_ in cc["args"] if R.derives_from_call(fac, a_, is_end)) >= 2 for cc in mx):
                ok9 = True
        if not news:
            ctx.violation("C17.R9", "C17.R9/ANCHOR-MISSING/%s/Chunk::new" % fac.key, "add_chunk no longer builds a merged chunk", fac.loc())
        elif ok9:
            ctx.ok("C17.R9", fac.key + " :: merged end = max(last.end(), chunk.end())", "", fac.loc())
        else:
            ctx.violation("C17.R9", "C17.R9/merge-end-not-max/" + fac.key,
                          "Bin::add_chunk builds the merged chunk without taking the maximum of the two ends: merging a nested chunk shrinks the "
                          "stored chunk and uncovers a file range that was covered", fac.loc())

    ctx.rule("C17.R6", "A7 sibling agreement: reg2bin (indexing side) and reg2bins (query side) use the same coordinate convention")
    binning_convention_rule(ctx, "C17.R6")

    ctx.rule("C17.R11", "A7 sibling agreement: the linear index is filled (update) and consulted (min_offset) with the same window function of "
                        "a 1-based position, (p - 1) / 2^14: a query-side window one too far prunes the chunk of a feature ending on a window's last base")
    linear_window_rule(ctx, "C17.R11")

    ctx.rule("C17.R12", "A7 the CSI readers (sync and async) keep EVERY bin's loffset: the insert into the binned index is not control-dependent "
                        "on the value of the loffset just read — 0 is the real offset of a bin whose first record sits at the start of the file, "
                        "and dropping it makes min_offset prune chunks that a query must return")
    n12 = 0
    for k12, f12 in sorted(fb.fns.items()):
        if not f12.blocks or not re.search(r"^noodles_csi::(r#async::)?io::reader::index::reference_sequences::bins::read_bins(::\{closure#0\})?$", k12):
            continue
        ins = [(b, c) for b, c in f12.calls() if re.search(r"indexmap::map::IndexMap<.*>::insert$|IndexMap::<K, V, S>::insert$", c.get("f") or "")
               and "VirtualPosition" in (c.get("ga") or "") + (f12.locals[C.op_local(c["args"][0])] if c["args"] and C.op_local(c["args"][0]) is not None else "")]
        if not ins:
            continue
        is_loff = R.mk_pred(r"read_u64_le$")
        for b12, c12 in ins:
            n12 += 1
            ctx.saw_fn(f12)
            guards = [g for g in C.dom_chain(f12, b12) if g != b12 and f12.blocks[g]["t"][0] == "sw" and R.derives_from_call(f12, f12.blocks[g]["t"][1], is_loff)
                      and not re.search(r"Try>::branch|ControlFlow", json.dumps(C.switch_condition(f12, g) or ""))]
            # a `?` on the read itself also switches on a value derived from the call: only comparisons count
            guards = [g for g in guards if (C.switch_condition(f12, g) or ("",))[0] in ("cmp", "call", "not")]
            if guards:
                ctx.violation("C17.R12", "C17.R12/loffset-dropped-by-value/" + k12,
                              "%s inserts a bin's loffset into the binned index only behind a test of that loffset: a bin whose first record "
                              "is at virtual position 0 loses its entry, and the index read back answers queries with fewer chunks" % k12, f12.loc(guards[0]))
            else:
                ctx.ok("C17.R12", k12, "the loffset is stored whatever its value", f12.loc(b12))
    ctx.floor("C17.R12", "binned-index inserts in the CSI readers (sync + async)", n12, 2)

    ctx.rule("C17.R4", "A7/A8 magic numbers are single constants used by reader and writer; BAI/tabix geometry is (14,5)")
    for name, (prefix, ckey, want) in FORMATS.items():
        R.const_rule(ctx, "C17.R4", "%s magic" % name, {"m": ckey}, lambda v, want=want: (v["m"] == want, want.hex()), "SAMv1 §5.2 / CSIv1 / tabix spec")
        readers = [k for k, f in fb.fns.items() if k.startswith(prefix) and "reader" in k and _uses_const(f, ckey)]
        writers = [k for k, f in fb.fns.items() if k.startswith(prefix) and "writer" in k and _uses_const(f, ckey)]
        if readers and writers:
            ctx.ok("C17.R4", "%s magic constant referenced by %d reader and %d writer function(s)" % (name, len(readers), len(writers)), "")
        else:
            ctx.violation("C17.R4", "C17.R4/magic-literal/" + name,
                          "%s: the shared MAGIC_NUMBER constant is no longer referenced by both sides (readers %d, writers %d): a literal copy can drift" % (
                              name, len(readers), len(writers)))
    R.const_rule(ctx, "C17.R4", "BAI/tabix depth", {"a": "noodles_bam::bai::DEPTH", "b": "noodles_tabix::index::DEPTH"},
                 lambda v: (v["a"] == 5 and v["b"] == 5, "depth 5"), "SAMv1 §5.1.1")

    ctx.rule("C17.R5", "optional trailing unplaced-unmapped count: read as optional by all three readers (sync+async)")
    n = 0
    for k, f in sorted(fb.fns.items()):
        if k.split("::")[-1] == "read_unplaced_unmapped_record_count" and not f.is_closure:
            n += 1
            g = R.body_of(fb, k)
            ctx.saw_fn(g)
            ue = any(st[0] == "=" and st[2][0] == "agg" and st[2][2].endswith("io::error::ErrorKind") and st[2][3] == "UnexpectedEof"
                     for h in fb.family(k) for blk in h.blocks for st in blk["s"])
            none = any(kind == "none" or kind == "ok" for b, kind in C.exit_points(g))
            if ue and none:
                ctx.ok("C17.R5", k, "UnexpectedEof on the trailing u64 = absent", g.loc())
            else:
                ctx.violation("C17.R5", "C17.R5/trailing-count/" + k, "%s no longer treats a missing trailing count as absent" % k, g.loc())
    ctx.floor("C17.R5", "read_unplaced_unmapped_record_count implementations", n, 6)

    ctx.rule("C17.R10", "A5b an index reads back whatever way its bytes arrive: no index reader takes the result of a single raw read() for "
                        "a whole field (a short read is legal; shared with C12.R1 / C13.R4)")
    from .. import a5
    from .c13 import INDEX_READERS
    raw = [s_ for s_ in a5.raw_io_sites(fb, a5.RAW_READ) if INDEX_READERS.search(s_["fn"])]
    bad = [s_ for s_ in raw if s_["class"] != "delegation"]
    for s_ in bad:
        f_ = fb.fns[s_["fn"]]
        ctx.violation("C17.R10", "C17.R10/raw-read/" + s_["fn"],
                      "index reader %s takes a field from one raw read(): a valid index delivered in pieces (short reads) fails to read back or "
                      "reads back differently" % s_["fn"], f_.loc(s_["block"]))
    nrd = sum(1 for k_, f_ in fb.fns.items() if INDEX_READERS.search(k_) and not f_.is_closure)
    if not bad:
        ctx.ok("C17.R10", "raw read() sites in the index readers", "%d, all delegation (Read::read of a wrapper forwarding to its inner reader)" % len(raw))
    ctx.floor("C17.R10", "index reader functions inspected", nrd, 60)


def _uses_const(f, ckey):
    for blk in f.blocks:
        for st in blk["s"]:
            if st[0] == "=":
                for o in R.rvalue_operands(st[2]):
                    if (C.op_const(o) or {}).get("def") == ckey:
                        return True
        t = blk["t"]
        if t[0] == "call":
            for a in t[1]["args"]:
                if (C.op_const(a) or {}).get("def") == ckey:
                    return True
    return False


def binning_convention_rule(ctx, rule):
    """Every value that is shifted (>> s) in reg2bin / reg2bins and derives from the 1-based `start` (resp. `end`) parameter
    has passed through exactly one `- 1`: both functions work on the same 0-based closed interval.  A lost or doubled
    `- 1` on one side makes a feature's bin fall outside the bins of a region that touches it at a bin edge."""
    fb = ctx.fb
    sig = {}
    for name in ("reg2bin", "reg2bins"):
        key = "noodles_csi::binning_index::index::reference_sequence::" + name
        f = ctx.anchor(rule, key)
        if f is None:
            return
        per = {}
        for blk in f.blocks:
            for st in blk["s"]:
                if st[0] == "=" and st[2][0] == "bin" and st[2][1] in ("Shr", "ShrUnchecked"):
                    for pi, pname in ((1, "start"), (2, "end")):
                        if R.derives_from_local(f, st[2][2], pi, through_calls=True):
                            per.setdefault(pname, set()).add(_sub1_count(f, st[2][2], pi))
        sig[name] = per
        for pname in ("start", "end"):
            if pname not in per:
                ctx.violation(rule, "%s/ANCHOR-MISSING/%s/%s" % (rule, key, pname), "%s: no shift of a value derived from `%s` found" % (name, pname), f.loc())
                return
    ok = True
    for pname in ("start", "end"):
        a, b = sig["reg2bin"][pname], sig["reg2bins"][pname]
        if a != {1} or b != {1}:
            ok = False
            ctx.violation(rule, "%s/coordinate-convention/%s" % (rule, pname),
                          "reg2bin shifts `%s` after %s subtraction(s) of 1, reg2bins after %s: the indexing side and the query side disagree "
                          "on the 0-based interval, so a record ending (or a query starting) exactly on a bin edge is lost" % (
                              pname, sorted(a), sorted(b)), fb.fns["noodles_csi::binning_index::index::reference_sequence::reg2bins"].loc())
    if ok:
        ctx.ok(rule, "reg2bin and reg2bins both shift start-1 and end-1", "")


def linear_window_rule(ctx, rule):
    """LinearIndex::update (indexing side, parameter `end`) and LinearIndex::min_offset (query side, parameter `start`): every division
    or right shift of a value that derives from the position parameter has passed exactly one `- 1`, and the window is 2^14 on both sides."""
    fb = ctx.fb
    pre = "noodles_csi::binning_index::index::reference_sequence::index::linear_index::<impl noodles_csi::binning_index::index::" \
          "reference_sequence::index::Index for alloc::vec::Vec<noodles_bgzf::virtual_position::VirtualPosition>>::"
    sig = {}
    for name, param in (("update", 5), ("min_offset", 4)):
        f = ctx.anchor(rule, pre + name)
        if f is None:
            return
        per = set()
        for blk in f.blocks:
            for st in blk["s"]:
                if st[0] == "=" and st[2][0] == "bin" and st[2][1] in ("Div", "Shr", "ShrUnchecked") and \
                        (R.derives_from_local(f, st[2][2], param, through_calls=True) or C.op_local(st[2][2]) == param):
                    k = C.eval_const(f, st[2][3])
                    width = None if k is None else (k if st[2][1] == "Div" else 1 << k)
                    per.add((_sub1_count(f, st[2][2], param), width))
        if not per:
            ctx.violation(rule, "%s/ANCHOR-MISSING/%s/window" % (rule, name), "LinearIndex::%s: no division or shift of a value derived from the "
                          "position parameter found" % name, f.loc())
            return
        sig[name] = per
    want = {(1, 1 << 14)}
    if sig["update"] == want and sig["min_offset"] == want:
        ctx.ok(rule, "LinearIndex::update and ::min_offset both take (p - 1) / 16384", "")
    else:
        ctx.violation(rule, "%s/window-convention" % rule,
                      "the linear index is filled with windows %s (count of `- 1`, width) but consulted with %s: a region starting on the last "
                      "base of a window is looked up in the next one and the chunk of a feature ending there is pruned" % (
                          sorted(sig["update"], key=str), sorted(sig["min_offset"], key=str)), fb.fns[pre + "min_offset"].loc())


def _sub1_count(f, op, param, depth=0):
    """Number of `- 1` operations on the data-flow path from parameter `param` to the operand (max over paths, small)."""
    if depth > 12:
        return 0
    l = C.op_local(op)
    if l is None:
        p = C.op_place(op)
        l = p[0] if p else None
    if l is None or l == param:
        return 0
    best = 0
    for d in C.defs(f).get(l, []):
        if d[0] in ("=", "partial"):
            rv = d[3]
            if rv[0] == "bin" and rv[1] in ("Sub", "SubWithOverflow", "SubUnchecked") and C.eval_const(f, rv[3]) == 1 and \
                    R.derives_from_local(f, rv[2], param, through_calls=True):
                best = max(best, 1 + _sub1_count(f, rv[2], param, depth + 1))
            else:
                for o in R.rvalue_operands(rv):
                    if R.derives_from_local(f, o, param, through_calls=True) or C.op_local(o) == param:
                        best = max(best, _sub1_count(f, o, param, depth + 1))
        elif d[0] in ("call", "partial-call"):
            for a in d[2]["args"]:
                if R.derives_from_local(f, a, param, through_calls=True) or C.op_local(a) == param:
                    best = max(best, _sub1_count(f, a, param, depth + 1))
    return best


def _names(g):
    return {int(x[0]): x[1] for x in g.names}
