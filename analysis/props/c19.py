"""C19 — CRAM indexing and region queries: filter and entry clauses (DESIGN.md §5 C19; narrow claim)."""
import re

from .. import cfg as C
from .. import rules as R
from .c04 import filtered_return

EXPLANATION = (
    "A deliberately narrow claim. Decided: (R1) the CRAM query (sync) returns a record only on the true edge of intersects(), "
    "and intersects() compares the record's reference sequence id with the queried one before calling Interval::intersects; "
    "the async query compares the reference id and calls Interval::intersects on the path to its record-returning exit "
    "(a multi-reference slice also holds records of other references — genuine defect F12b, repaired); (R2) the container "
    "loader skips index records of other references; (R3) fs::index dispatches multi-reference slices to the per-reference "
    "function (one push per key of the per-reference map, in a loop) and pushes exactly one record otherwise; the slice "
    "length is the difference of consecutive landmarks or container length minus landmark; (R4) the multi-reference indexer "
    "decodes the slice's records with a real reference repository — violated today: it passes Repository::default(), so "
    "building the index of a noodles-written CRAM whose slices hold several references fails (known finding F12a); "
    "(R5) crai writer and reader both handle six columns."
    " (R6) span accumulation: ReferenceSequenceContext::update builds the new slice span as (min(record start, previous start), max(record end, previous end)). (R7) the per-slice range map of the multi-reference indexer does not outlive the slice.")
ASSUMPTIONS = ["container offsets come from Reader::position() before read_container (value not decided)"]
NOT_DECIDED = ["that spans/offsets/landmarks in the index are TRUE (value-level)", "that the query equals the filtered scan for every file layout",
               "the container loader re-reads a container once per index entry: duplicates when one container holds several slices of the queried "
               "reference (not produced by the noodles writer's default one-slice containers; by reading, not demonstrated)"]

K = "noodles_cram::"


def run(ctx):
    fb = ctx.fb
    ctx.rule("C19.R1", "A3 guard: records are returned only behind the reference-id + interval test")
    f = ctx.body("C19.R1", K + "io::reader::query::Query::<'r, 'h, 'i, R>::read_record_buf")
    if f is not None:
        filtered_return(ctx, "C19.R1", f, r"cram::io::reader::query::intersects$")
    fi = ctx.anchor("C19.R1", K + "io::reader::query::intersects")
    if fi is not None:
        calls = [c.get("f") or "" for b, c in fi.calls()]
        refcmp = any(x.endswith("RecordBuf::reference_sequence_id") for x in calls)
        iv = any(x.endswith("region::interval::Interval::intersects") for x in calls)
        if refcmp and iv:
            ctx.ok("C19.R1", fi.key + " compares the reference sequence id and calls Interval::intersects", "", fi.loc())
        else:
            ctx.violation("C19.R1", "C19.R1/intersects-shape/" + fi.key,
                          "cram query intersects() no longer %s: records of another reference in a multi-reference slice are yielded" % (
                              "compares the reference sequence id" if not refcmp else "calls Interval::intersects"), fi.loc())
    fa = ctx.body("C19.R1", K + "r#async::io::reader::query::Query::<'r, 'h, 'i, R>::read_record_buf")
    if fa is not None:
        sw_iv = R.switch_on_call(fa, r"region::interval::Interval::intersects$")
        refc = R.find_calls(fa, r"RecordBuf::reference_sequence_id$")
        if not sw_iv or not refc:
            ctx.violation("C19.R1", "C19.R1/async-filter/" + fa.key,
                          "async cram query no longer %s before returning a record" % ("tests Interval::intersects" if not sw_iv else "compares the reference sequence id"), fa.loc())
        else:
            pos = [bi for bi, blk in enumerate(fa.blocks) for st in blk["s"]
                   if st[0] == "=" and st[1][0] == 0 and st[2][0] == "agg" and st[2][3] == "Ok" and st[2][4] and C.eval_const(fa, st[2][4][0]) == 1]
            cut = {(sb, tt) for sb, tt, ft, _c in sw_iv}
            reach = C.reachable(fa, 0, removed_edges=cut)
            rb = {b for b, c in refc}
            reach2 = C.reachable(fa, 0, removed=rb)
            if any(p in reach for p in pos) or any(p in reach2 for p in pos) or not pos:
                ctx.violation("C19.R1", "C19.R1/async-unfiltered/" + fa.key, "async cram query can return a record without the reference-id and interval tests", fa.loc())
            else:
                ctx.ok("C19.R1", fa.key + " :: Ok(1) only after the reference-id comparison and on the true edge of Interval::intersects", "", fa.loc())

    ctx.rule("C19.R2", "container loader skips index records of other references")
    for key in (K + "io::reader::query::Query::<'r, 'h, 'i, R>::read_next_container", K + "r#async::io::reader::query::read_next_container"):
        f = ctx.body("C19.R2", key)
        if f is None:
            continue
        if R.find_calls(f, r"crai::record::Record::reference_sequence_id$"):
            ctx.ok("C19.R2", key + " compares the index record's reference sequence id", "", f.loc())
        else:
            ctx.violation("C19.R2", "C19.R2/no-reference-filter/" + key, "%s loads containers of every reference" % key, f.loc())

    ctx.rule("C19.R3", "fs::index: per-reference entries for multi-reference slices, exactly one otherwise; slice length from landmarks")
    fp = ctx.anchor("C19.R3", K + "fs::index::push_index_records")
    if fp is not None:
        sw = R.switch_on_call(fp, r"ReferenceSequenceContext::is_many$")
        m = R.find_calls(fp, r"push_index_records_for_multi_reference_slice$")
        s1 = R.find_calls(fp, r"push_index_record_for_single_reference_slice$")
        ok = len(sw) == 1 and len(m) == 1 and len(s1) == 1 and m[0][0] in C.reachable(fp, sw[0][1], removed={sw[0][0]}) and \
            m[0][0] not in C.reachable(fp, sw[0][2], removed={sw[0][0]}) and s1[0][0] in C.reachable(fp, sw[0][2], removed={sw[0][0]})
        if ok:
            ctx.ok("C19.R3", fp.key + " dispatches on reference_sequence_context().is_many()", "", fp.loc())
        else:
            ctx.violation("C19.R3", "C19.R3/dispatch/" + fp.key, "push_index_records no longer dispatches multi-reference slices to the per-reference indexer", fp.loc())
    fm = ctx.anchor("C19.R3", K + "fs::index::push_index_records_for_multi_reference_slice")
    if fm is not None:
        pushes = R.find_calls(fm, r"Vec::<T, A>::push$|Vec::<T>::push$")
        in_loop = [b for b, c in pushes if any(b in body for h, body in C.natural_loops(fm))]
        if pushes and len(in_loop) == len(pushes):
            ctx.ok("C19.R3", fm.key + " pushes one record per reference id inside the loop over the per-reference map", "", fm.loc())
        else:
            ctx.violation("C19.R3", "C19.R3/multi-push/" + fm.key, "the multi-reference indexer no longer pushes one record per reference inside its loop", fm.loc())
    fs = ctx.anchor("C19.R3", K + "fs::index::push_index_record_for_single_reference_slice")
    if fs is not None:
        pushes = R.find_calls(fs, r"Vec::<T, A>::push$|Vec::<T>::push$")
        if len(pushes) == 1 and not any(pushes[0][0] in body for h, body in C.natural_loops(fs)):
            ctx.ok("C19.R3", fs.key + " pushes exactly one record", "", fs.loc())
        else:
            ctx.violation("C19.R3", "C19.R3/single-push/" + fs.key, "the single-reference indexer pushes %d records" % len(pushes), fs.loc())
    fx = None
    if fx is None:
        cands = [k for k in fb.fns if k.startswith(K + "fs::index::") and any((c.get("f") or "").endswith("fs::index::push_index_records") for b, c in fb.fns[k].calls())]
        fx = fb.fns[cands[0]] if cands else None
    if fx is not None:
        subs = [st for blk in fx.blocks for st in blk["s"] if st[0] == "=" and st[2][0] == "bin" and st[2][1].startswith("Sub")]
        pos = R.find_calls(fx, r"::position$")
        rc = R.find_calls(fx, r"::read_container$")
        if len(subs) >= 2 and len(pos) >= 2 and rc:
            ctx.ok("C19.R3", fx.key + " :: slice length = landmark difference / container length - landmark; container position taken around read_container", "", fx.loc())
        else:
            ctx.violation("C19.R3", "C19.R3/slice-length/" + fx.key, "fs::index no longer derives the slice length from the landmarks (subs %d, position() %d)" % (len(subs), len(pos)), fx.loc())

    ctx.rule("C19.R4", "the multi-reference indexer decodes records with a real reference repository")
    if fm is not None:
        dflt = R.find_calls(fm, r"fasta::repository::Repository as core::default::Default>::default$")
        recs = R.find_calls(fm, r"slice::Slice::<'c>::records$|Slice::<'_>::records$|slice::Slice::<.*>::records$")
        if dflt and recs and any(R.derives_from_call(fm, recs[0][1]["args"][1], R.mk_pred(r"Repository as core::default::Default>::default$")) for _ in [0]):
            ctx.violation("C19.R4", "C19.R4/empty-repository/" + fm.key,
                          "fs::index decodes the records of a multi-reference slice with fasta::Repository::default(): every mapped record "
                          "needs its reference, so indexing a noodles-written CRAM with a multi-reference slice fails", fm.loc(dflt[0][0]))
        elif recs:
            ctx.ok("C19.R4", fm.key + " passes a caller-provided repository to Slice::records", "", fm.loc())
        else:
            ctx.violation("C19.R4", "C19.R4/ANCHOR-MISSING/%s/records" % fm.key, "Slice::records call not found", fm.loc())

    ctx.rule("C19.R5", "crai writer and reader handle the same six columns")
    fw = ctx.anchor("C19.R5", K + "crai::io::writer::record::write_record")
    fr = ctx.anchor("C19.R5", K + "crai::io::reader::record::parse_record") if (K + "crai::io::reader::record::parse_record") in fb.fns else None
    if fw is not None:
        acc = {(c.get("f") or "").split("::")[-1] for g in fb.family(fw.key) for b, c in g.calls() if "crai::record::Record::" in (c.get("f") or "")}
        need = {"reference_sequence_id", "alignment_start", "alignment_span", "offset", "landmark", "slice_length"}
        if need <= acc:
            ctx.ok("C19.R5", fw.key + " writes all six crai fields", "", fw.loc())
        else:
            ctx.violation("C19.R5", "C19.R5/writer-columns/" + fw.key, "crai writer no longer writes %s" % sorted(need - acc), fw.loc())
    ctor = "noodles_cram::crai::record::Record::new"
    rd = [k for k, outs in fb.callgraph().items() if ctor in outs and "crai" in k and "reader" in k or ctor in outs and k.endswith("FromStr>::from_str")]
    if rd:
        ctx.ok("C19.R5", "crai records are constructed by %s" % sorted(rd)[:3], "")
    else:
        ctx.violation("C19.R5", "C19.R5/reader-ctor", "no crai reader constructs Record::new")


    ctx.rule("C19.R7", "A10 the per-slice accumulator is per slice: the map in which push_index_records_for_multi_reference_slice collects the "
                       "per-reference ranges of ONE slice is created in that function (or, if it is handed in, cleared before the first "
                       "entry): a map that survives from slice to slice makes every later multi-reference slice list references it does "
                       "not contain, with the hull of the earlier spans")
    from .. import a10 as _a10
    f7 = ctx.anchor("C19.R7", "noodles_cram::fs::index::push_index_records_for_multi_reference_slice")
    if f7 is not None:
        ctx.saw_fn(f7)
        bd7 = _a10.Body(fb, f7)
        ins = [(b, c) for b, c in f7.calls() if re.search(r"hash::map::HashMap(::)?<.*>::(entry|insert)$", c.get("f") or "") and c["args"]]
        if not ins:
            ctx.violation("C19.R7", "C19.R7/ANCHOR-MISSING/multi-reference/accumulator", "no HashMap::entry / insert found in the multi-reference indexer", f7.loc())
        for b7, c7 in ins:
            ident = bd7.pointee(c7["args"][0])
            if ident is not None and ident[0][0] == "l":
                ctx.ok("C19.R7", f7.key, "the accumulator is a local of the function (fresh for every slice)", f7.loc(b7))
                continue
            kb = _a10.kill_blocks(fb, bd7, ident, {}) if ident is not None else set()
            if kb and b7 not in (C.reachable(f7, 0, removed=kb) if 0 not in kb else set()):
                ctx.ok("C19.R7", f7.key, "the handed-in accumulator is cleared before the first entry", f7.loc(b7))
            else:
                ctx.violation("C19.R7", "C19.R7/accumulator-outlives-slice/" + f7.key,
                              "push_index_records_for_multi_reference_slice collects the ranges of a slice in a map it did not create and does "
                              "not clear: the entries of earlier slices stay in it, so the CRAI entries of every later multi-reference slice "
                              "list references the slice does not contain and spans that are the hull of earlier ones", f7.loc(b7))

    ctx.rule("C19.R6", "A7 span accumulation: ReferenceSequenceContext::update (the slice span that the slice header and the CRAI entry carry) "
                       "takes the new start as min(record start, previous START) and the new end as max(record end, previous END)")
    fu = ctx.anchor("C19.R6", "noodles_cram::container::reference_sequence_context::ReferenceSequenceContext::update")
    if fu is not None:
        names = {int(x[0]): x[1] for x in fu.names}
        p_start = [l for l, n in names.items() if n == "alignment_start" and l <= fu.argc]
        p_end = [l for l, n in names.items() if n == "alignment_end" and l <= fu.argc]
        some = R.find_calls(fu, r"ReferenceSequenceContext::some$")
        if not some or not p_start or not p_end or len(some[0][1]["args"]) < 3:
            ctx.violation("C19.R6", "C19.R6/ANCHOR-MISSING/%s/shape" % fu.key, "update() no longer builds Self::some(id, start, end) from its parameters", fu.loc())
        else:
            b, c = some[0]
            for what, arg, mm, plocal, acc in (("start", c["args"][1], "min", p_start[0], "alignment_start"),
                                               ("end", c["args"][2], "max", p_end[0], "alignment_end")):
                other = "alignment_end" if acc == "alignment_start" else "alignment_start"
                calls = [(cb, cc) for cb, cc in fu.calls() if re.search(r"core::cmp::%s$|Ord::%s$" % (mm, mm), cc.get("f") or "")
                         and R.derives_from_local(fu, arg, cc["dest"][0])]
                ok = False
                why = "no %s() feeds the new %s" % (mm, what)
                for cb, cc in calls:
                    kinds = [_operand_source(fu, a) for a in cc["args"]]
                    from_param = ("param", plocal) in kinds
                    from_prev = ("call", acc) in kinds
                    from_wrong = ("call", other) in kinds
                    if from_param and from_prev and not from_wrong:
                        ok = True
                    else:
                        why = "%s(..) operands are %s" % (mm, kinds)
                if ok:
                    ctx.ok("C19.R6", "new %s = %s(record %s, previous %s)" % (what, mm, what, acc), "", fu.loc(b))
                else:
                    ctx.violation("C19.R6", "C19.R6/span-accumulation/%s/%s" % (fu.key, what),
                                  "ReferenceSequenceContext::update does not accumulate the slice %s as %s(record %s, previous %s) (%s): the span "
                                  "written to the slice header and copied into the CRAI entry does not cover every record" % (what, mm, what, acc, why), fu.loc(b))


def _operand_source(f, op, depth=0):
    """Narrow provenance of an operand: ('call', accessor name) | ('param', local) | ('?',). Follows copies and the fields
    of a scrutinee tuple `(a, b, c)` back to the tuple's operands; deliberately does not follow stores through `*self`."""
    l = C.op_local(op)
    while l is not None and depth < 12:
        depth += 1
        if 1 <= l <= f.argc:
            return ("param", l)
        ds = [x for x in C.defs(f).get(l, []) if x[0] in ("=", "call")]
        if len(ds) != 1:
            return ("?",)
        d = ds[0]
        if d[0] == "call":
            return ("call", (d[2].get("f") or "?").split("::")[-1])
        rv = d[3]
        if rv[0] == "use" and rv[1][0] in ("c", "m"):
            base, proj = rv[1][1]
            if not proj:
                l = base
                continue
            # field k of a tuple aggregate
            fld = [p for p in proj if isinstance(p, list) and p[0] == "f"]
            td = [x for x in C.defs(f).get(base, []) if x[0] == "="]
            if fld and len(td) == 1 and td[0][3][0] == "agg" and fld[0][1] < len(td[0][3][4]):
                return _operand_source(f, td[0][3][4][fld[0][1]], depth)
            return ("?",)
        return ("?",)
    return ("?",)
