"""C03 — multithreaded BGZF I/O = single-threaded I/O under every schedule (DESIGN.md §5 C03)."""
import re

from .. import a6
from .. import cfg as C
from .. import rules as R

EXPLANATION = (
    "The schedule-independence argument is ownership + FIFO tickets, both visible in types and CFG: (R1) the sink W / "
    "source R is captured only by the single writer / reader thread closure; the rayon worker closures capture only the "
    "payload, the compression level and the Sender of their own result slot, so a worker can neither write to the sink "
    "nor enqueue a ticket (closure-capture facts + who-may-call write_frame / read_frame_into); (R2) ticket order = "
    "program order: the ticket (a Receiver of the result, checked from the resolved generic argument) is sent in the "
    "caller's own body and that send dominates the rayon::spawn of the work; on the reader side tickets are sent by the "
    "reader thread itself in the order frames were read; (R3) the consumer side blocks on the ticket just dequeued "
    "(Receiver::recv, never try_recv/recv_timeout) before it writes/delivers, and the writer thread's only sink writes "
    "are write_frame calls in that loop plus the EOF marker before Ok; (R4) error surfacing: covered by C14.R4 and "
    "re-checked here for the reader thread (read/parse errors travel through the ticket or the join payload); (R5) the "
    "MT and ST writers share MAX_BUF_SIZE chunking, deflate::encode, write_frame and BGZF_EOF."
    " (R6) the MT writer's public calls are total: no explicit panic in any of its functions — the Done state, which send() enters by itself when the writer thread has failed, is an error exit (genuine defect F9, repaired; the MT reader's identical construct is the matcher's positive control, its Done state is only entered by the caller's own finish())."
    " (R7) one necessary condition of 'seek and finish always terminate' is structural: the MT reader's ticket queue and recycle queue are bounded by the same value n as the priming loop 0..n (or n + k), so the reader thread can never block in send() while pause()/finish() join it."
    " (R8) the MT reader's seek is an instance of the seek typestate rule of C02.R1: the in-block cursor is positioned only after this very seek repositioned the source and loaded the block."
    " (R9) sibling agreement: the sequential loader behind fill_buf / poll_fill_buf of every BGZF reader (single-threaded, indexed, multithreaded, async) keeps loading while the block it received is empty — the block stamp sits in a loop with an exit controlled by the block's data length. (R10) a failed block costs the multithreaded reader neither a buffer nor its place (genuine defect F64, repaired). (R11) MultithreadedWriter::write hands the bytes of the caller to the staging buffer only.")
ASSUMPTIONS = ["crossbeam channels are FIFO and Receiver::recv blocks until a value or disconnect",
               "rayon::spawn runs the closure exactly once",
               "std::thread::JoinHandle::join returns the closure's value"]
NOT_DECIDED = ["termination / deadlock freedom of finish() under every schedule in general (only the queue-capacity condition R7 and the writer's Done state R6 are decided)",
               "byte equality as such (follows from R1-R3 + FIFO; values are not compared)"]

MW = "noodles_bgzf::io::multithreaded_writer::"
MR = "noodles_bgzf::io::multithreaded_reader::"


def run(ctx):
    fb = ctx.fb
    # ---------------------------------------------------------------- R1 ownership
    ctx.rule("C03.R1", "A2 ownership: sink/source captured only by the single I/O thread closure; workers cannot write or enqueue")
    wt = ctx.anchor("C03.R1", MW + "spawn_writer::{closure#0}")
    wk = _spawned_closure(ctx, "C03.R1", MW + "MultithreadedWriter::<W>::send")
    if wt is not None and wk is not None:
        mod_closures = [f for k, f in fb.fns.items() if k.startswith(MW) and f.is_closure and f.captures]
        owners = [f.key for f in mod_closures if "W" in f.captures]
        if owners == [wt.key]:
            ctx.ok("C03.R1", "sink W captured only by the writer thread closure", str(wt.captures), wt.loc())
        else:
            ctx.violation("C03.R1", "C03.R1/sink-owner/" + MW, "closures capturing the sink W: %s (expected only the writer thread)" % owners, wt.loc())
        bad = [c for c in wk.captures if c == "W" or re.search(r"Sender<crossbeam_channel::channel::Receiver<", c) or "JoinHandle" in c]
        if bad:
            ctx.violation("C03.R1", "C03.R1/worker-captures/" + wk.key,
                          "compression worker closure captures %s: it could write to the sink or enqueue tickets out of order" % bad, wk.loc())
        else:
            ctx.ok("C03.R1", "worker closure captures only payload, level and its own result Sender", str(wk.captures), wk.loc())
    callers = sorted(f.root for k, f in fb.fns.items() if k.startswith(MW) for b, c in f.calls()
                     if (c.get("f") or "").endswith("writer::frame::write_frame") or (c.get("f") or "").endswith("Write::write_all"))
    if set(callers) == {MW + "spawn_writer"}:
        ctx.ok("C03.R1", "only spawn_writer's thread body writes to the sink", "%d call site(s)" % len(callers))
    else:
        ctx.violation("C03.R1", "C03.R1/sink-writers/" + MW, "functions writing to the sink in the MT writer module: %s" % sorted(set(callers)))
    rt = ctx.anchor("C03.R1", MR + "spawn_reader::{closure#0}")
    rw = _spawned_closure(ctx, "C03.R1", MR + "spawn_reader::{closure#0}")
    if rt is not None and rw is not None:
        mod_closures = [f for k, f in fb.fns.items() if k.startswith(MR) and f.is_closure and f.captures]
        owners = [f.key for f in mod_closures if "R" in f.captures]
        if owners == [rt.key]:
            ctx.ok("C03.R1", "source R captured only by the reader thread closure", str(rt.captures), rt.loc())
        else:
            ctx.violation("C03.R1", "C03.R1/source-owner/" + MR, "closures capturing the source R: %s" % owners, rt.loc())
        bad = [c for c in rw.captures if c == "R" or re.search(r"Sender<crossbeam_channel::channel::Receiver<", c)]
        if bad:
            ctx.violation("C03.R1", "C03.R1/worker-captures/" + rw.key, "inflate worker closure captures %s" % bad, rw.loc())
        else:
            ctx.ok("C03.R1", "inflate worker captures only its buffer and its own result Sender", str(rw.captures), rw.loc())
    readers = sorted({f.root for k, f in fb.fns.items() if k.startswith(MR) for b, c in f.calls()
                      if (c.get("f") or "").endswith("reader::frame::read_frame_into")})
    if readers == [MR + "spawn_reader"]:
        ctx.ok("C03.R1", "only spawn_reader's thread body reads frames from the source", "")
    else:
        ctx.violation("C03.R1", "C03.R1/source-readers/" + MR, "functions reading frames in the MT reader module: %s" % readers)

    # ---------------------------------------------------------------- R2 ticket order
    ctx.rule("C03.R2", "A3 must-call-before: ticket enqueued in program order before the work is spawned; ticket type is the Receiver")
    fs = ctx.anchor("C03.R2", MW + "MultithreadedWriter::<W>::send")
    if fs is not None:
        sends = R.find_calls(fs, r"crossbeam_channel::channel::Sender::<T>::send$")
        spawns = R.find_calls(fs, r"rayon_core::spawn::spawn$|rayon::spawn$")
        if len(sends) != 1 or len(spawns) != 1:
            ctx.violation("C03.R2", "C03.R2/shape/" + fs.key, "send(): expected exactly one ticket send and one rayon::spawn, found %d/%d" % (len(sends), len(spawns)), fs.loc())
        else:
            (sb, sc), (pb, pc) = sends[0], spawns[0]
            if "Receiver<core::result::Result<" not in sc.get("ga", ""):
                ctx.violation("C03.R2", "C03.R2/ticket-type/" + fs.key, "the ordered channel carries %s, not the Receiver of the result" % sc.get("ga"), fs.loc(sb))
            elif not C.dominates(fs, sb, pb):
                ctx.violation("C03.R2", "C03.R2/order/" + fs.key, "the ticket send no longer dominates rayon::spawn: tickets may be enqueued out of program order", fs.loc(pb))
            else:
                ctx.ok("C03.R2", fs.key + " :: write_tx.send(ticket) dominates rayon::spawn; ticket = Receiver<io::Result<FrameParts>>", "", fs.loc(sb))
    if rt is not None:
        sends = R.find_calls(rt, r"crossbeam_channel::channel::Sender::<T>::send$")
        reads = R.find_calls(rt, r"reader::frame::read_frame_into$")
        ok = len(sends) == 1 and len(reads) == 1 and C.dominates(rt, reads[0][0], sends[0][0]) and \
            re.search(r"Receiver<\(?core::result::Result<", sends[0][1].get("ga", "")) is not None
        if ok:
            ctx.ok("C03.R2", rt.key + " :: the reader thread itself enqueues the ticket after read_frame_into, in file order", "", rt.loc())
        else:
            ctx.violation("C03.R2", "C03.R2/reader-order/" + rt.key, "reader thread no longer enqueues one Receiver ticket per frame after reading it", rt.loc())
        # the worker closure must not enqueue tickets
        if rw is not None and any("Receiver<" in (c.get("ga") or "") for b, c in R.find_calls(rw, r"Sender::<T>::send$")):
            ctx.violation("C03.R2", "C03.R2/worker-enqueues/" + rw.key, "inflate worker enqueues tickets", rw.loc())

    # ---------------------------------------------------------------- R3 blocking receive on the ticket just dequeued
    ctx.rule("C03.R3", "A3 consumer blocks (Receiver::recv) on the dequeued ticket before writing / delivering")
    if wt is not None:
        recvs = R.find_calls(wt, r"crossbeam_channel::channel::Receiver::<T>::recv$")
        nonblocking = R.find_calls(wt, r"Receiver::<T>::(try_recv|recv_timeout|recv_deadline|try_iter)$")
        wf = R.find_calls(wt, r"writer::frame::write_frame$")
        if nonblocking:
            ctx.violation("C03.R3", "C03.R3/nonblocking/" + wt.key, "writer thread uses a non-blocking receive: a slow worker's block would be skipped", wt.loc(nonblocking[0][0]))
        elif len(recvs) != 2 or len(wf) != 1:
            ctx.violation("C03.R3", "C03.R3/shape/" + wt.key, "writer thread: expected 2 blocking recv() and 1 write_frame, found %d/%d" % (len(recvs), len(wf)), wt.loc())
        else:
            tick = [r for r in recvs if "Receiver<core::result::Result<" in r[1].get("ga", "")]
            res = [r for r in recvs if r not in tick]
            if len(tick) == 1 and len(res) == 1 and C.dominates(wt, tick[0][0], res[0][0]) and C.dominates(wt, res[0][0], wf[0][0]) \
                    and R.derives_from_call(wt, res[0][1]["args"][0], R.mk_pred(r"Receiver::<T>::recv$")):
                loops = C.natural_loops(wt)
                same = any(tick[0][0] in body and res[0][0] in body and wf[0][0] in body for _h, body in loops)
                if same:
                    ctx.ok("C03.R3", wt.key + " :: write_frame dominated by write_rx.recv() -> ticket.recv() in the same loop", "", wt.loc())
                else:
                    ctx.violation("C03.R3", "C03.R3/loop/" + wt.key, "ticket receive, result receive and write_frame are not in one loop", wt.loc())
            else:
                ctx.violation("C03.R3", "C03.R3/dominance/" + wt.key, "write_frame is not dominated by the blocking receive of the ticket just dequeued", wt.loc())
    frb = ctx.anchor("C03.R3", MR + "recv_buffer")
    if frb is not None:
        recvs = R.find_calls(frb, r"crossbeam_channel::channel::Receiver::<T>::recv$")
        nonblocking = [x for g in fb.family(frb.key) for x in R.find_calls(g, r"Receiver::<T>::(try_recv|recv_timeout|recv_deadline|try_iter)$")]
        # the second receive may sit in a closure applied to the result of the first (`.and_then(|ticket| ticket.recv().ok())`)
        inner = [x for g in fb.family(frb.key) if g.is_closure for x in R.find_calls(g, r"crossbeam_channel::channel::Receiver::<T>::recv$")]
        chained = len(recvs) == 1 and len(inner) == 1 and bool(R.find_calls(frb, r"option::Option::<T>::and_then$|result::Result::<T, E>::and_then$"))
        if nonblocking or not ((len(recvs) == 2 and C.dominates(frb, recvs[0][0], recvs[1][0])) or chained):
            ctx.violation("C03.R3", "C03.R3/recv_buffer/" + frb.key, "recv_buffer no longer blocks on the ticket and then on its result", frb.loc())
        else:
            ctx.ok("C03.R3", frb.key + " :: ticket.recv() then result.recv(), both blocking", "", frb.loc())
    # all other consumers in the MT modules: no try_recv at all
    nb = [(k, b) for k, f in fb.fns.items() if k.startswith((MW, MR)) for b, c in f.calls()
          if re.search(r"(try_recv|recv_timeout|recv_deadline|try_send|send_timeout)$", c.get("f") or "")]
    if nb:
        ctx.violation("C03.R3", "C03.R3/nonblocking-any/" + nb[0][0], "non-blocking channel operation in the MT modules", fb.fns[nb[0][0]].loc(nb[0][1]))
    else:
        ctx.ok("C03.R3", "no try_recv/recv_timeout/try_send in the MT reader and writer modules", "")

    # ---------------------------------------------------------------- R4 reader-side error surfacing
    ctx.rule("C03.R4", "A5a reader thread: a read error ends the thread with Err (join payload); a parse error travels through the ticket")
    if rt is not None:
        errs = [b for b, k in C.exit_points(rt) if k == "err"]
        if errs:
            ctx.ok("C03.R4", rt.key + " :: read_frame_into error returns Err(ReadError(..)) from the thread", "", rt.loc(errs[0]))
        else:
            ctx.violation("C03.R4", "C03.R4/reader-error/" + rt.key, "reader thread no longer returns read errors", rt.loc())
    if rw is not None:
        pb = R.find_calls(rw, r"reader::frame::parse_block$")
        sd = R.find_calls(rw, r"Sender::<T>::send$")
        if pb and sd and R.derives_from_call(rw, sd[0][1]["args"][1], R.mk_pred(r"reader::frame::parse_block$")):
            ctx.ok("C03.R4", rw.key + " :: parse_block's io::Result is what is sent through the ticket", "", rw.loc())
        else:
            ctx.violation("C03.R4", "C03.R4/parse-error/" + rw.key, "inflate worker no longer sends parse_block's Result through the ticket", rw.loc())
    ffin = ctx.anchor("C03.R4", MR + "MultithreadedReader::<R>::finish")
    if ffin is not None:
        if R.find_calls(ffin, r"JoinHandle::<T>::join$"):
            ctx.ok("C03.R4", ffin.key + " :: finish() joins the reader thread and returns its error", "", ffin.loc())
        else:
            ctx.violation("C03.R4", "C03.R4/finish-join/" + ffin.key, "MT reader finish() no longer joins the reader thread", ffin.loc())

    # ---------------------------------------------------------------- R5 twins
    ctx.rule("C03.R5", "A9 MT and ST writers share chunking constant, deflate::encode, write_frame, BGZF_EOF; MT reader shares parse_block")
    maxbuf = fb.const_val("noodles_bgzf::io::writer::MAX_BUF_SIZE")
    for key, kinds, side in ((MW + "MultithreadedWriter::<W>::remaining", ("Sub", "SubWithOverflow"), 2),
                             (MW + "MultithreadedWriter::<W>::has_remaining", ("Lt",), 3)):
        f = ctx.anchor("C03.R5", key)
        if f is None:
            continue
        # the budget operand must evaluate to exactly the single-threaded writer's MAX_BUF_SIZE
        hits = [st for blk in f.blocks if not blk.get("cu") for st in blk["s"]
                if st[0] == "=" and st[2][0] == "bin" and st[2][1] in kinds and C.eval_const(f, st[2][side]) is not None]
        if hits and maxbuf is not None and all(C.eval_const(f, st[2][side]) == maxbuf for st in hits):
            ctx.ok("C03.R5", key + " budget == MAX_BUF_SIZE (%s)" % maxbuf, "", f.loc())
        else:
            ctx.violation("C03.R5", "C03.R5/chunk-constant/" + key,
                          "%s no longer uses exactly the single-threaded writer's MAX_BUF_SIZE: block boundaries differ" % key, f.loc())
    fwr = ctx.anchor("C03.R5", "<noodles_bgzf::io::multithreaded_writer::MultithreadedWriter<W> as std::io::Write>::write")
    if fwr is not None:
        mins = R.find_calls(fwr, r"core::cmp::Ord::min$|as core::cmp::Ord>::min$")
        rem = R.find_calls(fwr, r"MultithreadedWriter::<W>::remaining$")
        if mins and rem:
            ctx.ok("C03.R5", fwr.key + " :: amt = remaining().min(buf.len())", "", fwr.loc())
        else:
            ctx.violation("C03.R5", "C03.R5/chunking/" + fwr.key, "MT write() no longer chunks by remaining().min(buf.len())", fwr.loc())
        sw = R.switch_on_call(fwr, r"MultithreadedWriter::<W>::has_remaining$")
        if len(sw) == 1:
            R.must_pass(ctx, "C03.R5", fwr.key, r"MultithreadedWriter<W> as std::io::Write>::flush$", "MT write() flushes a full block",
                        only_if_edge=sw[0][2], fn=fwr)
        else:
            ctx.violation("C03.R5", "C03.R5/write-guard/" + fwr.key, "MT write() no longer tests has_remaining()", fwr.loc())
    R.must_pass(ctx, "C03.R5", MW + "compress", r"noodles_bgzf::deflate::encode$", "MT compress() uses the shared deflate::encode")
    if wt is not None:
        R.must_pass(ctx, "C03.R5", wt.key, None, "writer thread ends with the shared BGZF_EOF", fn=wt,
                    callpred=R.call_with_const_arg(r"Write>?::write_all$", {"noodles_bgzf::io::writer::BGZF_EOF"}))
    if rw is not None:
        R.must_pass(ctx, "C03.R5", rw.key, r"reader::frame::parse_block$", "inflate worker uses the shared CRC-checking parse_block", fn=rw,
                    exits=C.return_blocks(rw))

    ctx.rule("C03.R9", "A9 sibling agreement: the multithreaded reader's sequential loader skips empty blocks like the single-threaded and the "
                       "async reader (an empty block in mid-file is not end of stream)")
    from .c02 import skip_empty_blocks_rule
    skip_empty_blocks_rule(ctx, "C03.R9", 3)

    # ---------------------------------------------------------------- R6 terminal state is not a panic trap
    ctx.rule("C03.R6", "A6 finish()/write()/flush() of the MT writer are total: the Done state, which send() enters by itself when the "
                       "writer thread has failed, is an error exit and never an explicit panic")
    mw = sorted(k for k in fb.fns if k.startswith(("noodles_bgzf::io::multithreaded_writer::", "<noodles_bgzf::io::multithreaded_writer::")))
    mr = sorted(k for k in fb.fns if k.startswith(("noodles_bgzf::io::multithreaded_reader::", "<noodles_bgzf::io::multithreaded_reader::")))
    k1w = [x for x in a6.sites(fb, mw) if x["kind"] == "K1"]
    k1r = [x for x in a6.sites(fb, mr) if x["kind"] == "K1"]
    ctx.count("mt_writer_functions", len(mw))
    # positive control: the same construct (`panic!("invalid state")`) exists in the MT reader, where Done is only entered by the
    # caller's own finish(), which hands the source back: use-after-finish is a caller error there (triaged in tables/C15_k1.json)
    ctx.floor("C03.R6", "explicit panic sites found in the MT reader (positive control of the matcher)", len(k1r), 5)
    ctx.floor("C03.R6", "MT writer functions inspected", len(mw), 10)
    if not k1w:
        ctx.ok("C03.R6", "no explicit panic in %d MT writer functions" % len(mw), "send()/finish_inner() return an error in the Done state")
    for x in k1w:
        f = fb.fns[x["fn"]]
        ctx.violation("C03.R6", "C03.R6/panic-in-terminal-state/%s/%s" % (f.root, x["what"]),
                      "%s contains an explicit %s!(): after a sink failure has surfaced through write(), send() has already moved the "
                      "writer to Done by itself, and the caller's finish()/flush()/write() panics instead of returning an error" % (
                          f.root, x["what"]), f.loc(x["block"]))

    # ---------------------------------------------------------------- R7 no blocking send on the ordered queue
    ctx.rule("C03.R7", "A8/A4 MT reader: the ordered block queue holds as many tickets as there are buffers in circulation, so the reader "
                       "thread never blocks in send() while pause()/finish() join it (necessary for 'seek and finish always terminate')")
    fres = ctx.anchor("C03.R7", "noodles_bgzf::io::multithreaded_reader::MultithreadedReader::<R>::resume")
    if fres is not None:
        ranges = [st for blk in fres.blocks if not blk.get("cu") for st in blk["s"]
                  if st[0] == "=" and st[2][0] == "agg" and st[2][2].endswith("range::Range") and C.eval_const(fres, st[2][4][0]) == 0]
        bounded = R.find_calls(fres, r"crossbeam_channel::channel::bounded$")
        if len(ranges) != 1 or len(bounded) != 2:
            ctx.violation("C03.R7", "C03.R7/ANCHOR-MISSING/%s/shape" % fres.key,
                          "expected one priming loop `0..n` and two bounded() channels in resume(), found %d and %d" % (len(ranges), len(bounded)), fres.loc())
        else:
            nbuf = _root_local(fres, ranges[0][2][4][1])
            for b, c in bounded:
                what = "ticket queue" if "Receiver<" in (c.get("ga") or "") else "recycle queue"
                cap = c["args"][0]
                root = _root_local(fres, cap)
                ok = root is not None and root == nbuf
                if not ok:
                    # capacity = n + k with a constant k >= 0 is fine as well
                    d = C.single_def(fres, root) if root is not None else None
                    # `n + k` is lowered to `t = AddWithOverflow(n, k); assert; cap = move t.0`
                    if d is not None and d[0] == "=" and d[3][0] == "use" and d[3][1][0] in ("c", "m") and len(d[3][1][1][1]) == 1:
                        d = C.single_def(fres, d[3][1][1][0])
                    if d is not None and d[0] == "=" and d[3][0] == "bin" and d[3][1].startswith("Add"):
                        k = C.eval_const(fres, d[3][3])
                        ok = _root_local(fres, d[3][2]) == nbuf and k is not None and k >= 0
                if ok:
                    ctx.ok("C03.R7", "%s capacity >= number of buffers primed into the recycle queue" % what, "same value `n` as the priming loop 0..n", fres.loc(b))
                else:
                    ctx.violation("C03.R7", "C03.R7/queue-capacity/%s/%s" % (fres.key, what.replace(" ", "-")),
                                  "the %s of the MT reader is bounded by a value other than the number of buffers in circulation: with fewer slots "
                                  "than buffers the reader thread blocks in send() and pause()/finish(), which join it without draining the "
                                  "queue, never return (every seek, get_mut, finish and drop)" % what, fres.loc(b))

    # ---------------------------------------------------------------- R8 MT reader seek: same typestate as the ST reader

    ctx.rule("C03.R10", "a failed block costs the multithreaded reader neither a buffer nor its place: the worker sends the pooled buffer back "
                        "WITH its result (the ticket carries (Result, Buffer)), and read_block recycles that buffer and advances the running "
                        "position over the frame before it returns the error — like the single-threaded reader since F63 (genuine defect F64, "
                        "repaired: one buffer leaked per failed block, later virtual positions differed from the single-threaded reader's)")
    frb10 = ctx.anchor("C03.R10", MR + "MultithreadedReader::<R>::read_block")
    if frb10 is not None:
        ctx.saw_fn(frb10)
        errs = [bi for bi, blk in enumerate(frb10.blocks) if not blk.get("cu") for st in blk["s"]
                if st[0] == "=" and st[1][0] == 0 and not st[1][1] and st[2][0] == "agg" and st[2][3] == "Err"]
        errs += [b for b, c in frb10.calls() if (c.get("f") or "").endswith("::from_residual")]
        sends = {b for b, c in R.find_calls(frb10, r"crossbeam_channel::channel::Sender::<T>::send$")}
        moves = {bi for bi, blk in enumerate(frb10.blocks) if not blk.get("cu") for st in blk["s"]
                 if st[0] == "=" and any(isinstance(p_, list) and p_[0] == "f" and p_[2] == "position" for p_ in st[1][1])}
        if not errs:
            ctx.violation("C03.R10", "C03.R10/ANCHOR-MISSING/read_block/error-exit", "read_block has no error exit: a failed block is no longer reported here", frb10.loc())
        else:
            bad10 = [e for e in errs if e in C.reachable(frb10, 0, removed=sends) or e in C.reachable(frb10, 0, removed=moves)]
            if bad10:
                ctx.violation("C03.R10", "C03.R10/failed-block-not-accounted/" + frb10.key,
                              "read_block returns the error of a failed block on a path that does not recycle the block's buffer or does not "
                              "advance the position over the frame: the pool shrinks by one buffer per failed block (the reader thread ends up "
                              "waiting for a buffer that never comes back) and later virtual positions are too small", frb10.loc(bad10[0]))
            else:
                ctx.ok("C03.R10", frb10.key, "every error exit passes recycle_tx.send and the position update", frb10.loc(errs[0]))
    if rt is not None:
        sends10 = R.find_calls(rt, r"crossbeam_channel::channel::Sender::<T>::send$")
        wk10 = [g for g in fb.family(rt.key) if g.is_closure and g.key != rt.key and R.find_calls(g, r"reader::frame::parse_block$")]
        okw = False
        for g in wk10:
            for b, c in R.find_calls(g, r"crossbeam_channel::channel::Sender::<T>::send$"):
                if re.search(r"\(core::result::Result<\(\), std::io::error::Error>, .*Buffer\)", c.get("ga", "") or ""):
                    okw = True
        if okw:
            ctx.ok("C03.R10", rt.key + " :: the worker sends (result, buffer): the buffer comes back on the error path too", "", rt.loc())
        else:
            ctx.violation("C03.R10", "C03.R10/buffer-dropped-with-error/" + rt.key,
                          "the inflate worker does not send the pooled buffer together with its result: on a parse error the buffer is dropped "
                          "and the reader thread has one buffer less for every failed block", rt.loc())


    ctx.rule("C03.R11", "same blocks as the single-threaded writer: MultithreadedWriter::write hands the caller's bytes to the STAGING buffer only "
                        "(len / min / index / extend_from_slice); no other callee receives a value derived from the caller's slice — a block cut "
                        "straight from the caller's slice starts where the staged bytes end, not where the single-threaded writer's block does")
    fw11 = ctx.anchor("C03.R11", "<noodles_bgzf::io::multithreaded_writer::MultithreadedWriter<W> as std::io::Write>::write")
    if fw11 is not None:
        ctx.saw_fn(fw11)
        ALLOW11 = re.compile(r"slice::<impl \[T\]>::(len|is_empty)$|cmp::Ord::min$|cmp::min$|ops::index::Index<.*::index$|"
                             r"bytes_mut::BytesMut::(extend_from_slice|put_slice)$|buf::buf_mut::BufMut::put_slice$|slice::<impl \[T\]>::(split_at|get)$")
        staged, other = 0, []
        for b11, c11 in fw11.calls():
            fed = any(C.op_local(a) == 2 or R.derives_from_local(fw11, a, 2, through_calls=True) for a in c11["args"])
            if not fed:
                continue
            if ALLOW11.search(c11.get("f") or ""):
                staged += 1 if re.search(r"extend_from_slice$|put_slice$", c11.get("f") or "") else 0
            else:
                other.append((b11, c11.get("f") or ""))
        if other:
            ctx.violation("C03.R11", "C03.R11/block-from-caller-slice/" + fw11.key,
                          "MultithreadedWriter::write passes bytes of the caller's slice to %s instead of staging them: the block boundaries of "
                          "the multithreaded file then depend on what was staged before and differ from the single-threaded writer's" % other[0][1].split("::")[-1],
                          fw11.loc(other[0][0]))
        elif not staged:
            ctx.violation("C03.R11", "C03.R11/ANCHOR-MISSING/write/staging", "MultithreadedWriter::write no longer stages the caller's bytes", fw11.loc())
        else:
            ctx.ok("C03.R11", fw11.key, "the caller's bytes reach only the staging buffer", fw11.loc())

    ctx.rule("C03.R8", "A3 typestate after seeks (the C02.R1 instance for the MT reader): seek_to_virtual_position positions the in-block cursor only "
                       "after this very seek repositioned the source and loaded the block — no shortcut that keeps the current block")
    mts = "<noodles_bgzf::io::multithreaded_reader::MultithreadedReader<R> as noodles_bgzf::io::seek::Seek>::seek_to_virtual_position"
    fs_ = ctx.anchor("C03.R8", mts)
    if fs_ is not None:
        sp = [b for b, c in R.find_calls(fs_, r"io::block::data::Data::set_position$") if C.eval_const(fs_, c["args"][1]) is None]
        if not sp:
            ctx.violation("C03.R8", "C03.R8/ANCHOR-MISSING/%s/set_position" % mts, "MT seek no longer positions the in-block cursor", fs_.loc())
        else:
            R.must_pass(ctx, "C03.R8", mts, r"MultithreadedReader::<R>::read_block$", "MT seek: cursor positioned only after read_block loaded the block",
                        fn=fs_, exits=sp)
            R.must_pass(ctx, "C03.R8", mts, r"std::io::Seek::seek$|as std::io::Seek>::seek$", "MT seek: cursor positioned only after the source was repositioned",
                        fn=fs_, exits=sp, depth=2)


def _spawned_closure(ctx, rule, parent_key):
    """The closure handed to rayon::spawn inside parent_key (found from the call's argument, not by index)."""
    f = ctx.anchor(rule, parent_key)
    if f is None:
        return None
    found = []
    for b, c in R.find_calls(f, r"rayon_core::spawn::spawn$|rayon::spawn$"):
        ga = c.get("ga") or ""
        m = re.search(r"Closure\(DefId\([^)]*~ ([^)]+)\)", ga)
        for st in (st for blk in f.blocks for st in blk["s"]):
            if st[0] == "=" and st[2][0] == "agg" and st[2][1] == "closure":
                l = st[1][0]
                if any(C.op_local(a) == l for a in c["args"]) or R.derives_from_local(f, c["args"][0], l):
                    found.append(st[2][2])
    found = sorted(set(found))
    if len(found) != 1:
        ctx.violation(rule, "%s/ANCHOR-MISSING/%s/rayon-closure" % (rule, parent_key),
                      "expected exactly one closure handed to rayon::spawn in %s, found %s" % (parent_key, found), f.loc())
        return None
    g = ctx.fb.fn(found[0])
    ctx.saw_fn(g)
    return g


def _root_local(f, op, depth=0):
    """Follows copies / moves / tuple-field-0 of checked arithmetic back to the local that holds the value."""
    l = C.op_local(op)
    while l is not None and depth < 12:
        depth += 1
        d = C.single_def(f, l)
        if d is None or d[0] != "=":
            return l
        rv = d[3]
        if rv[0] == "use" and rv[1][0] in ("c", "m"):
            pl = rv[1][1]
            if not pl[1]:
                l = pl[0]
                continue
            return l
        return l
    return l
