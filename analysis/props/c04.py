"""C04 — indexed region queries = linear scan: structural clauses (DESIGN.md §5 C04)."""
import re

from .. import cfg as C
from .. import rules as R

EXPLANATION = (
    "Decides four structural necessary conditions of query = scan; the heart of the property (bin assignment, chunk merging and "
    "pruning for every layout x region) is interval arithmetic over coordinates and is NOT decided. (R1) every format query "
    "loop (BAM, BCF, VCF, SAM-bgzf, CRAM, CSI FilterByRegion; sync and async) returns a record only on the true edge of its "
    "`intersects(..)?` test, and every intersects() compares the reference id/name and calls Interval::intersects; (R2) the "
    "five indexers build each chunk from a virtual position taken before the record read and one taken after the same read "
    "(def-use of Chunk::new's arguments relative to read_record in the loop); (R3) one span definition: alignment_end / "
    "variant_end / variant_span are provided trait methods, overrides are enumerated, and indexer and query filter of a format "
    "reach the same function; (R4) Indexer::add_record rejects unsorted input with an error exit; (R5) the CSI binned "
    "index's min_offset is a minimum over several bins (ancestor bins hold long records that start earlier in the file) — "
    "the necessary condition whose absence was the genuine defect F3, repaired in /repo."
    " (R6) sibling agreement of the binning functions: every value that reg2bin (indexer side) and reg2bins (query side) shift right and that derives from `start` / `end` has passed through exactly one `- 1`, i.e. both use the same 0-based closed interval."
    " (R7) unmapped queries test every record: in all six query_unmapped implementations the closure performing the is_unmapped() test is handed to a per-record combinator, never to a prefix combinator such as skip_while."
    " (R8) presence table (A11): the `(Interval) -> bool` shortcut of each query filter that skips the span test is false whenever a bound is present; the table is computed from the MIR over {None, Some} x {None, Some}, rows with an unmodelled construct are not decided."
    " (R9) every chunk is entered through a seek: in both chunk readers (csi::io::Query, sync and async) State::Read is constructed only behind a seek of the reader to the chunk start. (R10) completeness: the four sync query::next_record loops report Ok(0) only behind the exhausted chunk reader.")
ASSUMPTIONS = ["Interval::intersects and Position arithmetic in noodles-core are correct (unit-tested, value-level)"]
NOT_DECIDED = ["completeness/soundness of reg2bin/reg2bins, chunk merging and min_offset pruning for every layout x region (the core of C04)",
               "that the chunks produced by the indexers are the true file ranges of the records",
               "unmapped query semantics beyond the flag test"]

QUERIES = [
    ("noodles_bam::io::reader::query::next_record", r"noodles_bam::io::reader::query::intersects$"),
    ("noodles_bam::r#async::io::reader::query::Query::<'r, R>::read_record", r"noodles_bam::io::reader::query::intersects$"),
    ("noodles_bcf::io::reader::query::next_record", r"noodles_bcf::io::reader::query::intersects$"),
    ("noodles_bcf::r#async::io::reader::query::Query::<'r, R>::read_record", r"noodles_bcf::r#async::io::reader::query::intersects$"),
    ("noodles_vcf::io::reader::query::next_record", r"noodles_vcf::io::reader::query::intersects$"),
    ("noodles_vcf::r#async::io::reader::query::Query::<'r, 'h, R>::read_record", r"noodles_vcf::io::reader::query::intersects$"),
    ("noodles_sam::io::reader::query::next_record", r"noodles_sam::io::reader::query::intersects$"),
    ("noodles_sam::r#async::io::reader::query::Query::<'r, 'h, R>::read_record", r"noodles_sam::io::reader::query::intersects$"),
]
INTERSECTS = ["noodles_bam::io::reader::query::intersects", "noodles_bcf::io::reader::query::intersects",
              "noodles_bcf::r#async::io::reader::query::intersects", "noodles_vcf::io::reader::query::intersects",
              "noodles_sam::io::reader::query::intersects", "noodles_csi::io::filter_by_region::intersects",
              "noodles_csi::r#async::io::filtered_indexed_records::intersects"]
INDEXERS = ["noodles_bam::fs::index::index_inner", "noodles_bcf::fs::index::index_inner", "noodles_vcf::fs::index::index_inner",
            "noodles_sam::fs::index::index_inner", "noodles_bed::fs::index::index_inner"]


def run(ctx):
    fb = ctx.fb
    ctx.rule("C04.R1", "A3 guard: query loops return a record only on the true edge of intersects(..)?")
    for key, target in QUERIES:
        f = ctx.body("C04.R1", key)
        if f is None:
            continue
        filtered_return(ctx, "C04.R1", f, target)
    for key in INTERSECTS:
        f = ctx.anchor("C04.R1", key)
        if f is None:
            continue
        calls = [c.get("f") or "" for g in fb.family(key) for b, c in g.calls()]
        has_iv = any(x.endswith("region::interval::Interval::intersects") for x in calls)
        has_ref = any(x.split("::")[-1] in ("reference_sequence_id", "reference_sequence_name", "eq", "ne") for x in calls) or \
            any(kind in ("Eq", "Ne") for g in fb.family(key) for b, kind, ops, a, b2 in R._cmp_switches(g)) or \
            any(st[0] == "=" and st[2][0] == "bin" and st[2][1] in ("Eq", "Ne") for g in fb.family(key) for blk in g.blocks for st in blk["s"])
        if has_iv and has_ref:
            ctx.ok("C04.R1", key + " tests the reference and calls Interval::intersects", "", f.loc())
        else:
            ctx.violation("C04.R1", "C04.R1/intersects-shape/" + key,
                          "%s no longer %s" % (key, "calls Interval::intersects" if not has_iv else "compares the reference sequence"), f.loc())
    f = ctx.anchor("C04.R1", "<noodles_csi::io::filter_by_region::FilterByRegion<'_, I, R> as core::iter::traits::iterator::Iterator>::next")
    if f is not None:
        filtered_return(ctx, "C04.R1", f, r"noodles_csi::io::filter_by_region::intersects$", some=True)

    ctx.rule("C04.R2", "A3 ordering: indexers build each chunk from a position before and a position after the same record read")
    for key in INDEXERS:
        f = ctx.anchor("C04.R2", key)
        if f is None:
            continue
        ch = R.find_calls(f, r"bin::chunk::Chunk::new$")
        rd = R.find_calls(f, r"::read_record$|::read_lazy_record$|::read_line$|read_record_buf$")
        vps = R.find_calls(f, r"::virtual_position$")
        if len(ch) != 1 or not rd or len(vps) < 2:
            ctx.violation("C04.R2", "C04.R2/shape/" + key, "%s: expected one Chunk::new, a record read and two virtual_position() calls (found %d/%d/%d)" % (
                key, len(ch), len(rd), len(vps)), f.loc())
            continue
        cb, cc = ch[0]
        a0, a1 = cc["args"][0], cc["args"][1]
        after = [vb for vb, vc in vps if any(C.dominates(f, rb, vb) for rb, _ in rd) and C.dominates(f, vb, cb)
                 and R.derives_from_local(f, a1, vc["dest"][0])]
        before = [vb for vb, vc in vps if not any(C.dominates(f, rb, vb) for rb, _ in rd)]
        l0, l1 = _root_local(f, a0), _root_local(f, a1)
        ok0 = l0 is not None and l1 is not None and l0 != l1 and any(
            d[0] == "=" and d[3][0] == "use" and _root_local(f, d[3][1]) == l1 for d in C.defs(f).get(l0, []))
        if after and before and ok0:
            ctx.ok("C04.R2", key + " :: Chunk::new(start_position, end_position), end taken after read_record, start = previous end", "", f.loc(cb))
        else:
            ctx.violation("C04.R2", "C04.R2/chunk-bounds/" + key,
                          "%s no longer builds the chunk from the position before the read and the position after the same read "
                          "(end-after-read: %s, start-before-loop: %s, start := previous end: %s)" % (key, bool(after), bool(before), ok0), f.loc(cb))

    ctx.rule("C04.R3", "impl table: one span definition shared by indexer and query filter")
    tr = fb.traits.get("noodles_sam::alignment::record::Record")
    if tr is None:
        ctx.violation("C04.R3", "C04.R3/ANCHOR-MISSING/alignment::record::Record", "trait not found")
    else:
        prov = {m["name"] for m in tr["methods"] if m["provided"]}
        if "alignment_end" not in prov:
            ctx.violation("C04.R3", "C04.R3/not-provided/alignment_end", "alignment_end is no longer a provided trait method")
        else:
            ov = sorted(fb.impls_of_trait_item().get("noodles_sam::alignment::record::Record::alignment_end", []))
            allowed = {"<noodles_cram::record::Record<'_> as noodles_sam::alignment::record::Record>::alignment_end":
                       "CRAM records carry features, not a CIGAR: span from the decoded features",
                       "<noodles_sam::alignment::record_buf::RecordBuf as noodles_sam::alignment::record::Record>::alignment_end":
                       "owned record: inherent alignment_end over the owned CIGAR (same formula: start + reference span - 1)"}
            for k in ov:
                if k in allowed:
                    ctx.ok("C04.R3", "override " + k, "tabled: " + allowed[k])
                else:
                    ctx.violation("C04.R3", "C04.R3/override/" + k, "%s overrides alignment_end: indexer and query may disagree on the span" % k, fb.fns[k].loc())
    for idx, q in (("noodles_bam::fs::index::alignment_context", "noodles_bam::io::reader::query::intersects"),
                   ("noodles_sam::fs::index::alignment_context", "noodles_sam::io::reader::query::intersects")):
        fi, fq = fb.fn(idx), fb.fn(q)
        if fi is None or fq is None:
            ctx.violation("C04.R3", "C04.R3/ANCHOR-MISSING/%s" % (idx if fi is None else q), "function not found")
            continue
        ei = {c.get("f") for g in fb.family(idx) for b, c in g.calls() if (c.get("f") or "").split("::")[-1] == "alignment_end"}
        eq = {c.get("f") for g in fb.family(q) for b, c in g.calls() if (c.get("f") or "").split("::")[-1] == "alignment_end"}
        if ei and ei == eq:
            ctx.ok("C04.R3", "%s and %s use the same alignment_end" % (idx, q), str(sorted(ei)))
        else:
            ctx.violation("C04.R3", "C04.R3/span-source/" + idx, "indexer uses %s but the query filter uses %s for the record end" % (sorted(ei), sorted(eq)))

    ctx.rule("C04.R4", "Indexer::add_record rejects unsorted input with an error exit")
    f = ctx.anchor("C04.R4", "noodles_csi::binning_index::indexer::Indexer::<I>::add_record")
    if f is not None:
        errs = [b for b, k in C.exit_points(f) if k == "err"]
        cmps = [b for b, kind, ops, t_t, f_t in R._cmp_switches(f) if kind in ("Lt", "Gt", "Le", "Ge")] + \
            [b for b, c in R.find_calls(f, r"cmp::Ord>::cmp$|cmp::Ord::cmp$|cmp::Ord for \w+>::cmp$|cmp::PartialOrd>::partial_cmp$")]
        if errs and cmps:
            ctx.ok("C04.R4", f.key + " :: %d ordering comparison(s), %d error exit(s)" % (len(cmps), len(errs)), "", f.loc())
        else:
            ctx.violation("C04.R4", "C04.R4/unsorted-accepted/" + f.key, "add_record no longer rejects out-of-order records", f.loc())

    ctx.rule("C04.R6", "A7 sibling agreement: reg2bin (indexer) and reg2bins (query) use the same coordinate convention")
    from .c17 import binning_convention_rule
    binning_convention_rule(ctx, "C04.R6")

    ctx.rule("C04.R8", "A11 presence table: the `(Interval) -> bool` shortcut of every query filter (interval_is_unbounded: skip the span test) is "
                       "false whenever a bound is present — computed from the MIR over {None, Some} x {None, Some}")
    from .. import a11
    n8 = 0
    for k, f in sorted(fb.fns.items()):
        if not re.search(r"::io::reader::query::\w+$", k) or f.argc != 1 or not f.blocks or f.is_closure:
            continue
        if f.locals[0] != "bool" or not f.locals[1].endswith("region::interval::Interval"):
            continue
        n8 += 1
        ctx.saw_fn(f)
        tab = a11.presence_table(fb, f, lambda s_, e_: [("struct", {0: ("opt", s_), 1: ("opt", e_)})])
        wrong = [bits for bits, v in sorted(tab.items()) if (bits[0] or bits[1]) and v is True]
        und = [bits for bits, v in sorted(tab.items()) if v is a11.UNDECIDED]
        fmt = lambda bits: "(start=%s, end=%s)" % tuple("Some" if b else "None" for b in bits)
        if wrong:
            ctx.violation("C04.R8", "C04.R8/half-bounded-treated-as-unbounded/" + k,
                          "%s returns true for %s: a region with one bound is treated as the whole reference sequence, the span test is "
                          "skipped and every record of the scanned chunks is returned" % (k, ", ".join(fmt(b) for b in wrong)), f.loc())
        else:
            ctx.ok("C04.R8", k, "table: %s%s" % ("; ".join("%s -> %s" % (fmt(b), "?" if v is a11.UNDECIDED else v) for b, v in sorted(tab.items())),
                                                 " (rows marked ? use a construct the interpreter does not model: not decided)" if und else ""), f.loc())
    ctx.floor("C04.R8", "(Interval) -> bool helpers in the io::reader::query modules", n8, 4)

    ctx.rule("C04.R9", "every chunk is entered through a seek: State::Read is constructed only behind a seek of the reader to the chunk start "
                       "(csi::io::Query, sync and async: the chunk reader behind every indexed query)")
    chunk_entered_by_seek_rule(ctx, "C04.R9")

    ctx.rule("C04.R5", "binned index min_offset is a minimum over several bins (ancestor bins hold earlier, longer records)")
    key = ("noodles_csi::binning_index::index::reference_sequence::index::binned_index::<impl noodles_csi::binning_index::index::"
           "reference_sequence::index::Index for indexmap::map::IndexMap<usize, noodles_bgzf::virtual_position::VirtualPosition>>::min_offset")
    f = ctx.anchor("C04.R5", key)
    if f is not None:
        mins = [c for g in fb.family(key) for b, c in g.calls() if re.search(r"(Iterator::min|cmp::Ord::min|cmp::min|Iterator::min_by|Iterator::fold)$", c.get("f") or "")]
        if mins:
            ctx.ok("C04.R5", "BinnedIndex::min_offset takes a minimum over bins", "", f.loc())
        else:
            ctx.violation("C04.R5", "C04.R5/first-hit/" + key,
                          "BinnedIndex::min_offset returns the first bin found on the path to the root instead of a minimum: a long record "
                          "stored in an ancestor bin that starts earlier in the file is pruned from region queries", f.loc())


    ctx.rule("C04.R10", "completeness of the filter loop: the sync region queries (bam, bcf, sam, vcf `query::next_record`) report the end of the "
                        "query (Ok(0)) only when the chunk reader is exhausted (the 0 arm of the switch on the inner read count), or behind a "
                        "comparison with the region's end; 'the first record that does not intersect after one that did' is NOT past the "
                        "region when a long record precedes short ones")
    n10 = 0
    for k10, f10 in sorted(fb.fns.items()):
        if not f10.blocks or not re.search(r"^noodles_(bam|bcf|sam|vcf)::io::reader::query::next_record$", k10):
            continue
        n10 += 1
        ctx.saw_fn(f10)
        is_read = R.mk_pred(r"::read_record$|::read_record_buf$|::read_line$")
        eof_edges = set()
        for b, blk in enumerate(f10.blocks):
            t = blk["t"]
            if t[0] == "sw" and not blk.get("cu") and R.derives_from_call(f10, t[1], is_read):
                for v, tg in t[2]:
                    if v == 0:
                        eof_edges.add((b, tg))
        end_guards = set()
        for b, blk in enumerate(f10.blocks):
            t = blk["t"]
            if t[0] == "sw" and not blk.get("cu") and R.derives_from_call(f10, t[1], R.mk_pred(r"interval::Interval::end$|region::Region::end$")):
                for _v, tg in t[2]:
                    end_guards.add((b, tg))
                end_guards.add((b, t[3]))
        zero_exits = [bi for bi, blk in enumerate(f10.blocks) if not blk.get("cu") for st in blk["s"]
                      if st[0] == "=" and st[1][0] == 0 and not st[1][1] and st[2][0] == "agg" and st[2][3] == "Ok" and st[2][4]
                      and C.eval_const(f10, st[2][4][0]) == 0]
        if not eof_edges or not zero_exits:
            ctx.violation("C04.R10", "C04.R10/ANCHOR-MISSING/%s/eof-arm" % k10, "%s: no 0 arm on the inner read count / no Ok(0) exit found" % k10, f10.loc())
            continue
        reach = C.reachable(f10, 0, removed_edges=eof_edges | end_guards)
        bad = [b for b in zero_exits if b in reach]
        if bad:
            ctx.violation("C04.R10", "C04.R10/query-ends-before-exhaustion/" + k10,
                          "%s can return Ok(0) on a path that does not pass the 0 arm of the inner read count: the query ends while the chunk "
                          "reader still holds records, so every later intersecting record (a short record after a long one that ended the "
                          "'within' run) is omitted" % k10, f10.loc(bad[0]))
        else:
            ctx.ok("C04.R10", k10, "Ok(0) only behind the exhausted chunk reader", f10.loc(zero_exits[0]))
    ctx.floor("C04.R10", "sync query::next_record filter loops", n10, 4)

    ctx.rule("C04.R7", "unmapped query: the is_unmapped() test is applied to every record (filter_map / try_filter_map / from_fn loop), never "
                       "by a prefix combinator (skip_while, take_while, find, ...) that stops testing after the first match")
    PREFIX = re.compile(r"::(skip_while|take_while|map_while|try_skip_while|try_take_while|find|find_map|position|skip|take|take_until|skip_until)$")
    nq = 0
    for key in sorted(k for k, f in fb.fns.items() if re.search(r"io::reader::Reader::<.*>::query_unmapped$", k) and not f.is_closure):
        fam = fb.family(key)
        calls = [(g, b, c) for g in fam for b, c in g.calls()]
        tests = [1 for g, b, c in calls if (c.get("f") or "").endswith("::Flags::is_unmapped")]
        if not tests:
            ctx.violation("C04.R7", "C04.R7/no-flag-test/" + key, "%s no longer tests flags().is_unmapped()" % key, fb.fns[key].loc())
            continue
        nq += 1
        ctx.saw_fn(fb.fns[key])
        closures = {g.key for g in fam if g.is_closure}
        bad = None
        for g, b, c in calls:
            fk = c.get("f") or ""
            if not PREFIX.search(fk):
                continue
            # the combinator is handed a closure that performs the unmapped test
            for a in c["args"]:
                l = C.op_local(a)
                d = C.single_def(g, l) if l is not None else None
                if d is not None and d[0] == "=" and d[3][0] == "agg" and d[3][1] == "closure":
                    ck = d[3][2]
                    if any((cc.get("f") or "").endswith("::Flags::is_unmapped") for h in fb.family(ck) for _b, cc in h.calls()):
                        bad = (g, b, fk)
            if bad is not None:
                break
        if bad is None:
            ctx.ok("C04.R7", key + " :: per-record unmapped filter", "%d flag test(s), no prefix combinator" % len(tests), fb.fns[key].loc())
        else:
            g, b, fk = bad
            ctx.violation("C04.R7", "C04.R7/prefix-combinator/%s/%s" % (key, fk.split("::")[-1]),
                          "%s filters with %s: the unmapped test stops being applied after the first match, so every later record is yielded "
                          "whether or not it is flagged unmapped (placed unmapped mates are followed by mapped records)" % (key, fk.split("::")[-1]), g.loc(b))
    ctx.floor("C04.R7", "query_unmapped implementations (BAM/SAM/CRAM, sync + async)", nq, 6)


def filtered_return(ctx, rule, f, target, some=False):
    sws = R.switch_on_try_call(f, target)
    if not sws:
        ctx.violation(rule, "%s/no-filter/%s" % (rule, f.key), "%s no longer branches on %s" % (f.key, target), f.loc())
        return
    # "positive" exits: Ok(n) with n not the constant 0 / Some(..)
    pos = []
    for bi, blk in enumerate(f.blocks):
        if blk.get("cu"):
            continue
        for st in blk["s"]:
            if st[0] == "=" and st[1][0] == 0 and not st[1][1] and st[2][0] == "agg" and st[2][1] == "adt":
                name, variant = st[2][2], st[2][3]
                if name.endswith("result::Result") and variant == "Ok" and st[2][4] and not some:
                    if C.eval_const(f, st[2][4][0]) != 0:
                        pos.append(bi)
                if some and name.endswith("option::Option") and variant == "Some":
                    inner = st[2][4][0] if st[2][4] else None
                    # Some(Err(..)) is an error exit, Some(Ok(record)) is the positive one
                    l = C.op_local(inner) if inner else None
                    d = C.single_def(f, l) if l is not None else None
                    if not (d is not None and d[0] == "=" and d[3][0] == "agg" and d[3][3] == "Err"):
                        pos.append(bi)
    if not pos:
        ctx.violation(rule, "%s/no-positive-exit/%s" % (rule, f.key), "no record-returning exit found in %s" % f.key, f.loc())
        return
    cut = {(sb, tt) for sb, tt, ft, cb in sws}
    reach = C.reachable(f, 0, removed_edges=cut)
    bad = [p for p in pos if p in reach]
    if bad:
        ctx.violation(rule, "%s/unfiltered-return/%s" % (rule, f.key),
                      "%s can return a record without intersects() being true: records outside the region (or of another reference) are yielded" % f.key,
                      f.loc(bad[0]))
    else:
        ctx.ok(rule, f.key, "%d record-returning exit(s), all behind the true edge of the intersects test" % len(pos), f.loc())


def _root_local(f, op, depth=0):
    """The user variable a temporary was copied from (through moves/copies)."""
    l = C.op_local(op)
    while l is not None and depth < 8:
        if f.local_name(l):
            return l
        d = C.single_def(f, l)
        if d is None or d[0] != "=" or d[3][0] != "use":
            return l
        l = C.op_local(d[3][1])
        depth += 1
    return l



def chunk_entered_by_seek_rule(ctx, rule):
    """every chunk is entered through a seek: in the chunk readers behind all indexed queries (csi::io::Query, sync and async) each
    construction of the reading state `State::Read(chunk.end)` is dominated by a call that seeks the reader to the chunk's start.
    A shortcut that keeps reading ('the chunk starts in the block that is already loaded') serves whatever the reader's history left
    there: a second query on the same reader starts behind the chunk start and omits records."""
    fb = ctx.fb
    n = 0
    for key, enum_key in (("<noodles_csi::io::query::Query<'_, R> as std::io::BufRead>::fill_buf", "noodles_csi::io::query::State"),
                          ("<noodles_csi::r#async::io::query::Query<'_, R> as tokio::io::async_buf_read::AsyncBufRead>::poll_fill_buf", "noodles_csi::r#async::io::query::State")):
        f = ctx.anchor(rule, key)
        if f is None:
            continue
        n += 1
        seeks = [b for b, c in f.calls() if re.search(r"(seek_to_virtual_position|::poll_seek|Reader::<R>::seek)$", c.get("f") or "")]
        reads = [bi for bi, blk in enumerate(f.blocks) if not blk.get("cu") for st in blk["s"]
                 if st[0] == "=" and st[2][0] == "agg" and st[2][1] == "adt" and st[2][2] == enum_key and st[2][3] == "Read"]
        if not seeks or not reads:
            ctx.violation(rule, "%s/ANCHOR-MISSING/%s/shape" % (rule, key), "%s: seek call (%d) or State::Read construction (%d) not found" % (key, len(seeks), len(reads)), f.loc())
            continue
        bad = [r for r in reads if not any(C.dominates(f, s_, r) for s_ in seeks)]
        if bad:
            ctx.violation(rule, "%s/chunk-entered-without-seek/%s" % (rule, key),
                          "%s enters the reading state for a chunk on a path that has not sought the reader to the chunk's start: the data "
                          "served depends on where earlier queries or reads left the reader, and records between the chunk start and that "
                          "position are silently omitted" % key, f.loc(bad[0]))
        else:
            ctx.ok(rule, key + " :: State::Read only after a seek to the chunk start", "%d construction(s), %d seek call(s)" % (len(reads), len(seeks)), f.loc(reads[0]))
    ctx.floor(rule, "chunk readers (sync, async)", n, 2)
