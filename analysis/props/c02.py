"""C02 — BGZF virtual positions name bytes: structural clauses (DESIGN.md §5 C02)."""
import re

from .. import cfg as C
from .. import rules as R

EXPLANATION = (
    "Decides structural necessary conditions of tell/seek consistency on the MIR of noodles-bgzf: (R1) typestate "
    "'no stale block after reposition': in every seek implementation (sync, multithreaded, async fn and poll state "
    "machine) each path from the inner seek to a success exit re-establishes the block (Data::resize reached or the "
    "block field reassigned); (R2) the in-block offset is stored only on the edge where it was compared with the loaded "
    "block's data length (sync and MT readers, whose read_exact slices buf[pos..len]); (R3) single source of truth: "
    "every reader's virtual_position() delegates to Block::virtual_position, Block.pos / Reader.position / Data.pos / "
    "Data.len have exactly the confirmed writers and the block position is set from the running compressed position; "
    "(R4) the direct-read fast path is guarded by buf.len() >= BGZF_MAX_ISIZE (paired-guard constant); (R5) the writer's "
    "virtual position is (position, staging_buf.len())."
    " R5 also decides that every frame the writer emits advances `position` by that frame's size: after each call that writes a frame (write_frame, or a helper of the same return type whose result derives from it) every success path adds a value derived from that call to the position field."
    " (R6) pairing: a reader function that stamps a loaded block with its compressed position also moves the running `position` past that block (a write derived from Block::size, directly or through a reader function it calls), in all four reader variants."
    " (R7) every seek request seeks: the async reader's poll_seek state machine cannot return Ready(Ok) from its resting state without passing the arm that seeks the inner reader (genuine defect F29, repaired: a repeated request for the same position was answered without seeking)."
    " R2 also guards the async twin: async seek / poll_seek position the in-block cursor through a helper that compares the offset with the data length (genuine defect F42, repaired; the caller table used to excuse the async side). R6 treats a Poll::Pending return as an exit. (R1, clause added in round 8) both seeks re-stamp the discarded block themselves after the inner seek.")
ASSUMPTIONS = ["the inner Seek::seek positions the source at the requested compressed offset",
               "crossbeam/rayon deliver blocks in ticket order (C03)"]
NOT_DECIDED = ["equality with a flat-array reference model over arbitrary read/seek histories",
               "monotonicity of positions during sequential reading (value property)",
               "gzi::Index::query's boundary choice (`<=` vs `<` in partition_point) — value-level, invisible to this technique"]

RD = "noodles_bgzf::io::reader::Reader::<R>::"
MT = "noodles_bgzf::io::multithreaded_reader::MultithreadedReader"
AR = "noodles_bgzf::r#async::io::reader::Reader::<R>::"
DATA = "noodles_bgzf::io::block::data::Data"
BLOCK = "noodles_bgzf::io::block::Block"


def run(ctx):
    fb = ctx.fb
    # ---------------------------------------------------------------- R1 no stale block after reposition
    ctx.rule("C02.R1", "A3 typestate: after the inner seek every success path re-establishes the block")
    is_seek = lambda c: (c.get("f") or "").endswith("std::io::Seek::seek") or (c.get("f") or "").endswith("as std::io::Seek>::seek")
    R.must_pass(ctx, "C02.R1", RD + "seek", r"io::block::data::Data::resize$",
                "sync Reader::seek re-establishes the block data length after repositioning", start_after=is_seek, depth=4)
    R.must_pass(ctx, "C02.R1", "<%s<R> as noodles_bgzf::io::seek::Seek>::seek_to_virtual_position" % MT, r"io::block::data::Data::resize$",
                "MultithreadedReader::seek_to_virtual_position re-establishes the block data length", start_after=is_seek, depth=4)
    # the discarded block is re-stamped by the seek itself: when no frame follows the target (a seek to the end of the file) read_block
    # loads nothing, and tell() would otherwise name the compressed position of the block loaded BEFORE the seek
    for key9, what9 in ((RD + "seek", "sync Reader::seek"),
                        ("<%s<R> as noodles_bgzf::io::seek::Seek>::seek_to_virtual_position" % MT, "MultithreadedReader::seek_to_virtual_position")):
        R.must_pass(ctx, "C02.R1", key9, r"io::block::Block::set_position$",
                    what9 + " stamps the discarded block with the target's compressed position before it tries to load a block",
                    start_after=is_seek, depth=2)
        R.must_pass(ctx, "C02.R1", key9, r"io::block::Block::set_size$",
                    what9 + " resets the discarded block's size (tell() after a seek to the end must not add the old frame's size)",
                    start_after=is_seek, depth=2)
    # async fn seek: the block field is reassigned on every success path after blocks.seek()
    fa = ctx.body("C02.R1", AR + "seek")
    if fa is not None:
        R.must_pass(ctx, "C02.R1", fa.key, None, "async Reader::seek replaces self.block after repositioning", fn=fa,
                    start_after=lambda c: (c.get("f") or "").endswith("r#async::io::reader::inflater::Inflater::<R>::seek"),
                    stmt_pred=R.assigns_field("noodles_bgzf::r#async::io::reader::Reader", "block"))
    fp = ctx.anchor("C02.R1", AR + "poll_seek")
    if fp is not None:
        # Ready(Ok) exits only after the Finish state assigned self.block
        ok_exits = [b for b, k in C.exit_points(fp) if k == "ok"]
        assigns = {bi for bi, blk in enumerate(fp.blocks) if not blk.get("cu") and
                   any(R.assigns_field("noodles_bgzf::r#async::io::reader::Reader", "block")(fp, st) for st in blk["s"])}
        if not assigns:
            ctx.violation("C02.R1", "C02.R1/no-block-reset/" + fp.key, "poll_seek no longer assigns self.block", fp.loc())
        else:
            ctx.ok("C02.R1", fp.key + " :: Finish state assigns self.block (%d site(s))" % len(assigns), "", fp.loc())
    # IndexedReader delegates
    for k in ("<noodles_bgzf::io::indexed_reader::IndexedReader<R> as std::io::Seek>::seek",):
        f = ctx.anchor("C02.R1", k)
        if f is not None:
            R.must_pass(ctx, "C02.R1", k, r"seek_by_uncompressed_position$|seek_with_index$",
                        "IndexedReader::seek delegates to the inner reader's indexed seek", fn=f)

    # the in-block cursor may only be positioned inside a block that this very seek loaded: a shortcut that keeps the
    # current block (whose data buffer may never have been filled: read_block_into_buf inflates into the caller's
    # buffer) serves stale bytes
    for key, loader in ((RD + "seek", r"io::reader::Reader::<R>::read_block$"),
                        ("<%s<R> as noodles_bgzf::io::seek::Seek>::seek_to_virtual_position" % MT, r"MultithreadedReader::<R>::read_block$")):
        f = ctx.anchor("C02.R1", key)
        if f is None:
            continue
        sp = [b for b, c in R.find_calls(f, r"io::block::data::Data::set_position$") if C.eval_const(f, c["args"][1]) is None]
        if not sp:
            ctx.violation("C02.R1", "C02.R1/ANCHOR-MISSING/%s/set_position" % key, "%s no longer positions the in-block cursor" % key, f.loc())
            continue
        R.must_pass(ctx, "C02.R1", key, loader, "the in-block cursor is positioned only after this seek loaded the block (read_block)",
                    fn=f, exits=sp)
        R.must_pass(ctx, "C02.R1", key, r"std::io::Seek::seek$|as std::io::Seek>::seek$",
                    "the in-block cursor is positioned only after the inner source was repositioned", fn=f, exits=sp, depth=2)

    # ---------------------------------------------------------------- R2 in-block offset bounded by the block length
    ctx.rule("C02.R2", "A4 struct invariant pos <= len: set_position(upos) only on the edge upos <= data().len()")

    def len_cmp(fn, ops, kind):
        return any(R.derives_from_call(fn, o, R.mk_pred(r"io::block::data::Data::len$")) for o in ops)

    def nonconst_set_position(fn):
        return [b for b, c in R.find_calls(fn, r"io::block::data::Data::set_position$") if C.eval_const(fn, c["args"][1]) is None]
    R.bound_guard(ctx, "C02.R2", RD + "seek", "upos compared with block data length before set_position", len_cmp,
                  protect=nonconst_set_position)
    R.bound_guard(ctx, "C02.R2", "<%s<R> as noodles_bgzf::io::seek::Seek>::seek_to_virtual_position" % MT,
                  "upos compared with block data length before set_position", len_cmp, protect=nonconst_set_position)
    # the async twin (defect F42: the table below used to excuse the async seek with "an offset past the data reads as an exhausted
    # block" — which is exactly the silent jump into the next block that the sync reader rejects)
    R.bound_guard(ctx, "C02.R2", "noodles_bgzf::r#async::io::reader::set_block_data_position",
                  "upos compared with block data length before set_position (async seek / poll_seek)", len_cmp, protect=nonconst_set_position)
    for akey in (AR + "seek", AR + "poll_seek"):
        fa2 = ctx.body("C02.R2", akey) if akey.endswith("::seek") else ctx.anchor("C02.R2", akey)
        if fa2 is not None:
            if R.find_calls(fa2, r"r#async::io::reader::set_block_data_position$"):
                ctx.ok("C02.R2", akey + " positions the in-block cursor through the guarded helper", "", fa2.loc())
            else:
                ctx.violation("C02.R2", "C02.R2/async-seek-unguarded/" + akey,
                              "%s no longer positions the in-block cursor through set_block_data_position (upos <= data length): an offset "
                              "beyond the block is accepted and reading silently continues in the next block" % akey, fa2.loc())
    # callers of Data::set_position with a non-constant argument: confirmed table
    SETPOS = {
        RD + "seek": "guarded (above)",
        "<%s<R> as noodles_bgzf::io::seek::Seek>::seek_to_virtual_position" % MT: "guarded (above)",
        "noodles_bgzf::io::reader::frame::parse_block_into_buf": "set_position(isize) right after block_initialize(.., isize): pos == len",
        "noodles_bgzf::r#async::io::reader::set_block_data_position": "guarded (below): the async seek / poll_seek position the cursor through this helper (defect F42)",
    }
    callers = {}
    for k, f in fb.fns.items():
        for b, c in f.calls():
            if (c.get("f") or "") == DATA + "::set_position" and C.eval_const(f, c["args"][1]) is None:
                callers.setdefault(f.root, []).append((f, b))
    for root, sites in sorted(callers.items()):
        if root in SETPOS:
            ctx.ok("C02.R2", "set_position caller " + root, "tabled: " + SETPOS[root], sites[0][0].loc(sites[0][1]))
        else:
            ctx.violation("C02.R2", "C02.R2/set_position-caller/" + root,
                          "%s sets the in-block cursor from a non-constant value and is not in the confirmed table "
                          "(pos <= len must be established or read_exact panics)" % root, sites[0][0].loc(sites[0][1]))
    ctx.floor("C02.R2", "non-constant set_position callers", len(callers), 4)
    R.writer_set_rule(ctx, "C02.R2", DATA, "pos", {
        DATA + "::set_position": "setter (callers tabled above)", DATA + "::consume": "min(pos+amt, len)",
        "<%s as core::default::Default>::default" % DATA: "0"}, "Data.pos written only by its own methods")
    R.writer_set_rule(ctx, "C02.R2", DATA, "len", {
        DATA + "::resize": "setter", "<%s as core::default::Default>::default" % DATA: "0"}, "Data.len written only by resize()")
    fcons = ctx.anchor("C02.R2", DATA + "::consume")
    if fcons is not None:
        if R.find_calls(fcons, r"cmp::Ord::min$|as core::cmp::Ord>::min$"):
            ctx.ok("C02.R2", "Data::consume clamps with min(.., len)", "", fcons.loc())
        else:
            ctx.violation("C02.R2", "C02.R2/consume-unclamped/" + fcons.key, "Data::consume no longer clamps the cursor to len", fcons.loc())
    RESIZE = {
        "noodles_bgzf::io::reader::frame::block_initialize": "isize <= BGZF_MAX_ISIZE checked by parse_trailer (C01.R6)",
        RD + "seek": "resize(0): discard",
        "<%s<R> as noodles_bgzf::io::seek::Seek>::seek_to_virtual_position" % MT: "resize(0): discard",
    }
    for k, f in fb.fns.items():
        for b, c in f.calls():
            if (c.get("f") or "") == DATA + "::resize":
                if len(c["args"]) >= 2 and C.eval_const(f, c["args"][1]) == 0:
                    ctx.ok("C02.R2", "resize caller " + f.root, "resize(0) (evaluated constant): discards the data, len <= 65536 trivially", f.loc(b))
                elif f.root in RESIZE:
                    ctx.ok("C02.R2", "resize caller " + f.root, "tabled: " + RESIZE[f.root], f.loc(b))
                else:
                    ctx.violation("C02.R2", "C02.R2/resize-caller/" + f.root,
                                  "%s resizes the block data and is not in the confirmed table (len <= 65536 must hold)" % f.root, f.loc(b))

    # ---------------------------------------------------------------- R3 single source of truth
    ctx.rule("C02.R3", "A2 one definition of the virtual position; confirmed writers of Block.pos / position fields")
    vps = [k for k in fb.fns if k.split("::")[-1] == "virtual_position" and k.startswith(("noodles_bgzf::", "<noodles_bgzf::"))
           and "writer" not in k and k != BLOCK + "::virtual_position" and not k.startswith("noodles_bgzf::virtual_position")]
    for k in sorted(vps):
        f = fb.fns[k]
        ctx.saw_fn(f)
        calls = [c.get("f") or "" for b, c in f.calls()]
        if any(x == BLOCK + "::virtual_position" or x.split("::")[-1] == "virtual_position" for x in calls):
            ctx.ok("C02.R3", k, "delegates to Block::virtual_position (directly or through the inner reader)", f.loc())
        else:
            ctx.violation("C02.R3", "C02.R3/second-definition/" + k,
                          "%s computes a virtual position without delegating to Block::virtual_position" % k, f.loc())
    ctx.floor("C02.R3", "reader virtual_position implementations", len(vps), 5)
    R.writer_set_rule(ctx, "C02.R3", BLOCK, "pos", {BLOCK + "::set_position": "setter"}, "Block.pos written only by set_position")
    R.writer_set_rule(ctx, "C02.R3", BLOCK, "size", {BLOCK + "::set_size": "setter"}, "Block.size written only by set_size")
    SETBP = {
        RD + "read_nonempty_block_with": "self.position, then position += block.size()",
        RD + "seek": "cpos (discarded block)",
        "%s::<R>::read_block" % MT: "self.position, then position += block.size()",
        "<%s<R> as noodles_bgzf::io::seek::Seek>::seek_to_virtual_position" % MT: "cpos (discarded block)",
        AR + "seek": "cpos of the seek target", AR + "poll_seek": "cpos of the seek target",
        "<noodles_bgzf::r#async::io::reader::Reader<R> as tokio::io::async_buf_read::AsyncBufRead>::poll_fill_buf": "this.position, then += size",
    }
    n = 0
    for k, f in fb.fns.items():
        for b, c in f.calls():
            if (c.get("f") or "") == BLOCK + "::set_position":
                n += 1
                if f.root not in SETBP:
                    ctx.violation("C02.R3", "C02.R3/block-position-setter/" + f.root,
                                  "%s sets a block's compressed position and is not in the confirmed table" % f.root, f.loc(b))
                    continue
                # the argument derives from a `position` field or from the seek target (Into<(u64,u16)>)
                a = c["args"][1]
                ok = _derives_from_field(f, a, "position") or R.derives_from_call(f, a, R.mk_pred(r"convert::Into<U>>::into$"))
                if ok:
                    ctx.ok("C02.R3", "Block::set_position in " + f.root, SETBP[f.root], f.loc(b))
                else:
                    ctx.violation("C02.R3", "C02.R3/block-position-source/" + f.root,
                                  "%s sets the block position from something other than the running compressed position / seek target" % f.root, f.loc(b))
    ctx.floor("C02.R3", "Block::set_position call sites", n, 6)
    # position advanced by the size of the block just parsed
    for key in (RD + "read_nonempty_block_with", "%s::<R>::read_block" % MT):
        f = ctx.anchor("C02.R3", key)
        if f is None:
            continue
        adds = [st for blk in f.blocks if not blk.get("cu") for st in blk["s"]
                if st[0] == "=" and st[2][0] == "bin" and st[2][1].startswith("Add") and
                any(nm == "position" for nm, _o in C.place_fields(C.op_place(st[2][2]) or [0, []]))]
        if adds and all(R.derives_from_call(f, a[2][3], R.mk_pred(r"io::block::Block::size$")) for a in adds):
            ctx.ok("C02.R3", key + " :: position += block.size()", "", f.loc())
        else:
            ctx.violation("C02.R3", "C02.R3/position-advance/" + key, "%s no longer advances position by Block::size()" % key, f.loc())

    # ---------------------------------------------------------------- R4 direct-read threshold
    ctx.rule("C02.R4", "A4 paired-guard constant: direct read into the caller's buffer only when buf.len() >= BGZF_MAX_ISIZE")
    fr = ctx.anchor("C02.R4", "<noodles_bgzf::io::reader::Reader<R> as std::io::Read>::read")
    if fr is not None:
        def thr(fn, ops, kind):
            return any(R.const_operand_is(o, keys={"noodles_bgzf::BGZF_MAX_ISIZE"}) or
                       (C.eval_const(fn, o) is not None and C.eval_const(fn, o) >= 65536) for o in ops)
        R.bound_guard(ctx, "C02.R4", fr.key, "read_block_into_buf only if buf.len() >= BGZF_MAX_ISIZE", thr, fn=fr,
                      protect=lambda fn: [b for b, c in R.find_calls(fn, r"Reader::<R>::read_block_into_buf$")])

    # ---------------------------------------------------------------- R5 writer side
    ctx.rule("C02.R5", "writer virtual position = (position, staging_buf.len())")
    fw = ctx.anchor("C02.R5", "noodles_bgzf::io::writer::Writer::<W>::virtual_position")
    if fw is not None:
        tf = R.find_calls(fw, r"TryFrom<\(u64, u16\)>>::try_from$")
        uses_pos = any(_mentions_field(st, "position") for blk in fw.blocks for st in blk["s"])
        uses_len = any(_mentions_field(st, "staging_buf") for blk in fw.blocks for st in blk["s"])
        if tf and uses_pos and uses_len:
            ctx.ok("C02.R5", fw.key, "VirtualPosition::try_from((position, staging_buf.len()))", fw.loc())
        else:
            ctx.violation("C02.R5", "C02.R5/writer-vpos/" + fw.key, "writer virtual_position is no longer built from (position, staging_buf.len())", fw.loc())

    # every frame the writer emits advances `position` by that frame's size: a frame written without the advance makes every
    # later tell() point into the middle of a frame or at an earlier block
    is_wf = R.mk_pred(r"writer::frame::write_frame$")
    wfs = [g for k, g in fb.fns.items() if is_wf(k)]
    wf_ret = wfs[0].locals[0] if wfs else None
    fam = sorted(k for k in fb.fns if k.startswith(("noodles_bgzf::io::writer::Writer::<W>::", "<noodles_bgzf::io::writer::Writer<W> as ")))
    nsites = 0
    for key in fam:
        f = fb.fns[key]
        if f.is_closure:
            continue

        def emits_frame(c):
            k = c.get("f") or ""
            if is_wf(k):
                return True
            g = fb.fns.get(k)
            # a helper that writes a frame and hands its size back: same return type as write_frame (functions that account
            # for the frame themselves return io::Result<()>, and their error value also "derives" from write_frame)
            return g is not None and wf_ret is not None and g.locals[0] == wf_ret and R.returns_from_call(fb, g, is_wf)

        sites = [(b, c) for b, c in f.calls() if emits_frame(c)]
        if not sites:
            continue
        nsites += len(sites)
        ctx.saw_fn(f)

        def advances(fn, st):
            return (st[0] == "=" and st[2][0] == "bin" and st[2][1].startswith("Add")
                    and any(n == "position" for n, _o in C.place_fields(C.op_place(st[2][2]) or [0, []]))
                    and R.derives_from_call_deep(fb, fn, st[2][3], is_wf))
        R.must_pass(ctx, "C02.R5", key, None, "a written frame advances position by its size", fn=f,
                    start_after=emits_frame, stmt_pred=advances)
    ctx.floor("C02.R5", "frame-emitting call sites in the BGZF writer", nsites, 1)

    # ---------------------------------------------------------------- R6 loaded block <-> running position
    ctx.rule("C02.R6", "A3 pairing: whenever a reader stamps a loaded block with its compressed position it also moves its running `position` "
                       "past that block (a value derived from Block::size), in every read and seek implementation (sync, MT, async fn, poll)")
    stamp_position_rule(ctx, "C02.R6", ("noodles_bgzf::io::reader::", "noodles_bgzf::io::multithreaded_reader::", "noodles_bgzf::r#async::io::reader::",
                                        "<noodles_bgzf::r#async::io::reader::", "<noodles_bgzf::io::reader::", "<noodles_bgzf::io::multithreaded_reader::"), 4)

    ctx.rule("C02.R7", "every seek request seeks: the async reader's poll_seek state machine cannot answer Ready(Ok) from its resting state "
                       "without the arm that seeks the inner reader (defect F29: a repeated request for the same position was a no-op)")
    from .c16 import state_machine_action_rule
    state_machine_action_rule(ctx, "C02.R7", "noodles_bgzf::r#async::io::reader::Reader::<R>::poll_seek", "noodles_bgzf::r#async::io::reader::SeekState",
                              r"inflater::Inflater::<R>::poll_seek$", ["noodles_bgzf::r#async::io::reader::builder::Builder::build_from_reader"],
                              "seeking the inner block reader")


def _mentions_field(st, name):
    if st[0] != "=":
        return False
    for o in R.rvalue_operands(st[2]):
        p = C.op_place(o)
        if p and any(nm == name for nm, _o in C.place_fields(p)):
            return True
    return False


def _derives_from_field(f, op, field, max_nodes=200):
    d = C.defs(f)
    p = C.op_place(op)
    if p and any(nm == field for nm, _o in C.place_fields(p)):
        return True
    seen = set()
    stack = list(R.operand_locals(op))
    n = 0
    while stack and n < max_nodes:
        l = stack.pop()
        if l in seen:
            continue
        seen.add(l)
        n += 1
        for df in d.get(l, []):
            if df[0] in ("=", "partial"):
                for o in R.rvalue_operands(df[3]):
                    pp = C.op_place(o)
                    if pp and any(nm == field for nm, _o in C.place_fields(pp)):
                        return True
                    stack.extend(R.operand_locals(o))
    return False


def _advances_position(fb, g, is_size):
    """Does g, or a reader function it reaches within three calls, write the `position` field with a value derived from
    Block::size? (seek -> read_block -> read_nonempty_block_with)"""
    for k in fb.reach([g.key], max_depth=3):
        h = fb.fns.get(k)
        if h is None or h.crate != g.crate:
            continue
        for blk in h.blocks:
            if blk.get("cu"):
                continue
            for st in blk["s"]:
                if st[0] == "=" and any(n == "position" for n, _o in C.place_fields(st[1])) and \
                        any(R.derives_from_call(h, o, is_size) for o in R.rvalue_operands(st[2])):
                    return True
    return False


def stamp_position_rule(ctx, rule, prefixes, floor):
    """Whenever a reader stamps a loaded block with its compressed position it also moves its running `position` past it."""
    fb = ctx.fb
    is_size = R.mk_pred(r"noodles_bgzf::io::block::Block::size$")
    nst = 0
    for key, f in sorted(fb.fns.items()):
        if not key.startswith(prefixes):
            continue
        stamps = [b for b, c in f.calls() if (c.get("f") or "") == "noodles_bgzf::io::block::Block::set_position"]
        if not stamps:
            continue
        # functions that only build a block (frame parsing) and have no reader state are not concerned
        pos_writes = [bi for bi, blk in enumerate(f.blocks) if not blk.get("cu") for st in blk["s"]
                      if st[0] == "=" and any(n == "position" for n, _o in C.place_fields(st[1]))]
        if not pos_writes:
            continue
        nst += len(stamps)
        ctx.saw_fn(f)
        good = set()
        for bi, blk in enumerate(f.blocks):
            if blk.get("cu"):
                continue
            for st in blk["s"]:
                if st[0] == "=" and any(n == "position" for n, _o in C.place_fields(st[1])) and \
                        any(R.derives_from_call(f, o, is_size) for o in R.rvalue_operands(st[2])):
                    good.add(bi)
        # ... or a call to a reader function that does so itself (seek = discard the block, then read_block())
        for b, c in f.calls():
            g = fb.fns.get(c.get("f") or "")
            if g is not None and g.key != f.key and _advances_position(fb, g, is_size):
                good.add(b)
        # a Poll::Pending return counts as an exit too: the stamped block already sits in the reader, a position kept in a local is lost
        ex = C.success_exit_blocks(f) + [b for b, k in C.exit_points(f) if k == "pending"]
        bad = None
        for sb in stamps:
            if sb in good:
                continue
            before = sb in C.reachable(f, 0, removed=good)
            after = [e for e in ex if e in C.reachable(f, sb, removed=good)]
            if before and after:
                bad = sb
                break
        if bad is None:
            ctx.ok(rule, f.root + " :: stamped block and running position move together", "%d stamp(s), %d size-derived position write(s)" % (
                len(stamps), len(good)), f.loc(stamps[0]))
        else:
            ctx.violation(rule, rule + "/position-not-advanced/" + f.root,
                          "%s stamps a loaded block with its compressed position on a path on which the reader's running `position` is not moved "
                          "past that block (no write derived from Block::size): every later block is stamped too low and virtual positions and "
                          "chunk-end tests are off by one block" % f.root, f.loc(bad))
    ctx.floor(rule, "block stamps in the BGZF readers", nst, floor)


def skip_empty_blocks_rule(ctx, rule, floor=3):
    """Sibling agreement of the three BGZF readers (single-threaded, multithreaded, async): the sequential loader behind
    fill_buf / poll_fill_buf keeps loading while the block it got is EMPTY — an empty block in the middle of a file (the EOF
    marker of the first of two concatenated files) is not end of stream. Structure: the stamp of the loaded block sits in a loop
    that has an exit edge controlled by the block's data length (Data::len / has_remaining / is_empty)."""
    fb = ctx.fb
    entries = [k for k, f in fb.fns.items() if k.startswith("<noodles_bgzf::") and "reader" in k and f.blocks and
               (f.trait_item or "").split("::")[-1] in ("fill_buf", "poll_fill_buf") and "block::data" not in k]
    n = 0
    for ek in sorted(entries):
        e = fb.fns[ek]
        ctx.saw_fn(e)
        # the loader: the entry itself or a bgzf function within three calls that stamps the block
        seen, work, loaders = {ek}, [(e, 0)], []
        while work:
            f, d = work.pop()
            if any((c.get("f") or "") == "noodles_bgzf::io::block::Block::set_position" for _b, c in f.calls()):
                loaders.append(f)
                continue
            if d >= 3:
                continue
            for _b, c in f.calls():
                g = fb.fns.get(c.get("f") or "")
                if g is not None and g.blocks and g.key not in seen and g.key.startswith(("noodles_bgzf::", "<noodles_bgzf::")):
                    seen.add(g.key)
                    work.append((g, d + 1))
        if not loaders:
            ctx.violation(rule, "%s/ANCHOR-MISSING/%s/loader" % (rule, ek), "no block-stamping loader found behind %s" % ek, e.loc())
            continue
        n += 1
        for f in loaders:
            ctx.saw_fn(f)
            loops = C.natural_loops(f)
            stamps = [b for b, c in f.calls() if (c.get("f") or "") == "noodles_bgzf::io::block::Block::set_position"]
            ok = False
            for sb in stamps:
                for h, body in loops:
                    if sb not in body:
                        continue
                    # an exit of this loop controlled by the data length of the block
                    tests = set()
                    for b2, c2 in f.calls():
                        if b2 in body and re.search(r"block::data::Data::(len|has_remaining|is_empty)$|Buf>::has_remaining$|Buf>::remaining$", c2.get("f") or "") \
                                and c2.get("dest") and not c2["dest"][1]:
                            from .. import a10
                            tests |= a10._derived_from(f, c2["dest"][0])
                    for s in body:
                        t = f.blocks[s]["t"]
                        if t[0] == "sw" and C.op_local(t[1]) in tests:
                            targets = [tg for _v, tg in t[2]] + ([t[3]] if t[3] is not None else [])
                            if any(tg not in body for tg in targets) or any(_leaves_loop(f, tg, body) for tg in targets):
                                ok = True
            if ok:
                ctx.ok(rule, "%s -> %s" % (ek, f.key), "the block stamp sits in a loop that is left only when the loaded block has data (or at end of stream)", f.loc())
            else:
                ctx.violation(rule, "%s/empty-block-ends-the-stream/%s" % (rule, f.key),
                              "%s (the sequential loader behind %s) no longer keeps loading while the block it received is empty: an empty "
                              "block in the middle of a file (the EOF marker between two concatenated BGZF files) makes fill_buf return an "
                              "empty window, which every caller takes for end of stream — the rest of the file is silently dropped; the other "
                              "readers skip such blocks" % (f.key, ek), f.loc(stamps[0] if stamps else 0))
    ctx.floor(rule, "fill_buf / poll_fill_buf implementations of the BGZF readers", n, floor)


def _leaves_loop(f, start, body):
    b = start
    for _ in range(12):
        if b not in body:
            return True
        t = f.blocks[b]["t"]
        if t[0] == "goto":
            b = t[1]
        elif t[0] == "drop":
            b = t[2]
        elif t[0] == "fe":
            b = t[1]
        else:
            return False
    return False
