"""C14 — writers never hide a sink failure; short writes (DESIGN.md §5 C14; A5a, A5b, A3)."""
import re

from .. import a5
from .. import cfg as C
from .. import rules as R
from . import c01

EXPLANATION = (
    "Workspace-wide error discipline on MIR: (R1) every call returning Result/Poll<Result> whose value is dropped "
    "(`let _ =`, `.ok()`, `drop`, unused) is enumerated; the only tolerated discards are the tabled ones (Drop impls "
    "that cannot return an error, sends to a consumer that may already have failed); (R1b) every match on an "
    "io::Result whose Err edge reaches a success exit is enumerated and must be in the confirmed table (EOF "
    "conversions, Interrupted retries); (R2) no raw Write::write / poll_write outside a delegation or an advance loop "
    "that rejects a 0-byte write; (R3) finish/try_finish/shutdown/Drop of every writer type pass the flush of staged "
    "data and the format terminator (BGZF EOF block, CRAM EOF container) and the thin format writers reach the inner "
    "finisher; (R4) multithreaded writer: a failed ticket send joins the writer thread and returns its error, and the "
    "writer thread propagates compression and sink errors with `?`."
    " (R5) the own-crate closure of every staging Write::write impl reaches the sink only through write_all: a raw sink flush()/write() whose Interrupted escapes write() after bytes were staged makes write_all duplicate them."
    " (R6) a function that creates a file, wraps it in a buffering or compressing writer and returns io::Result<()> passes a flush/finish/try_finish/shutdown on every success path (found the genuine defect F23 in six index fs::write helpers, repaired)."
    " (R3, async BGZF) poll_shutdown drains the sink, writes the EOF block BEFORE anything shuts the inner writer down, and shuts it down (or flushes it) afterwards (genuine defect F36, repaired; the earlier form of this rule demanded the defective poll_close). (R7) a BufWriter constructed in a function and not handed back to the caller (ownership flow) is flushed on every path to a success exit. (R3, alignment writers) every impl of alignment::io::Write::finish reaches a flush / finisher; the only un-repaired no-op is the BAM writer (known finding F10); the SAM writer's was genuine defect F50, repaired.")
ASSUMPTIONS = [
    "std::io::Write::write_all / tokio write_all loop over short writes and retry Interrupted (library contract)",
    "errors can only be lost by discarding a Result value or by matching its Err arm into a success path; panics are C15",
]
NOT_DECIDED = ["byte identity of the output under short writes (follows from write_all semantics)",
               "that the error returned is the sink's own error value rather than a conversion of it"]

# ---- confirmed tables ---------------------------------------------------------------------------
DISCARD_TABLE = {
    ("<noodles_bgzf::io::writer::Writer<W> as core::ops::drop::Drop>::drop", "try_finish"):
        "Drop cannot return an error; the property itself requires Drop to emit data + EOF best-effort",
    ("<noodles_bgzf::io::multithreaded_writer::MultithreadedWriter<W> as core::ops::drop::Drop>::drop", "finish"):
        "Drop cannot return an error",
    ("<noodles_bgzf::io::multithreaded_reader::MultithreadedReader<R> as core::ops::drop::Drop>::drop", "finish"):
        "reader side Drop: joins the reader thread, nothing to report to",
    ("noodles_bgzf::io::multithreaded_writer::MultithreadedWriter::<W>::send::{closure#1}", "send"):
        "compression worker sends its result to the writer thread; if that thread already failed its error is "
        "returned by finish_inner(), the send result carries no further information",
    ("noodles_bgzf::io::multithreaded_reader::MultithreadedReader::<R>::read_block", "send"):
        "recycling an empty buffer back to the reader thread; failure means the reader thread ended and its "
        "result is reported by finish()",
    ("noodles_bgzf::io::multithreaded_reader::spawn_reader::{closure#0}::{closure#0}", "send"):
        "inflate worker to consumer; a dropped consumer has nobody to report to",
}

# io::Result matches whose Err arm may continue to a success exit (fn key -> reason)
ERR_TO_OK_TABLE = {
    "noodles_bam::io::reader::record::read_exact_or_eof": "Interrupted retry (C12.R2)",
    "noodles_bam::r#async::io::reader::record::read_exact_or_eof::{closure#0}": "Interrupted retry",
    "noodles_bcf::io::reader::record::read_exact_or_eof": "Interrupted retry",
    "noodles_bcf::r#async::io::reader::record::read_exact_or_eof::{closure#0}": "Interrupted retry",
    "noodles_bgzf::io::reader::default_read_exact": "Interrupted retry",
    "noodles_bgzf::io::reader::frame::read_frame_into": "UnexpectedEof on the 18 header bytes is end of stream",
    "noodles_util::alignment::io::reader::builder::detect_format":
        "format sniffing on a PEEKED window (nothing is consumed): an inflated stream shorter than the BAM magic number is 'not BAM' (genuine "
        "defect F59, repaired: the empty SAM.gz of the generic writer could not be opened); the chosen reader then meets the same bytes again",
    "noodles_bam::bai::io::reader::index::read_unplaced_unmapped_record_count": "optional trailing field: UnexpectedEof = absent",
    "noodles_bam::bai::r#async::io::reader::index::read_unplaced_unmapped_record_count::{closure#0}": "optional trailing field",
    "noodles_csi::io::reader::index::read_unplaced_unmapped_record_count": "optional trailing field",
    "noodles_csi::r#async::io::reader::index::read_unplaced_unmapped_record_count::{closure#0}": "optional trailing field",
    "noodles_tabix::io::reader::index::read_unplaced_unmapped_record_count": "optional trailing field",
    "noodles_tabix::r#async::io::reader::index::read_unplaced_unmapped_record_count::{closure#0}": "optional trailing field",
    "noodles_bgzf::gzi::io::reader::index::read_index": "UnexpectedEof probing for trailing garbage = clean end",
    "noodles_bgzf::gzi::r#async::io::reader::index::read_index::{closure#0}": "same, async",
    "noodles_bam::io::indexed_reader::builder::read_associated_index": "NotFound on <src>.bai falls back to <src>.csi",
    "noodles_vcf::io::indexed_reader::builder::read_associated_index": "NotFound on .tbi falls back to .csi",
    "noodles_fastq::io::reader::record::definition::read_definition": "read side EOF handling",
    "noodles_fastq::r#async::io::reader::read_name::{closure#0}": "read side EOF handling",
    "noodles_bgzf::io::multithreaded_reader::MultithreadedReader::<R>::pause": "reader side: documented 'Discard read errors' when re-seeking",
    "noodles_bam::record_ref::RecordRef::<'a>::cigar": "read side lazy view: malformed CG aux data falls back to the stored placeholder CIGAR (in-memory parse, no sink involved)",
    "noodles_cram::codecs::aac::encode::encode": "codec fallback between encodings, in-memory Vec sink",
    "noodles_cram::codecs::rans_nx16::encode::encode": "codec fallback between encodings, in-memory Vec sink",
}


def run(ctx):
    fb = ctx.fb
    # ------------------------------------------------------------------ R1 discards
    ctx.rule("C14.R1", "A5a no dropped fallible result (whole workspace, sync+async)")
    ds = a5.discards(fb)
    seen = set()
    for d in ds:
        f = fb.fns[d["fn"]]
        ctx.saw_fn(f)
        short = d["callee"].split("::")[-1]
        tk = (d["fn"], short)
        if tk in DISCARD_TABLE:
            seen.add(tk)
            ctx.ok("C14.R1", "%s discards %s()" % tk, "tabled: " + DISCARD_TABLE[tk], f.loc(d["block"]))
        else:
            ctx.violation("C14.R1", "C14.R1/discard/%s/%s" % tk,
                          "%s drops the Result of %s (%s): an error from the sink or the encoder is hidden" % (
                              d["fn"], d["callee"], d["how"]), f.loc(d["block"]))
    nres = 0
    for k, f in fb.fns.items():
        if a5.in_scope(f):
            for b, c in f.calls():
                if not c["dest"][1] and a5.is_result_ty(f.locals[c["dest"][0]]):
                    nres += 1
    ctx.count("result_returning_call_sites", nres)
    ctx.floor("C14.R1", "Result-returning call sites scanned", nres, 9000)
    ctx.floor("C14.R1", "tabled discards still present", len(seen), 4)

    ctx.rule("C14.R1b", "A5a io::Result matches whose Err edge reaches a success exit must be tabled")
    for s in a5.err_to_ok(fb):
        if a5.result_err_ty(s["ty"]) != "std::io::error::Error":
            continue
        f = fb.fns[s["fn"]]
        ctx.saw_fn(f)
        if s["fn"] in ERR_TO_OK_TABLE:
            ctx.ok("C14.R1b", s["fn"], "tabled: " + ERR_TO_OK_TABLE[s["fn"]], f.loc(s["block"]))
        else:
            ctx.violation("C14.R1b", "C14.R1b/err-swallowed/%s" % s["fn"],
                          "%s matches an io::Result and continues to a success exit from the Err arm (%s): "
                          "an I/O error can be swallowed" % (s["fn"], "error inspected" if s["inspected"] else "error not even read"),
                          f.loc(s["block"]))

    # ------------------------------------------------------------------ R2 raw writes
    ctx.rule("C14.R2", "A5b raw Write::write / poll_write only as delegation or in a zero-checked advance loop")
    ws = a5.raw_io_sites(fb, a5.RAW_WRITE)
    for s in ws:
        f = fb.fns[s["fn"]]
        ctx.saw_fn(f)
        if s["class"] == "delegation":
            ctx.ok("C14.R2", s["fn"], "delegation", f.loc(s["block"]))
        elif s["class"] == "loop":
            # the loop must reject a 0-byte write (otherwise it spins) and advance by the returned count
            wz = any(st[0] == "=" and st[2][0] == "agg" and st[2][2].endswith("io::error::ErrorKind") and st[2][3] == "WriteZero"
                     for blk in f.blocks for st in blk["s"])
            adv = bool(R.find_calls(f, r"::advance$"))
            if wz and adv:
                ctx.ok("C14.R2", s["fn"], "advance loop with WriteZero on 0 bytes", f.loc(s["block"]))
            else:
                ctx.violation("C14.R2", "C14.R2/write-loop/%s" % s["fn"],
                              "raw write loop in %s lacks %s" % (s["fn"], "WriteZero handling" if not wz else "advance by the written count"),
                              f.loc(s["block"]))
        else:
            ctx.violation("C14.R2", "C14.R2/short-write/%s" % s["fn"],
                          "%s calls raw %s once: a short write silently drops the rest of the buffer" % (s["fn"], s["callee"].split("::")[-1]),
                          f.loc(s["block"]))
    # positive control: the analysis does see write_all call sites (zero-expected rule must not be vacuous)
    nwa = sum(1 for k, f in fb.fns.items() if a5.in_scope(f) for b, c in f.calls()
              if (c.get("f") or "").endswith("::write_all"))
    ctx.count("write_all_sites", nwa)
    ctx.floor("C14.R2", "write_all call sites seen by the same scanner", nwa, 250)
    ctx.floor("C14.R2", "raw write sites", len(ws), 1)

    # ------------------------------------------------------------------ R3 finalisation
    ctx.rule("C14.R3", "A3 finish/try_finish/shutdown/Drop reach flush of staged data and the format terminator")
    # BGZF single-threaded writer: same instances as C01.R5
    W = c01.W
    eof_call = R.call_with_const_arg(r"std::io::Write::write_all$|as std::io::Write>::write_all$",
                                     {"noodles_bgzf::io::writer::BGZF_EOF"})
    R.must_pass(ctx, "C14.R3", W + "finish", r"writer::Writer::<W>::try_finish$", "bgzf finish() passes try_finish()")
    R.must_pass(ctx, "C14.R3", W + "try_finish", r"writer::Writer<W> as std::io::Write>::flush$", "bgzf try_finish() flushes")
    R.must_pass(ctx, "C14.R3", W + "try_finish", None, "bgzf try_finish() writes BGZF_EOF", callpred=eof_call)
    fd = ctx.anchor("C14.R3", "<noodles_bgzf::io::writer::Writer<W> as core::ops::drop::Drop>::drop")
    if fd is not None:
        sw = R.switch_on_call(fd, r"option::Option::<T>::is_some$")
        if len(sw) == 1:
            R.must_pass(ctx, "C14.R3", fd.key, r"writer::Writer::<W>::try_finish$", "bgzf Drop passes try_finish()",
                        only_if_edge=sw[0][1], fn=fd, exits=C.return_blocks(fd))
        else:
            ctx.violation("C14.R3", "C14.R3/drop-guard/" + fd.key, "Drop no longer tests inner.is_some()", fd.loc())
    # thin format writers over bgzf
    for key in ("noodles_bam::io::writer::Writer::<noodles_bgzf::io::writer::Writer<W>>::try_finish",
                "noodles_bcf::io::writer::Writer::<noodles_bgzf::io::writer::Writer<W>>::try_finish",
                "noodles_tabix::io::writer::Writer::<W>::try_finish"):
        R.must_pass(ctx, "C14.R3", key, r"noodles_bgzf::io::writer::Writer::<W>::try_finish$", "try_finish() reaches bgzf try_finish()")
    # CRAM
    R.must_pass(ctx, "C14.R3", "noodles_cram::io::writer::Writer::<W>::try_finish", r"cram::io::writer::Writer::<W>::flush$",
                "cram try_finish() flushes pending records")
    R.must_pass(ctx, "C14.R3", "noodles_cram::io::writer::Writer::<W>::try_finish", r"cram::io::writer::container::write_eof_container$",
                "cram try_finish() writes the EOF container")
    R.must_pass(ctx, "C14.R3", "noodles_cram::r#async::io::writer::Writer::<W>::shutdown", r"cram::r#async::io::writer::Writer::<W>::flush$",
                "async cram shutdown() flushes pending records")
    R.must_pass(ctx, "C14.R3", "noodles_cram::r#async::io::writer::Writer::<W>::shutdown",
                r"cram::r#async::io::writer::container::write_eof_container$", "async cram shutdown() writes the EOF container")
    R.must_pass(ctx, "C14.R3", "<noodles_cram::io::writer::Writer<W> as noodles_sam::alignment::io::write::Write>::finish",
                r"cram::io::writer::Writer::<W>::try_finish$", "cram alignment Write::finish reaches try_finish()")
    R.must_pass(ctx, "C14.R3", "noodles_cram::crai::io::writer::Writer::<W>::finish", r"flate2::gz::write::GzEncoder::<W>::finish$",
                "crai finish() finishes the gzip stream")
    # async writers: shutdown reaches the inner shutdown
    for key in ("noodles_bam::r#async::io::writer::Writer::<W>::shutdown", "noodles_vcf::r#async::io::writer::Writer::<W>::shutdown",
                "noodles_csi::r#async::io::writer::Writer::<W>::shutdown", "noodles_tabix::r#async::io::writer::Writer::<W>::shutdown",
                "noodles_bam::bai::r#async::io::writer::Writer::<W>::shutdown", "noodles_cram::crai::r#async::io::writer::Writer::<W>::shutdown",
                "noodles_fasta::fai::r#async::io::writer::Writer::<W>::shutdown"):
        R.must_pass(ctx, "C14.R3", key, r"AsyncWriteExt::shutdown$", "async shutdown() reaches the inner AsyncWriteExt::shutdown")
    # async bgzf writer: poll_shutdown = poll_flush + sink close + EOF bytes
    ps = "<noodles_bgzf::r#async::io::writer::Writer<W> as tokio::io::async_write::AsyncWrite>::poll_shutdown"
    R.must_pass(ctx, "C14.R3", ps, r"async::io::writer::Writer<W> as tokio::io::async_write::AsyncWrite>::poll_flush$",
                "async bgzf poll_shutdown flushes staged data")
    R.must_pass(ctx, "C14.R3", ps, r"Sink<Item>>::poll_(flush|close)$|::poll_close$", "async bgzf poll_shutdown drains the deflate sink (every data block reaches the inner writer)")
    fps = ctx.anchor("C14.R3", ps)
    if fps is not None:
        # Ready(Ok) only after the EOF buffer is exhausted: the success exit is reachable only via has_remaining()==false
        sw = R.switch_on_call(fps, r"::has_remaining$")
        ex = [b for b, k in C.exit_points(fps) if k in ("ok", "tail")]
        if len(sw) != 1 or not ex:
            ctx.violation("C14.R3", "C14.R3/eof-loop/" + ps, "poll_shutdown no longer loops on eof_buf.has_remaining()", fps.loc())
        else:
            sb, tt, ft, _c = sw[0]
            reach = C.reachable(fps, 0, removed_edges={(sb, ft)})
            if any(e in reach for e in ex):
                ctx.violation("C14.R3", "C14.R3/eof-bypass/" + ps, "poll_shutdown can complete before the EOF block is fully written", fps.loc())
            else:
                ctx.ok("C14.R3", ps + " :: Ready(Ok) only when eof_buf is exhausted", "", fps.loc())
        # ordering (defect F36): the EOF block is written BEFORE the inner writer is shut down, and the inner writer is shut down
        # (or at least flushed) AFTER it: a buffering destination otherwise keeps the EOF block in its buffer for ever
        writes = [b for b, c in fps.calls() if re.search(r"AsyncWrite>?::poll_write$", c.get("f") or "")]
        downs = [(b, c) for b, c in fps.calls() if re.search(r"Sink<Item>>::poll_close$|::poll_close$|AsyncWrite>?::poll_shutdown$", c.get("f") or "")
                 and not (c.get("f") or "").endswith("Writer<W> as tokio::io::async_write::AsyncWrite>::poll_shutdown")]
        lasts = [b for b, c in fps.calls() if re.search(r"AsyncWrite>?::poll_(shutdown|flush)$|Sink<Item>>::poll_close$", c.get("f") or "")
                 and not (c.get("f") or "").endswith("Writer<W> as tokio::io::async_write::AsyncWrite>::poll_flush")]
        if not writes:
            ctx.violation("C14.R3", "C14.R3/ANCHOR-MISSING/%s/eof-write" % ps, "poll_shutdown no longer writes the EOF bytes with poll_write", fps.loc())
        else:
            early = [b for b, c in downs if c.get("t") is not None and any(w in C.reachable(fps, c["t"]) for w in writes)]
            if early:
                ctx.violation("C14.R3", "C14.R3/shutdown-before-eof/" + ps,
                              "poll_shutdown shuts the inner writer down (sink poll_close / poll_shutdown) on a path that writes the EOF block "
                              "afterwards: a buffering inner writer keeps those 28 bytes in its buffer, nothing flushes them, and every call "
                              "returns Ok for a file without EOF block", fps.loc(early[0]))
            else:
                after = set()
                for b in lasts:
                    if any(b in C.reachable(fps, fps.blocks[w]["t"][1]["t"]) for w in writes if fps.blocks[w]["t"][1].get("t") is not None):
                        after.add(b)
                okx = [e for e in ex if e in C.reachable(fps, writes[0], removed=after)]
                if after and not okx:
                    ctx.ok("C14.R3", ps + " :: EOF block written before the inner writer is shut down, which happens last", "", fps.loc(writes[0]))
                else:
                    ctx.violation("C14.R3", "C14.R3/no-shutdown-after-eof/" + ps,
                                  "poll_shutdown can complete after writing the EOF block without shutting down / flushing the inner writer: "
                                  "a buffering inner writer keeps the EOF block in its buffer", fps.loc(writes[0]))
        # the EOF buffer is BGZF_EOF
    # who initialises eof_buf with BGZF_EOF
    inits = [k for k, f in fb.fns.items() if k.startswith("noodles_bgzf::r#async::io::writer") and
             any(st[0] == "=" and any((C.op_const(o) or {}).get("def") == "noodles_bgzf::io::writer::BGZF_EOF" for o in R.rvalue_operands(st[2]))
                 for blk in f.blocks for st in blk["s"])]
    if inits:
        ctx.ok("C14.R3", "async bgzf writer eof_buf initialised from BGZF_EOF", ", ".join(inits))
    else:
        ctx.violation("C14.R3", "C14.R3/eof-const/async-bgzf-writer", "async bgzf writer no longer initialises its EOF buffer from BGZF_EOF")
    # alignment Write::finish impls and the generic util writer
    fin = "noodles_sam::alignment::io::write::Write::finish"
    impls = sorted(fb.impls_of_trait_item().get(fin, []))
    ctx.floor("C14.R3", "impls of alignment::io::Write::finish", len(impls), 3)
    # (the SAM text writer's no-op finish was tabled here as harmless until round 7: its Builder wraps the destination in a BufWriter /
    # BGZF writer the caller cannot reach, so the no-op did hide a sink failure: genuine defect F50, repaired; the table is empty now)
    NOOP_OK = {}
    for k in impls:
        f = fb.fns[k]
        ctx.saw_fn(f)
        calls = [c.get("f") or "" for b, c in f.calls()]
        if any(x.endswith("try_finish") or x.endswith("::flush") or x.endswith("::finish") for x in calls):
            ctx.ok("C14.R3", k, "reaches a finisher/flush", f.loc())
        elif k in NOOP_OK:
            ctx.ok("C14.R3", k, "no-op, tabled: " + NOOP_OK[k], f.loc())
        else:
            ctx.violation("C14.R3", "C14.R3/finish-noop/" + k,
                          "%s returns Ok without flushing or finishing its inner writer: staged data and the format "
                          "terminator are only emitted by Drop, where sink errors are discarded" % k, f.loc())
    ui = ctx.anchor("C14.R3", "noodles_util::alignment::io::writer::inner::Inner::<W>::finish")
    if ui is not None:
        got = {c.get("f") for b, c in ui.calls()}
        missing = [k for k in impls if k not in got]
        if missing:
            ctx.violation("C14.R3", "C14.R3/util-finish/" + ui.key, "generic writer finish() does not reach %s" % missing, ui.loc())
        else:
            ctx.ok("C14.R3", ui.key, "every format arm calls its writer's finish()", ui.loc())
    R.must_pass(ctx, "C14.R3", "noodles_util::alignment::io::writer::Writer::<W>::finish", r"writer::inner::Inner::<W>::finish$",
                "generic alignment writer finish() delegates")

    # ------------------------------------------------------------------ R4 multithreaded writer
    ctx.rule("C14.R4", "A3/A5a MT writer: finish = flush + join; failed ticket send joins; thread body propagates with ?")
    MW = "noodles_bgzf::io::multithreaded_writer::MultithreadedWriter::<W>::"
    R.must_pass(ctx, "C14.R4", MW + "finish", r"multithreaded_writer::MultithreadedWriter<W> as std::io::Write>::flush$", "MT finish() flushes")
    R.must_pass(ctx, "C14.R4", MW + "finish", r"MultithreadedWriter::<W>::finish_inner$", "MT finish() joins the writer thread")
    fi = ctx.anchor("C14.R4", MW + "finish_inner")
    if fi is not None:
        joins = R.find_calls(fi, r"JoinHandle::<T>::join$")
        ok = False
        for b, c in joins:
            # the join payload (after unwrap of the panic layer) is what is returned
            _d, uses = __import__("analysis.flow", fromlist=["forward"]).forward(
                fi, [c["dest"][0]], extra_pass=lambda k: k is not None and k.endswith("Result::<T, E>::unwrap"))
            if any(u[0] == "ret" for u in uses):
                ok = True
        if ok:
            ctx.ok("C14.R4", "finish_inner returns the writer thread's io::Result", "", fi.loc())
        else:
            ctx.violation("C14.R4", "C14.R4/join-dropped/" + fi.key, "finish_inner no longer returns the joined writer thread's result", fi.loc())
    fs = ctx.anchor("C14.R4", MW + "send")
    if fs is not None:
        sw = R.switch_on_call(fs, r"result::Result::<T, E>::is_err$")
        if len(sw) != 1:
            ctx.violation("C14.R4", "C14.R4/send-guard/" + fs.key, "send() no longer tests the ticket send for failure", fs.loc())
        else:
            sb, tt, ft, _c = sw[0]
            R.must_pass(ctx, "C14.R4", fs.key, r"MultithreadedWriter::<W>::finish_inner$",
                        "failed ticket send reaches finish_inner()", only_if_edge=tt, fn=fs)
    th = ctx.anchor("C14.R4", "noodles_bgzf::io::multithreaded_writer::spawn_writer::{closure#0}")
    if th is not None:
        # every write_frame / write_all result and the received compression result flow into `?`
        bad = []
        for b, c in th.calls():
            k = c.get("f") or ""
            if k.endswith("writer::frame::write_frame") or k.endswith("Write::write_all"):
                nxt = th.term(c["t"])[1] if c["t"] is not None and th.term(c["t"])[0] == "call" else None
                if not (nxt and (nxt.get("f") or "").endswith("Try>::branch")):
                    bad.append(k)
        if bad:
            ctx.violation("C14.R4", "C14.R4/thread-propagation/" + th.key, "writer thread no longer propagates %s with ?" % bad, th.loc())
        else:
            ctx.ok("C14.R4", th.key + " :: sink writes propagate with ?", "", th.loc())
        R.must_pass(ctx, "C14.R4", th.key, None, "writer thread appends BGZF_EOF before returning Ok", callpred=eof_call, fn=th)

    # ---------------------------------------------------------------- R5 no raw sink flush/write inside a staging write()
    ctx.rule("C14.R5", "A2 who-may-call: the closure of every staging `Write::write` impl reaches the sink only through write_all (which "
                       "absorbs Interrupted): a raw sink flush()/write() whose Interrupted escapes write() after bytes were staged makes "
                       "every caller's write_all retry and duplicate them")
    ws = sorted(k for k in fb.fns if re.search(r"as std::io::Write>::write$", k) and k.startswith("<noodles_"))
    cg = fb.callgraph()
    nw = 0
    for w in ws:
        fw_ = fb.fns[w]
        # delegating impls (return the sink's own count, stage nothing) are classified by R2
        seen = set()
        st = [w]
        while st:
            k = st.pop()
            if k in seen or k not in fb.fns or fb.fns[k].crate != fw_.crate:
                continue
            seen.add(k)
            st.extend(cg.get(k, ()))
            st.extend(fb.children.get(k, ()))
        stages = any(re.search(r"(Extend<[^>]*>>::extend|extend_from_slice|BytesMut::extend|put_slice)$", c.get("f") or "")
                     for k in seen for b, c in fb.fns[k].calls())
        if not stages:
            continue
        nw += 1
        ctx.saw_fn(fw_)
        hits = [(k, c.get("f"), b) for k in sorted(seen) for b, c in fb.fns[k].calls() if c.get("f") in ("std::io::Write::flush", "std::io::Write::write")]
        if not hits:
            ctx.ok("C14.R5", w + " :: sink reached only through write_all", "%d functions in the closure" % len(seen), fw_.loc())
        for k, fk, b in hits:
            ctx.violation("C14.R5", "C14.R5/raw-sink-call-in-write/%s/%s" % (fb.fns[k].root, fk.split("::")[-1]),
                          "%s, reachable from %s after the bytes were staged, calls the sink's raw %s(): an Interrupted from it escapes write() and "
                          "the caller's write_all() writes the same bytes again" % (fb.fns[k].root, w, fk.split("::")[-1]), fb.fns[k].loc(b))
    ctx.floor("C14.R5", "staging Write::write impls", nw, 2)

    # ---------------------------------------------------------------- R6 a writer created and dropped inside one function
    ctx.rule("C14.R6", "A3 local writers: a function that creates a file, wraps it in a buffering / compressing writer and returns io::Result<()> "
                       "passes a flush / finish / try_finish / shutdown on every success path (otherwise the tail is written in Drop, which "
                       "swallows the destination's error)")
    FIN6 = re.compile(r"::(flush|finish|try_finish|shutdown|sync_all|sync_data)$")
    n6 = 0
    for k, f in sorted(fb.fns.items()):
        if f.crate in ("noodles_htsget", "noodles_refget") or not k.startswith(("noodles_", "<noodles_")):
            continue
        if not any(re.search(r"fs::File::create$|fs::file::File::create$", c.get("f") or "") for b, c in f.calls()):
            continue
        body = f
        if not re.match(r"core::result::Result<\(\), std::io::error::Error>", body.locals[0] or ""):
            continue      # the writer is handed back to the caller (build_from_path)
        n6 += 1
        ctx.saw_fn(f)
        R.must_pass(ctx, "C14.R6", k, None, "the locally created writer is flushed / finished before Ok", fn=body,
                    callpred=lambda fn_, c: bool(FIN6.search(c.get("f") or "")))
    ctx.floor("C14.R6", "functions that create, fill and drop a file writer", n6, 12)

    # ---------------------------------------------------------------- R7 a buffering writer that never leaves the function
    ctx.rule("C14.R7", "A3 local buffering writers: a BufWriter (std / tokio) constructed in a function and not handed back to the caller is "
                       "flushed (flush / into_inner / into_parts / shutdown) on every path to a success exit: its Drop flushes too, but "
                       "discards the destination's error")
    from .. import a10
    CTOR7 = re.compile(r"(bufwriter::BufWriter|buf_writer::BufWriter|linewriter::LineWriter)::<\w+>::(new|with_capacity)$")
    FIN7 = re.compile(r"::(flush|into_inner|into_parts|shutdown|finish|try_finish)$")
    n7 = esc7 = 0
    for k, f in sorted(fb.fns.items()):
        if not f.blocks or not k.startswith(("noodles_", "<noodles_")) or f.crate in ("noodles_htsget", "noodles_refget"):
            continue
        for bi, c in f.calls():
            if not CTOR7.search(c.get("f") or "") or c.get("dest") is None or c["dest"][1]:
                continue
            n7 += 1
            ctx.saw_fn(f)
            der = a10._derived_from(f, c["dest"][0])
            own = _owned_flow(f, c["dest"][0])
            if 0 in own:
                esc7 += 1
                ctx.ok("C14.R7", "%s :: %s" % (k, c["f"].split("::")[-3]), "the writer is handed back to the caller (its owner finishes it: R1/R3)", f.loc(bi))
                continue
            fins = {b for b, c2 in f.calls() if FIN7.search(c2.get("f") or "") and any(C.op_local(a) in der for a in c2["args"] if C.op_local(a) is not None)}
            ex = C.success_exit_blocks(f)
            nxt = c.get("t")
            reach = C.reachable(f, nxt, removed=fins) if nxt is not None and nxt not in fins else set()
            bad = [e for e in ex if e in reach]
            if bad:
                ctx.violation("C14.R7", "C14.R7/local-bufwriter-not-flushed/" + k,
                              "%s wraps its destination in a buffering writer that never leaves the function and can reach a success exit without "
                              "flushing it: the buffered tail (for BGZF: the EOF block, or a whole small file) is written in Drop, where a "
                              "failure of the destination is discarded, and the function still reports Ok" % k, f.loc(bi))
            else:
                ctx.ok("C14.R7", "%s :: %s" % (k, c["f"].split("::")[-3]), "flushed on every path to a success exit (%d flush site(s))" % len(fins), f.loc(bi))
    ctx.floor("C14.R7", "BufWriter constructions (all handed back to the caller today: the positive example that the detector sees them)", n7, 8)



def _owned_flow(f, seed):
    """Locals that (may) OWN the value created in `seed`: moves, casts (unsizing of a Box), aggregates and results of calls that
    are handed an owning local by move. Borrows do not transfer ownership: `write_frame(&mut dst, ..)?` does not make the
    function's result own `dst`."""
    own = {seed}
    changed = True
    while changed:
        changed = False
        for blk in f.blocks:
            if blk.get("cu"):
                continue
            for st in blk["s"]:
                if st[0] != "=" or st[1][1] or st[1][0] in own:
                    continue
                rv = st[2]
                if rv[0] in ("use", "cast", "agg", "repeat"):
                    if any(l in own for op in R.rvalue_operands(rv) if op[0] in ("m", "c") and not op[1][1] for l in [op[1][0]]):
                        own.add(st[1][0])
                        changed = True
            t = blk["t"]
            if t[0] == "call":
                d = t[1].get("dest")
                if d is not None and not d[1] and d[0] not in own:
                    if any(a[0] == "m" and not a[1][1] and a[1][0] in own and not f.locals[a[1][0]].startswith("&") for a in t[1]["args"]):
                        own.add(d[0])
                        changed = True
    return own
