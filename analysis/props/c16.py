"""C16 — async readers/writers = sync counterparts: twin comparison (A9)."""
import json
import os
import re

from .. import a9
from .. import cfg as C
from .. import rules as R

VERIF = os.path.dirname(os.path.dirname(os.path.dirname(os.path.abspath(__file__))))

EXPLANATION = (
    "Engler-style cross-check of the hand-written async twins against the sync implementations that the unit tests "
    "pin: every public async function is paired with the same-path sync function (path segment `async` removed). For each "
    "pair the semantic token set of the twin-private call region (functions reachable without leaving the side's own "
    "modules; calls inside the region are not tokens, so extracting or inlining a helper is silent) is computed: calls "
    "into shared workspace code (field codecs, validate, intersects, CRC/EOF checks, builders), primitive transfers by "
    "width and endianness (tokio read_u32_le and the crates' own read_u32_le map to the same token), named and compared "
    "constants, ErrorKinds, try_from type pairs, integer casts, switch values. The two token sets must be equal modulo the "
    "frozen difference table (110 of 286 pairs differ today; the table says which tokens, and a hand-written reason where "
    "the difference was read). A token outside the table — one twin edited alone: a dropped validate/resolve/intersects "
    "call, a changed width, endianness, magic constant or conversion type — is the violation. Plus state-machine rules of "
    "the hand-written poll_* implementations shared with C14.R3/C02.R1."
    " (R3) the async BGZF reader keeps the stamp/position pairing of C02.R6 in async fn seek, poll_seek and poll_fill_buf."
    " (R4) poll functions: a value drained from the receiver's state is stored back or handed to the sink before any Poll::Pending return. (R5) the async BGZF reader's poll_seek state machine cannot answer Ready(Ok) from its resting state without the arm that seeks (genuine defect F29, repaired). (R6) the async CRAM flush advances record_counter by the length of the collection it handed to write_container. (R7) no accumulating read future is polled on the digesting CrcReader (shared with C12.R9). (R8) twin scanners agree on what the number they return counts (genuine defect F49, repaired). (R9) plain helper twins leave their loops on the same kinds of tests.")
ASSUMPTIONS = ["the sync side is pinned by the unit-test suite; the async side inherits that through set equality",
               "the frozen differences are today's behaviour: recorded, partly triaged, not claimed equivalent"]
NOT_DECIDED = ["equality of results under every poll schedule / Pending pattern (only the structural necessary part: same checks, "
               "constants, shared codecs on both sides)", "order of operations (token sets, not sequences)",
               "the 164 async functions without a same-path sync twin (poll state machines, stream adapters): covered only by C02.R1, C14.R3"]

PAIR_FLOOR = 270


def run(ctx):
    fb = ctx.fb
    with open(os.path.join(VERIF, "tables", "C16_diffs.json")) as fh:
        tab = json.load(fh)
    with open(os.path.join(VERIF, "tables", "C16_reasons.json")) as fh:
        reasons = json.load(fh)["reasons"]
    frozen = tab["pairs"]
    ctx.rule("C16.R1", "A9 token-set equality of twin-private regions modulo the frozen difference table")
    ps, un = a9.pairs(fb)
    mods = a9.private_modules(fb)
    entries = [(a, s) for a, s in sorted(ps) if fb.fns[a].vis in ("pub", "n/a")]   # n/a: trait impl methods (poll_* pairs)
    ctx.floor("C16.R1", "public async/sync entry pairs", len(entries), PAIR_FLOOR)
    ctx.count("async_fns_without_same_path_twin", len(un))
    equal = differing = 0
    pending = []      # (crate, side, token, rule, key, message, loc)
    for a, s in entries:
        oa, os_, ra, rs = a9.region_diff(fb, a, s, mods)
        for k in ra + rs:
            ctx.fn_seen.add(k)
        fz = frozen.get(a, {"async_only": [], "sync_only": []})
        fa = {tuple(t) for t in fz["async_only"]}
        fs = {tuple(t) for t in fz["sync_only"]}
        new_a = [t for t in oa if _norm(t) not in {_norm(x) for x in fa}]
        new_s = [t for t in os_ if _norm(t) not in {_norm(x) for x in fs}]
        fa_ = fb.fns[a]
        if new_a or new_s:
            for side, toks in (("async-only", new_a), ("sync-only", new_s)):
                for t in toks:
                    pending.append((fa_.crate, side, _uncounted(t), ("pair", a), t, (fa, fs), "C16.R1", "C16.R1/twin-diff/%s/%s/%s" % (a, side, _tok(t)),
                                    "twins diverge: %s %s appears only on the %s side of %s <-> %s (one twin was edited alone, or a "
                                    "check/constant/width differs)" % (t[0], t[1:], side.split("-")[0], a, s), fa_.loc()))
        elif oa or os_:
            differing += 1
            why = next((r for p, r in reasons.items() if a.startswith(p)), None)
            ctx.ok("C16.R1", "%s <-> sync" % a, "differs only by the frozen tokens (%d async-only, %d sync-only)%s" % (
                len(oa), len(os_), "; reason: " + why if why else "; untriaged"), fa_.loc())
        else:
            equal += 1
            ctx.ok("C16.R1", "%s <-> sync" % a, "token sets equal (%d / %d functions in the regions)" % (len(ra), len(rs)), fa_.loc())
    ctx.count("pairs_equal", equal)
    ctx.count("pairs_differing_frozen", differing)

    ctx.rule("C16.R1b", "A9 type-level groups: all methods of an async type vs all methods of the same-path sync type "
                        "(covers async methods without a same-name twin: Query::read_record vs Iterator::next, poll_* vs blocking)")
    ga, gs = a9.type_groups(fb)
    unset = set(un)
    fgroups = tab.get("groups", {})
    ng = 0
    for owner, akeys in sorted(ga.items()):
        if owner not in gs or not any(k in unset for k in akeys):
            continue
        ng += 1
        oa, os_, ra, rs = a9.group_diff(fb, akeys, gs[owner], mods)
        for k in ra + rs:
            ctx.fn_seen.add(k)
        fz = fgroups.get(owner, {"async_only": [], "sync_only": []})
        fa = {_norm(t) for t in fz["async_only"]}
        fs = {_norm(t) for t in fz["sync_only"]}
        new_a = [t for t in oa if _norm(t) not in fa]
        new_s = [t for t in os_ if _norm(t) not in fs]
        loc = fb.fns[akeys[0]].loc()
        if new_a or new_s:
            for side, toks in (("async-only", new_a), ("sync-only", new_s)):
                for t in toks:
                    pending.append((fb.fns[akeys[0]].crate, side, _uncounted(t), ("group", owner), t, (fa, fs), "C16.R1b", "C16.R1b/group-diff/%s/%s/%s" % (owner, side, _tok(t)),
                                    "twin types diverge: %s %s appears only on the %s side of the methods of %s" % (
                                        t[0], t[1:], side.split("-")[0], owner), loc))
        else:
            ctx.ok("C16.R1b", owner, "%d async / %d sync methods; differences within the frozen table (%d/%d tokens)" % (
                len(akeys), len(gs[owner]), len(oa), len(os_)), loc)
    ctx.floor("C16.R1b", "type-level groups", ng, 20)
    # a token that is new on BOTH sides of the same crate is a consistent two-sided edit that merely sits in differently
    # shaped regions (e.g. inlined in the async method, in a helper on the sync side): it cancels out
    # Uncounted tokens cancel when they are new on both sides anywhere in the crate. Counted tokens (multiplicities) look
    # "new on both sides" after ANY change of one count (x1 vs x2), so they cancel only within one entry, and only when the
    # frozen table already held that token on both sides and both counts moved by the same amount.
    def _count(t):
        t = tuple(str(x) for x in t)
        return int(t[-1][1:]) if t and t[-1].startswith("x") and t[-1][1:].isdigit() else None
    by = {}
    for crate, side, tok, entry, t, fz, rule, key, msg, loc in pending:
        if _count(t) is None:
            by.setdefault((crate, tok), set()).add(side)
    per_entry = {}
    for crate, side, tok, entry, t, fz, rule, key, msg, loc in pending:
        if _count(t) is not None:
            per_entry.setdefault((entry, tok), {})[side] = (_count(t), fz)
    cancelled = 0
    for crate, side, tok, entry, t, fz, rule, key, msg, loc in pending:
        if _count(t) is None:
            if len(by[(crate, tok)]) == 2:
                cancelled += 1
                continue
        else:
            sides = per_entry[(entry, tok)]
            if len(sides) == 2:
                fa_set, fs_set = sides["async-only"][1]
                old_a = [_count(x) for x in fa_set if _uncounted(x) == tok]
                old_s = [_count(x) for x in fs_set if _uncounted(x) == tok]
                if len(old_a) == 1 and len(old_s) == 1 and None not in (old_a[0], old_s[0]) and \
                        sides["async-only"][0] - old_a[0] == sides["sync-only"][0] - old_s[0]:
                    cancelled += 1
                    continue
        ctx.violation(rule, key, msg, loc)
    ctx.count("new_tokens_cancelled_two_sided", cancelled)

    # ---------------------------------------------------------------- hand-written poll state machines
    ctx.rule("C16.R2", "poll_* state machines: no field store between a poll call and its Pending return (no lost progress)")
    n = 0
    for k, f in sorted(fb.fns.items()):
        if "r#async::" not in k or f.is_closure or not (f.trait_item or "").split("::")[-1].startswith("poll_"):
            continue
        n += 1
        ctx.saw_fn(f)
        bad = _store_before_pending(f)
        if bad:
            ctx.violation("C16.R2", "C16.R2/store-before-pending/" + k,
                          "%s stores to self.%s on a path that then returns Poll::Pending without that store being part of a "
                          "state hand-over: progress can be lost or applied twice when the future is polled again" % (k, bad[1]), f.loc(bad[0]))
        else:
            ctx.ok("C16.R2", k, "Pending is returned before any self field is stored on that path (or the store re-parks the state)", f.loc())
    ctx.floor("C16.R2", "hand-written poll_* trait methods on the async side", n, 15)

    ctx.rule("C16.R3", "sibling invariant kept by the async twins: the async BGZF reader (async fn seek, poll_seek, poll_fill_buf) moves its "
                       "running position past every block it stamps, like the sync reader (C02.R6 applied to the async side)")
    from .c02 import stamp_position_rule
    stamp_position_rule(ctx, "C16.R3", ("noodles_bgzf::r#async::io::reader::", "<noodles_bgzf::r#async::io::reader::"), 2)

    ctx.rule("C16.R4", "poll_* functions: a value drained from the receiver's state (split / take / next) is stored back or handed to the "
                       "sink before any Poll::Pending return (Pending drops the locals; the sync twin has no such exit)")
    drained_value_rule(ctx, "C16.R4", ("noodles_", "<noodles_"), 3)

    ctx.rule("C16.R6", "twin invariant kept by the async CRAM writer: flush() advances record_counter by the length of the very collection it "
                       "handed to write_container, like the sync flush (C07.R5 applied to the async side)")
    from .c07 import counter_collection_rule
    counter_collection_rule(ctx, "C16.R6", ("noodles_cram::r#async::io::writer::Writer::<W>::flush",), 1)

    ctx.rule("C16.R7", "split transfers: the async CRAM CrcReader digests the whole filled part of the ReadBuf it is handed, so no accumulating "
                       "read future (read_exact / read_buf / read_to_end) is polled on it (the same rule as C12.R9, decided here for the "
                       "'however the source splits transfers' clause)")
    from . import c12 as _c12
    _c12.digesting_wrapper_rule(ctx, "C16.R7", 1)

    ctx.rule("C16.R8", "twin scanners agree on what the number they return counts: elements appended to the destination (Vec::len difference, "
                       "read_to_end) or bytes taken from the stream (a sum of consume amounts, read_until); only pairs classified on both sides "
                       "are compared (genuine defect F49: the async FASTA read_sequence returned consumed bytes, the sync one bases)")
    from .. import a5 as _a5
    n8 = 0
    for k, f in sorted(fb.fns.items()):
        if "r#async::" in k and k.endswith("::{closure#0}") and re.search(r"^core::result::Result<usize", f.locals[0] or ""):
            tw = k.replace("r#async::", "")[:-len("::{closure#0}")]
            if tw not in fb.fns:
                continue
            a, s_ = _a5.count_meaning(fb, f), _a5.count_meaning(fb, fb.fns[tw])
            if a is None or s_ is None:
                continue
            n8 += 1
            ctx.saw_fn(f)
            if a == s_:
                ctx.ok("C16.R8", k, "both twins return a %s count" % a, f.loc())
            else:
                ctx.violation("C16.R8", "C16.R8/count-meaning/" + f.root,
                              "%s returns a %s count, its sync twin %s a %s count: the same call on the same input returns different numbers "
                              "(line terminators are consumed but not appended)" % (f.root, a, tw, s_), f.loc())
    ctx.floor("C16.R8", "twin scanner pairs whose returned count is classified on both sides", n8, 1)

    ctx.rule("C16.R9", "twin pure helpers (plain functions that exist under the same path on the sync and the async side, e.g. the CSI writers' "
                       "first_record_start_position) leave their loops on the same kinds of tests: a comparison folded into the loop condition "
                       "on one side ends that side's walk early although both sides hold the same tokens (invisible to R1)")
    def _loop_exit_sig(f_):
        out = []
        for _h, body in C.natural_loops(f_):
            ex = set()
            for b_ in body:
                t_ = f_.blocks[b_]["t"]
                if t_[0] == "sw" and any(x not in body for x in [tg for _v, tg in t_[2]] + [t_[3]]):
                    cond = C.switch_condition(f_, b_)
                    ex.add((cond[0], cond[1] if cond[0] == "cmp" else "") if cond else ("?", ""))
            out.append(tuple(sorted(ex)))
        return sorted(out)
    n9 = 0
    for k9, f9 in sorted(fb.fns.items()):
        if "r#async::" not in k9 or not f9.blocks or f9.coro or f9.is_closure:
            continue
        g9 = fb.fns.get(k9.replace("r#async::", ""))
        if g9 is None or not g9.blocks:
            continue
        a9_, s9_ = _loop_exit_sig(f9), _loop_exit_sig(g9)
        if not a9_ or not s9_:
            continue        # an `async fn` stub on one side: nothing to compare
        n9 += 1
        ctx.saw_fn(f9)
        if a9_ == s9_:
            ctx.ok("C16.R9", k9, "same loop-exit tests as the sync twin", f9.loc())
        else:
            ctx.violation("C16.R9", "C16.R9/loop-exit-tests-differ/" + k9,
                          "%s leaves its loop(s) on %s, its sync twin on %s: the two copies of the helper stop at different points for the same "
                          "input (e.g. the walk up the bin tree ends at the first ancestor that is not smaller)" % (k9, a9_, s9_), f9.loc())
    ctx.floor("C16.R9", "plain helper twins with loops on both sides", n9, 1)

    ctx.rule("C16.R5", "poll_seek state machine of the async BGZF reader: from its resting state every way to Ready(Ok) passes the arm that "
                       "seeks the inner reader (the sync seek has no memory of earlier requests)")
    state_machine_action_rule(ctx, "C16.R5", "noodles_bgzf::r#async::io::reader::Reader::<R>::poll_seek", "noodles_bgzf::r#async::io::reader::SeekState",
                              r"inflater::Inflater::<R>::poll_seek$", ["noodles_bgzf::r#async::io::reader::builder::Builder::build_from_reader"],
                              "seeking the inner block reader")


def _uncounted(t):
    t = tuple(str(x) for x in t)
    if t and t[-1].startswith("x") and t[-1][1:].isdigit():
        return t[:-1]
    return t


def _norm(t):
    return tuple(str(x) for x in t)


def _tok(t):
    return "%s:%s" % (t[0], ":".join(str(x) for x in t[1:]))[:160]


def _store_before_pending(f):
    """A block that assigns a field of *self (arg _1 deref) from which a `_0 = Poll::Pending` is reachable before any
    further poll call, where the stored field is not a state/Option slot being re-parked."""
    pend = [b for b, k in C.exit_points(f) if k == "pending"]
    if not pend:
        return None
    ALLOWED = ("state", "seek_state", "stream", "inner", "future", "fut")
    for bi, blk in enumerate(f.blocks):
        if blk.get("cu"):
            continue
        for st in blk["s"]:
            if st[0] != "=":
                continue
            fields = [p for p in st[1][1] if isinstance(p, list) and p[0] == "f"]
            if not fields or st[1][0] == 0:
                continue
            name = fields[0][2]
            # only stores through the receiver
            if not _through_self(f, st[1][0]):
                continue
            if name in ALLOWED or "state" in name:
                continue
            # is a Pending exit reachable without passing another poll call?
            polls = {b for b, c in f.calls() if (c.get("f") or "").split("::")[-1].startswith("poll")}
            reach = C.reachable(f, bi, removed=polls - {bi})
            if any(p in reach for p in pend):
                return (bi, name)
    return None


def _ptr_def(f, local):
    """The single whole definition of a local; stores THROUGH it (`(*p).f = v`) do not redefine the pointer."""
    whole, part = [], []
    for x in C.defs(f).get(local, []):
        if x[0] in ("=", "call", "yield"):
            whole.append(x)
        elif x[0] == "partial" and not (x[4][1] and x[4][1][0] == "*"):
            part.append(x)
        elif x[0] == "partial-call" and not (x[2]["dest"][1] and x[2]["dest"][1][0] == "*"):
            part.append(x)
    return whole[0] if len(whole) == 1 and not part else None


def _through_self(f, local):
    if local == 1:
        return True
    d = _ptr_def(f, local)
    seen = 0
    while d is not None and seen < 8:
        seen += 1
        if d[0] == "=" and d[3][0] in ("ref", "use"):
            pl = d[3][2] if d[3][0] == "ref" else C.op_place(d[3][1])
            if pl is None:
                return False
            if pl[0] == 1:
                return True
            d = _ptr_def(f, pl[0])
        elif d[0] == "call":
            args = d[2]["args"]
            if args and C.op_local(args[0]) is not None:
                if C.op_local(args[0]) == 1:
                    return True
                d = _ptr_def(f, C.op_local(args[0]))
            else:
                return False
        else:
            return False
    return False


# ------------------------------------------------------------------------------------------------ drained values
import re as _re

DRAIN_RX = _re.compile(r"(BytesMut::split|BytesMut::split_to|BytesMut::split_off|mem::take|mem::replace|Option::<T>::take|::drain|"
                       r"::split_off|::pop_front|::pop_back|VecDeque::<T, A>::pop|Vec::<T, A>::pop|Iterator>::next)$")


def _forward_derived(f, seed):
    """Locals whose value is built from `seed` (moves, copies, projections, aggregates, results of calls that are handed it)."""
    der = {seed}
    changed = True
    while changed:
        changed = False
        for bi, blk in enumerate(f.blocks):
            if blk.get("cu"):
                continue
            for st in blk["s"]:
                if st[0] != "=" or st[1][1]:
                    continue
                if st[1][0] in der:
                    continue
                if any(l in der for op in R.rvalue_operands(st[2]) for l in R.operand_locals(op)):
                    der.add(st[1][0])
                    changed = True
            t = blk["t"]
            if t[0] == "call":
                c = t[1]
                d = c.get("dest")
                if d is not None and not d[1] and d[0] not in der and d[0] != 0:
                    if any(a[0] == "m" and C.op_local(a) in der for a in c["args"]):
                        der.add(d[0])
                        changed = True
    return der


def drained_value_rule(ctx, rule, scope, floor):
    """In a hand-written poll function, a value moved OUT of the receiver's state (split / take / drain / pop / next) must be handed
    back (stored into the receiver, or moved into a call that also gets the receiver's state) before the function can return
    Poll::Pending: the local that holds it is dropped on that return and the next poll finds the state already emptied."""
    fb = ctx.fb
    n = 0
    for k, f in sorted(fb.fns.items()):
        if not k.startswith(scope) or not f.blocks or f.is_closure:
            continue
        pend = [b for b, kind in C.exit_points(f) if kind == "pending"]
        if not pend:
            continue
        for bi, c in f.calls():
            fk = c.get("f") or ""
            if not DRAIN_RX.search(fk) or not c["args"]:
                continue
            recv = C.op_local(c["args"][0])
            if recv is None or not _through_self(f, recv):
                continue
            d = c.get("dest")
            if d is None or d[1]:
                continue
            n += 1
            ctx.saw_fn(f)
            der = _forward_derived(f, d[0])
            consume = set()
            for bj, blk in enumerate(f.blocks):
                if blk.get("cu"):
                    continue
                for st in blk["s"]:
                    if st[0] == "=" and st[1][1] and _through_self(f, st[1][0]) and \
                            any(l in der for op in R.rvalue_operands(st[2]) for l in R.operand_locals(op)):
                        consume.add(bj)
                t = blk["t"]
                if t[0] == "call" and bj != bi:
                    c2 = t[1]
                    moved = any(a[0] == "m" and C.op_local(a) in der for a in c2["args"])
                    # the call can keep the value only if it is also handed a mutable pointer into the receiver's state
                    state = any(C.op_local(a) is not None and C.op_local(a) not in der and "&mut " in f.locals[C.op_local(a)]
                                and _through_self(f, C.op_local(a)) for a in c2["args"])
                    d2 = c2.get("dest")
                    into_self = d2 is not None and d2[1] and _through_self(f, d2[0])
                    if moved and (state or into_self):
                        consume.add(bj)
            nxt = c.get("t")
            reach = C.reachable(f, nxt, removed=consume) if nxt is not None and nxt not in consume else set()
            lost = [p for p in pend if p in reach]
            what = "%s :: %s" % (k, fk.split("::")[-1])
            if lost:
                ctx.violation(rule, "%s/drained-then-pending/%s/%s" % (rule, k, fk.split("::")[-1]),
                              "%s moves a value out of its own state with %s and can then return Poll::Pending before the value is stored "
                              "back or handed to the sink: the local is dropped on that return and the bytes/state it held are lost; the next "
                              "poll sees the state already emptied" % (k, fk.split("::")[-1]), f.loc(lost[0]))
            else:
                ctx.ok(rule, what, "every path from the drain to a Pending return stores the value back or hands it on (%d hand-over block(s))" % len(consume), f.loc(bi))
    ctx.floor(rule, "drains of receiver state inside functions that can return Pending", n, floor)


# ------------------------------------------------------------------------------------------------ explicit state machines
def state_machine_action_rule(ctx, rule, fkey, enum_key, action_rx, init_fn_keys, what):
    """An explicit `match state { .. }` machine inside a poll function: every chain of arms from a RESTING state (the state the
    machine is constructed in, or the one it is left in when it returns Ready(Ok)) to a Ready(Ok) return passes an arm that
    performs the action. A resting state whose own arm can answer Ready(Ok) without the action answers a NEW request from the
    memory of an old one (defect F29: `Done(p)` with `pos == p`)."""
    fb = ctx.fb
    f = ctx.body(rule, fkey)
    adt = fb.adts.get(enum_key)
    if f is None:
        return
    if adt is None:
        ctx.violation(rule, "%s/ANCHOR-MISSING/%s" % (rule, enum_key), "state enum %s not found" % enum_key, f.loc())
        return
    names = {v["discr"]: v["name"] for v in adt["variants"]}
    # the switch over the state's discriminant
    head = None
    for bi, blk in enumerate(f.blocks):
        t = blk["t"]
        if blk.get("cu") or t[0] != "sw":
            continue
        cond = C.switch_condition(f, bi)
        if cond and cond[0] == "discr":
            l = cond[1][0]
            if not cond[1][1] and enum_key.split("::")[-1] in f.locals[l] and "Option<" not in f.locals[l].split(enum_key.split("::")[-1])[0][-8:]:
                head = (bi, t)
                break
    if head is None:
        ctx.violation(rule, "%s/ANCHOR-MISSING/%s/switch" % (rule, fkey), "%s no longer switches over the discriminant of %s" % (fkey, enum_key), f.loc())
        return
    hb, t = head
    arms = {}
    for val, tgt in t[2]:
        arms[names.get(val, str(val))] = tgt
    covered = set(arms)
    rest = [v["name"] for v in adt["variants"] if v["name"] not in covered]
    if rest and t[3] is not None and len(rest) == 1:
        arms[rest[0]] = t[3]
    ok_exits = {b for b, k in C.exit_points(f) if k == "ok"}
    info = {}
    for v, tgt in arms.items():
        region = C.reachable(f, tgt, removed={hb})
        acts = [b for b in region if f.blocks[b]["t"][0] == "call" and re.search(action_rx, f.blocks[b]["t"][1].get("f") or "")]
        built = set()
        for b in region:
            for st in f.blocks[b]["s"]:
                if st[0] == "=" and st[2][0] == "agg" and st[2][1] == "adt" and st[2][2] == enum_key:
                    built.add((st[2][3], b))
        # an Ok exit of the arm counts only when it can be reached without the action of the same arm
        free = C.reachable(f, tgt, removed={hb} | set(acts))
        info[v] = {"action": bool(acts), "next": built, "ok_free": sorted(ok_exits & free), "ok_any": sorted(ok_exits & region)}
    resting = set()
    for ik in init_fn_keys:
        g = fb.fns.get(ik)
        if g is None:
            ctx.violation(rule, "%s/ANCHOR-MISSING/%s" % (rule, ik), "constructor %s not found" % ik, f.loc())
            continue
        ctx.saw_fn(g)
        for blk in g.blocks:
            for st in blk["s"]:
                if st[0] == "=" and st[2][0] == "agg" and st[2][1] == "adt" and st[2][2] == enum_key:
                    resting.add(st[2][3])
    for v, d in info.items():
        if d["ok_any"]:
            # the state stored on the way to that Ok return is where the machine rests between two requests
            for nv, b in d["next"]:
                if any(e in C.reachable(f, b, removed={hb}) for e in d["ok_any"]):
                    resting.add(nv)
    if not resting:
        ctx.violation(rule, "%s/ANCHOR-MISSING/%s/resting" % (rule, fkey), "no resting state of %s found" % enum_key, f.loc())
        return
    bad = None
    for r in sorted(resting):
        seen = set()
        stack = [(r, (r,))]
        while stack and bad is None:
            v, path = stack.pop()
            if v in seen or v not in info:
                continue
            seen.add(v)
            d = info[v]
            if d["ok_free"]:
                bad = (path, d["ok_free"][0])
                break
            if d["action"]:
                continue
            for nv, _b in d["next"]:
                stack.append((nv, path + (nv,)))
        if bad:
            break
    if bad:
        ctx.violation(rule, "%s/answers-without-action/%s/%s" % (rule, fkey, "->".join(bad[0])),
                      "%s: starting from its resting state the machine can return Ready(Ok) through the arms %s without %s: a new request is "
                      "answered from the memory of an earlier one" % (fkey, " -> ".join(bad[0]), what), f.loc(bad[1]))
    else:
        ctx.ok(rule, "%s :: resting state(s) %s" % (fkey, ", ".join(sorted(resting))),
               "every chain of arms from a resting state to Ready(Ok) passes an arm that calls %s (arms: %s)" % (
                   what, "; ".join("%s%s->%s" % (v, "*" if d["action"] else "", ",".join(sorted({n for n, _ in d["next"]})) or "-") for v, d in sorted(info.items()))), f.loc(hb))
