"""C18 — GFF3/GTF/BED round trip with escaping (DESIGN.md §5 C18)."""
import json
import re

from .. import a10
from .. import a5
from .. import a7
from .. import cfg as C
from .. import rules as R

EXPLANATION = (
    "Decides the escaping clauses structurally: (R1) per GFF3 column, encoded on write ⇔ decoded in every read view "
    "(callers of the percent_encode / percent_decode helpers: tag, value, array element — and column 1, where the writer "
    "encodes but no view decodes: known finding F7); (R2) the evaluated attribute encode set contains the GFF3 reserved bytes "
    "and every delimiter constant the attribute readers split on, and the seqid set is exactly the complement of the "
    "spec's allowed class; (R3) GTF: the bytes the writer escapes with a backslash equal the bytes the reader accepts after "
    "a backslash, values are always quoted, and the reader's closing-quote scan compares against the escape character as well as the "
    "quotation mark (a scan that only knows the quotation mark ends the value at an escaped one: defect F27); (R4) the owned GFF "
    "record is built from the lazy accessors (one path), and an owned comment line is built from Line::as_comment, never from the "
    "raw line (defect F28: the number sign doubled on every pass)."
    " (R5) append-buffer discipline of the GFF/GTF line readers incl. the blank-line skip loop."
    " (R6) copy before consume for the BED field scanner."
    " (R7) every BED read_record_N resets the line buffer and the extra-column bounds of the reused destination on all success paths (field-path reset rule, interprocedural through helpers that are handed a parent object)."
    " (R8) numeric columns are formatted from their own type: no unproven narrowing `as` cast (int to smaller int, float to int) in the GFF / GTF / BED writers. (R9) the lazy directive view does not trim.")
ASSUMPTIONS = ["percent-encoding crate semantics", "reader delimiter constants are the named DELIMITER/SEPARATOR consts (floor-checked)"]
NOT_DECIDED = ["equality of arbitrary UTF-8 values; BED optional-column values; directive round trip"]

G = "noodles_gff::"
ATTR_SET = G + "io::writer::line::record::attributes::field::percent_encode::PERCENT_ENCODE_SET"
SEQID_SET = G + "io::writer::line::record::reference_sequence_name::percent_encode::PERCENT_ENCODE_SET"
ENC_ATTR = G + "io::writer::line::record::attributes::field::percent_encode"
ENC_SEQID = G + "io::writer::line::record::reference_sequence_name::percent_encode"
DEC = G + "record::attributes::field::percent_decode"


def run(ctx):
    fb = ctx.fb
    ctx.rule("C18.R1", "A7 pairing per GFF3 column: encoded on write ⇔ decoded in every read view")
    if ctx.anchor("C18.R1", DEC) is not None and ctx.anchor("C18.R1", ENC_ATTR) is not None:
        dec = a7.callers_of(fb, DEC)
        enc = a7.callers_of(fb, ENC_ATTR)
        pairs = (("attribute tag", G + "io::writer::line::record::attributes::field::tag::write_tag", [G + "record::attributes::field::tag::parse_tag"]),
                 ("attribute value", G + "io::writer::line::record::attributes::field::value::write_value",
                  [G + "record::attributes::field::value::parse_value", G + "record::attributes::field::value::array::Array::<'a>::iter"]))
        for what, w, readers in pairs:
            if w not in enc:
                ctx.violation("C18.R1", "C18.R1/not-encoded/" + w, "%s writer %s no longer percent-encodes" % (what, w))
            else:
                ctx.ok("C18.R1", "%s is encoded by %s" % (what, w), "")
            for r in readers:
                if r in dec:
                    ctx.ok("C18.R1", "%s is decoded by %s" % (what, r), "")
                elif r not in fb.fns:
                    ctx.violation("C18.R1", "C18.R1/ANCHOR-MISSING/" + r, "read view %s not found" % r)
                else:
                    ctx.violation("C18.R1", "C18.R1/view-does-not-decode/" + r,
                                  "%s: %s no longer percent-decodes although the writer encodes" % (what, r), fb.fns[r].loc())
    # every non-constant byte string the attribute tag/value writers hand to the sink is the output of percent_encode
    for w in (G + "io::writer::line::record::attributes::field::tag::write_tag", G + "io::writer::line::record::attributes::field::value::write_value"):
        f = ctx.anchor("C18.R1", w)
        if f is None:
            continue
        raw = []
        nwr = 0
        for g in fb.family(w):
            for b, c in R.find_calls(g, r"Write::write_all$"):
                nwr += 1
                arg = c["args"][1]
                if R.derives_from_call(g, arg, R.mk_pred("^" + ENC_ATTR.replace("::", "::") + "$")):
                    continue
                if R.C.eval_const(g, arg) is not None or _from_constant(g, arg):
                    continue
                raw.append((g, b))
        if raw:
            ctx.violation("C18.R1", "C18.R1/raw-write/" + w,
                          "%s hands a byte string to the sink that is neither a constant nor the output of percent_encode: some tag/value "
                          "(e.g. the 2nd+ element of a multi-valued attribute) is written unescaped" % w, raw[0][0].loc(raw[0][1]))
        else:
            ctx.ok("C18.R1", w + " :: all %d write_all() arguments are percent_encode output or constants" % nwr, "", f.loc())

    # column 1: encoder present; is there any decoder on the read side?
    if ctx.anchor("C18.R1", ENC_SEQID) is not None:
        wcall = a7.callers_of(fb, ENC_SEQID)
        seq_readers = [k for k in fb.fns if k.startswith(G) and k.split("::")[-1] == "reference_sequence_name" and "writer" not in k]
        ctx.floor("C18.R1", "GFF reference_sequence_name read accessors", len(seq_readers), 2)
        decoding = [k for k in seq_readers if any(DEC in fb.callgraph().get(g.key, ()) or
                                                  any("percent_decode" in c for c in fb.callgraph().get(g.key, ()))
                                                  for g in fb.family(k))]
        if wcall and not decoding:
            ctx.violation("C18.R1", "C18.R1/undecoded/gff-seqid",
                          "GFF3 column 1 is percent-encoded by %s but none of the %d read accessors decodes it: "
                          "'sq 0' is written 'sq%%200' and read back as 'sq%%200'" % (sorted(wcall)[0], len(seq_readers)),
                          fb.fns[sorted(wcall)[0]].loc())
        elif not wcall:
            ctx.violation("C18.R1", "C18.R1/not-encoded/gff-seqid", "GFF3 column 1 is no longer percent-encoded on write")
        else:
            ctx.ok("C18.R1", "GFF3 column 1 encoded and decoded", str(decoding))

    ctx.rule("C18.R2", "A8+A7 attribute encode set ⊇ GFF3 reserved ∪ reader delimiters; seqid set = complement of the allowed class")
    s = a7.ascii_set(fb, ATTR_SET)
    if s is None:
        ctx.violation("C18.R2", "C18.R2/ANCHOR-MISSING/" + ATTR_SET, "attribute encode set not found")
    else:
        reserved = set(b"\t\n\r%;=&,") | set(range(0x20)) | {0x7f}
        missing = reserved - s
        if missing:
            ctx.violation("C18.R2", "C18.R2/spec-reserved/attributes",
                          "GFF3 attribute encode set lacks %s (GFF3 spec: tab, newline, CR, %%, control characters, and ; = & , in column 9)" % a7.show(missing))
        else:
            ctx.ok("C18.R2", "attribute encode set ⊇ GFF3 reserved", a7.show(s - set(range(0x20))))
        delims = a7.delimiter_consts(fb, [G + "record::attributes", G + "record::fields"])
        ctx.floor("C18.R2", "GFF attribute reader delimiter constants", len(delims), 4)
        bad = {k: v for k, v in delims.items() if v not in s}
        if bad:
            ctx.violation("C18.R2", "C18.R2/reader-delimiter/attributes/%s" % "+".join(sorted({chr(v) for v in bad.values()})),
                          "GFF3 attribute readers split on %s but the encode set does not escape it" % a7.show(set(bad.values())))
        else:
            ctx.ok("C18.R2", "attribute encode set ⊇ %d reader delimiter constants" % len(delims), a7.show(set(delims.values())))
    s = a7.ascii_set(fb, SEQID_SET)
    if s is None:
        ctx.violation("C18.R2", "C18.R2/ANCHOR-MISSING/" + SEQID_SET, "seqid encode set not found")
    else:
        allowed = set(b"abcdefghijklmnopqrstuvwxyzABCDEFGHIJKLMNOPQRSTUVWXYZ0123456789.:^*$@!+_?-|")
        want = set(range(128)) - allowed
        if s == want:
            ctx.ok("C18.R2", "seqid encode set = complement of [a-zA-Z0-9.:^*$@!+_?-|]", "%d bytes" % len(s))
        else:
            ctx.violation("C18.R2", "C18.R2/seqid-set",
                          "seqid encode set differs from the GFF3 column-1 rule: missing %s, extra %s" % (a7.show(want - s), a7.show(s - want)))

    ctx.rule("C18.R3", "A7 GTF: escaped bytes on write = bytes accepted after a backslash on read; values always quoted")
    W = "noodles_gtf::io::writer::line::record::attributes::field::value::"
    esc_w, n1 = a7.match_true_set(fb, W + "write_escaped_string", "u8")
    req_w, n2 = a7.match_true_set(fb, W + "requires_escapes", "u8")
    fr = ctx.anchor("C18.R3", "noodles_gtf::record::attributes::unescape_string")
    acc = set()
    if fr is not None:
        for m in fb.matches.get(fr.key, []):
            if m["sty"] == "u8":
                for arm in m["arms"]:
                    if arm["p"] != "_" and "push" in arm["v"]:
                        acc |= a7.pat_values(arm["p"])
    if ctx.anchor("C18.R3", W + "write_escaped_string") is not None and ctx.anchor("C18.R3", W + "requires_escapes") is not None:
        if not (n1 and n2 and acc):
            ctx.violation("C18.R3", "C18.R3/ANCHOR-MISSING/gtf-escape-tables", "GTF escape tables not found (writer %d/%d arms, reader %s)" % (n1, n2, acc))
        elif esc_w == req_w == acc == {0x5c, 0x22}:
            ctx.ok("C18.R3", "GTF escape set writer = requires_escapes = reader = {\\\\ \"}", "")
        else:
            ctx.violation("C18.R3", "C18.R3/gtf-escape-mismatch",
                          "GTF escape sets disagree: writer escapes %s, requires_escapes tests %s, reader accepts %s after a backslash" % (
                              a7.show(esc_w), a7.show(req_w), a7.show(acc)))
    fw = ctx.anchor("C18.R3", W + "write_value")
    if fw is not None:
        quote = "noodles_gtf::io::writer::line::record::attributes::field::value::QUOTATION_MARK"
        n = sum(1 for b, c in R.find_calls(fw, r"Write::write_all$") if any(R.arg_derives_from_const(fw, a, {quote}) for a in c["args"]))
        fe = fb.fn(W + "write_escaped_string")
        n2 = sum(1 for b, c in R.find_calls(fe, r"Write::write_all$") if any(R.arg_derives_from_const(fe, a, {quote}) for a in c["args"])) if fe else 0
        if n >= 2 and n2 >= 2:
            ctx.ok("C18.R3", "GTF values are quoted on both writer paths", "", fw.loc())
        else:
            ctx.violation("C18.R3", "C18.R3/unquoted/" + fw.key, "GTF value writer no longer writes the opening and closing quotation marks on every path", fw.loc())

    # the tokenizer that finds the closing quotation mark runs BEFORE unescape_string: it must skip an escaped quote, or noodles'
    # own `\"` ends the value early (genuine defect F27, repaired)
    quote_scanner_rule(ctx, "C18.R3", "noodles_gtf::record::attributes::field::parse_string", "GTF")

    # the owned Comment line is built from the accessor that strips the `#` the writer prepends (genuine defect F28: it was built from
    # the whole line, so a comment came back with its prefix and was re-written as a `##` directive)
    ncm = 0
    for k, f in sorted(fb.fns.items()):
        if not k.startswith(("noodles_gff::", "<noodles_gff::")) or "writer" in k or (f.trait or "").startswith(("core::clone", "core::fmt", "core::cmp", "core::default")):
            continue
        for bi, blk in enumerate(f.blocks):
            if blk.get("cu"):
                continue
            for st in blk["s"]:
                if st[0] == "=" and st[2][0] == "agg" and st[2][1] == "adt" and st[2][2].endswith("line_buf::LineBuf") and st[2][3] == "Comment":
                    ncm += 1
                    ctx.saw_fn(f)
                    via_map = False
                    if f.is_closure and f.parent in fb.fns:
                        # `line.as_comment().map(|s| LineBuf::Comment(s.into()))`: the closure is applied to the accessor's result
                        pf = fb.fns[f.parent]
                        for pb, pc in pf.calls():
                            if re.search(r"option::Option::<T>::(map|and_then)$", pc.get("f") or "") and pc["args"] and \
                                    R.derives_from_call(pf, pc["args"][0], R.mk_pred(r"line::Line::as_comment$")) and f.key.split("::")[-1] in (pc.get("ga") or ""):
                                via_map = True
                    if via_map or any(R.derives_from_call(f, o, R.mk_pred(r"line::Line::as_comment$")) for o in st[2][4]):
                        ctx.ok("C18.R4", f.root + " :: LineBuf::Comment built from Line::as_comment()", "", f.loc(bi))
                    else:
                        ctx.violation("C18.R4", "C18.R4/comment-keeps-prefix/" + f.root,
                                      "%s builds LineBuf::Comment from something other than Line::as_comment(): the leading `#`, which the writer "
                                      "prepends itself, stays in the text and the comment is re-written as a `##` directive" % f.root, f.loc(bi))
    ctx.floor("C18.R4", "reader sites constructing LineBuf::Comment (sync + async)", ncm, 2)

    ctx.rule("C18.R5", "A10 append-buffer discipline: GFF/GTF line readers reset the line buffer before every appended line (incl. the blank-line skip loop)")
    a10.discipline_rule(ctx, "C18.R5", r"^<?noodles_(gff|gtf)::", 6)

    ctx.rule("C18.R6", "A5d copy before consume: a fill_buf scanner that copies window bytes to a destination copies them on every path "
                      "that consumes a non-constant amount (a field continuing in the next window must not lose its first part)")
    n7 = 0
    for s7 in a5.copy_before_consume_sites(fb):
        if not re.search(r"noodles_(bed|gff|gtf)::", s7["fn"]):
            continue
        n7 += 1
        f7 = fb.fns[s7["fn"]]
        ctx.saw_fn(f7)
        if s7["ok"]:
            ctx.ok("C18.R6", s7["fn"] + " :: every consuming path copies the window first", "%d append site(s)" % len(s7["appends"]), f7.loc())
        else:
            ctx.violation("C18.R6", "C18.R6/consume-without-copy/" + f7.root,
                          "%s consumes window bytes on a path that does not append them to the destination although other paths do: a field that "
                          "continues in the next fill_buf window loses everything before the last refill" % f7.root, f7.loc(s7["bad"]))
    ctx.floor("C18.R6", "copying fill_buf scanners", n7, 1)

    ctx.rule("C18.R7", "A3 reused record: every BED read_record_N resets the line buffer and the extra-column bounds of the destination on all success "
                       "paths (a line without extra columns must not keep the previous record's)")
    for n_ in (3, 4, 5, 6):
        for owner_path, what in (([("noodles_bed::record::Record", "0"), ("noodles_bed::record::fields::Fields", "buf")], "the line buffer"),
                                 ([("noodles_bed::record::Record", "0"), ("noodles_bed::record::fields::Fields", "bounds"),
                                   ("noodles_bed::record::fields::bounds::Bounds", "other_fields_ends")], "the extra-column bounds")):
            a10.field_reset_rule(ctx, "C18.R7", "noodles_bed::io::reader::record::read_record_%d" % n_, 2, owner_path, what)

    ctx.rule("C18.R8", "A4 numeric columns are formatted from their own type: no unproven narrowing `as` cast (int -> smaller int, float -> int: "
                       "saturating, drops the fraction) in the GFF / GTF / BED writers")
    from .. import a4
    n8 = 0
    for s8 in a4.narrowing_casts(fb, lambda k_, f_: bool(re.match(r"<?noodles_(gff|gtf|bed)::(io::writer|r#async::io::writer)", k_))):
        n8 += 1
        f8 = fb.fns[s8["fn"]]
        ctx.saw_fn(f8)
        if s8["discharged"]:
            ctx.ok("C18.R8", "%s %s->%s" % (s8["root"], s8["frm"], s8["to"]), "proven: " + s8["discharged"], "%s:%d" % (f8.file, s8["line"]))
        else:
            ctx.violation("C18.R8", "C18.R8/narrowing-cast/%s/%s->%s" % (s8["root"], s8["frm"], s8["to"]),
                          "%s converts %s to %s with `as` on the way to the output: the cast saturates / truncates silently, so a value outside "
                          "the target range is written as a different number and does not parse back" % (s8["root"], s8["frm"], s8["to"]),
                          "%s:%d" % (f8.file, s8["line"]))
    ctx.count("narrowing_casts_in_text_writers", n8)
    total_casts = sum(1 for f_ in fb.fns.values() if f_.blocks for blk in f_.blocks if not blk.get("cu") for st in blk["s"]
                      if st[0] == "=" and st[2][0] == "cast" and st[2][1] in ("IntToInt", "FloatToInt"))
    ctx.floor("C18.R8", "`as` casts seen workspace-wide (positive control of the matcher; none in these writers today)", total_casts, 100)

    ctx.rule("C18.R9", "the lazy GFF directive view hands back the bytes the writer wrote: Directive::key / ::value split the line at the one "
                       "separator and do not trim (trim_ascii*, trim*): a value that starts with, or consists of, whitespace is written as is and "
                       "must come back as is (owned lines are built from this view, sync and async); expected 0 trims, the scanner's positive "
                       "control are the legitimate trims of the GTF attribute tokenizer")
    n9, seen9 = 0, 0
    for k9, f9 in sorted(fb.fns.items()):
        if not f9.blocks or not re.match(r"<?noodles_(gff|gtf|bed)::", k9):
            continue
        for b9, c9 in f9.calls():
            if not re.search(r"::trim\w*$", c9.get("f") or ""):
                continue
            seen9 += 1
            if re.match(r"noodles_gff::directive::Directive::<'l>::(key|value)$|noodles_gff::directive::Directive::(key|value)$", f9.root):
                n9 += 1
                ctx.saw_fn(f9)
                ctx.violation("C18.R9", "C18.R9/directive-view-trims/" + f9.root,
                              "%s trims what it returns (%s): a directive value with leading / only whitespace does not read back equal" % (
                                  f9.root, (c9.get("f") or "").split("::")[-1]), f9.loc(b9))
    fdv = ctx.anchor("C18.R9", "noodles_gff::directive::Directive::<'l>::value") if "noodles_gff::directive::Directive::<'l>::value" in fb.fns else \
        ctx.anchor("C18.R9", [k for k in fb.fns if re.match(r"noodles_gff::directive::Directive(::<.*>)?::value$", k)][0] if
                   [k for k in fb.fns if re.match(r"noodles_gff::directive::Directive(::<.*>)?::value$", k)] else "noodles_gff::directive::Directive::value")
    if fdv is not None and not n9:
        ctx.ok("C18.R9", fdv.key, "no trim in the directive view", fdv.loc())
    ctx.floor("C18.R9", "trim calls seen in the GFF / GTF / BED readers (positive control)", seen9, 2)

    ctx.rule("C18.R4", "owned GFF record is built from the lazy accessors (shared path)")
    fc = ctx.anchor("C18.R4", "noodles_gff::feature::record_buf::convert::<impl noodles_gff::feature::record_buf::RecordBuf>::try_from_feature_record")
    if fc is not None:
        got = {(c.get("f") or "").split("::")[-1] for b, c in fc.calls()}
        need = {"reference_sequence_name", "source", "ty", "feature_start", "feature_end", "score", "strand", "phase", "attributes"}
        miss = need - got
        if miss:
            ctx.violation("C18.R4", "C18.R4/accessors/" + fc.key, "try_from_feature_record no longer reads %s through the feature accessors" % sorted(miss), fc.loc())
        else:
            ctx.ok("C18.R4", fc.key + " reads all nine columns through the lazy accessors", "", fc.loc())


def _from_constant(fn, op, depth=0):
    """Does the operand derive (through refs/casts/arrays) only from constants?"""
    from .. import cfg as C
    if depth > 6:
        return False
    if C.op_const(op) is not None:
        return True
    l = C.op_local(op)
    if l is None:
        p = C.op_place(op)
        l = p[0] if p else None
    if l is None:
        return False
    ds = [d for d in C.defs(fn).get(l, []) if d[0] in ("=", "partial")]
    if not ds or any(d[0] not in ("=", "partial") for d in C.defs(fn).get(l, [])):
        return False
    for d in ds:
        ops = R.rvalue_operands(d[3])
        if not ops and d[3][0] != "agg":
            return False
        if not all(_from_constant(fn, o, depth + 1) for o in ops):
            return False
    return True


def quote_scanner_rule(ctx, rule, key, what):
    """The function that finds the closing quotation mark of a quoted value (it runs BEFORE unescaping): it compares with `"` and with the
    escape character, and it carries an escaped/unescaped state through the scan. Whether a quotation mark is escaped depends on the parity
    of the backslashes before it (`\\\\"` closes, `\\"` does not), so a look-behind of one byte is wrong for a value ending with a backslash."""
    fb = ctx.fb
    fps = ctx.anchor(rule, key)
    if fps is None:
        return
    ctx.saw_fn(fps)
    vals = set()
    stores = {}
    for g in fb.family(fps.key):
        # the state lives in the scan: stores inside a loop body, or anywhere in a closure (the body of `position(|c| ..)`)
        inloop = set(range(len(g.blocks))) if g.is_closure else set().union(*[bd for _h, bd in C.natural_loops(g)] or [set()])
        for bi, blk in enumerate(g.blocks):
            for st in blk["s"]:
                if st[0] == "=":
                    for o in R.rvalue_operands(st[2]):
                        k = C.op_const(o)
                        if k is not None and k.get("ty") == "u8" and isinstance(k.get("v"), int):
                            vals.add(k["v"])
                    if bi in inloop and st[2][0] == "use":
                        k = C.op_const(st[2][1])
                        if k is not None and k.get("ty") == "bool" and st[1][0] != 0:
                            stores.setdefault((g.key, json.dumps(st[1])), set()).add(k.get("v"))
                    if bi in inloop and st[2][0] == "agg" and st[2][1] == "adt" and st[1][0] != 0 and not st[2][2].startswith(("core::", "alloc::", "std::")):
                        # an enum state (`state = State::Escape`): two different variants stored to one place
                        stores.setdefault((g.key, json.dumps(st[1])), set()).add(st[2][3])
            t = blk["t"]
            if t[0] == "sw":
                vals |= {v for v, _tg in t[2] if isinstance(v, int)}
            elif t[0] == "call":
                for o in t[1].get("args") or []:
                    k = C.op_const(o)
                    if k is not None and k.get("ty") == "u8" and isinstance(k.get("v"), int):
                        vals.add(k["v"])
    stateful = any(len(v) >= 2 for v in stores.values())
    short = fps.key.split("::")[-1]
    if 0x22 in vals and 0x5c in vals and not stateful:
        ctx.violation(rule, "%s/tokenizer-escape-not-stateful/%s" % (rule, fps.key),
                      "%s compares with the escape character but carries no escaped/unescaped state through the scan: looking only "
                      "at the byte before a quotation mark takes the second half of an escaped backslash for an escape, so a %s value ending "
                      "with a backslash (written as `\\\\\"`) is not closed where the writer closed it" % (short, what), fps.loc())
    elif 0x22 in vals and 0x5c in vals:
        ctx.ok(rule, fps.key + " :: the closing-quote scan knows the escape character and carries an escape state", "compares with 0x22 and 0x5c", fps.loc())
    elif 0x22 in vals:
        ctx.violation(rule, "%s/tokenizer-ignores-escape/%s" % (rule, fps.key),
                      "%s ends a quoted %s value at the first `\"` without regard to a preceding backslash, while the writer emits "
                      "`\\\"` for a quotation mark inside a value: noodles' own output is split inside the value" % (short, what), fps.loc())
    else:
        ctx.violation(rule, "%s/ANCHOR-MISSING/%s/quote" % (rule, fps.key), "%s no longer scans for the quotation mark" % short, fps.loc())
