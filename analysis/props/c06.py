"""C06 — SAM text round trip; SAM ≡ BAM content: tables and order (DESIGN.md §5 C06)."""
import re

from .. import a10
from .. import a9
from .. import a7
from .. import cfg as C
from .. import rules as R

EXPLANATION = (
    "Decides the structural half of the SAM text round trip: (R1) column order — the twelve field writers are called by "
    "write_record in the SAM column order, each fed from the record accessor of that column, and the eager parser stores "
    "the k-th split field through the setter of the same column (call sequences in reverse post-order of the CFG + data "
    "flow from accessor to writer argument); (R2) dec∘enc = id exhaustively for the text codings of CIGAR kinds, aux types "
    "and array subtypes (match-arm tables; the lazy record's parsers are compared as further decoders of the same coding "
    "family), the '*' missing markers are the same byte on both sides; (R3) the BAM header reader compares the SAM-text "
    "reference dictionary with the binary reference list before returning Ok; (R4) RNEXT '=' is produced only by "
    "write_mate_reference_sequence_name (comparison of the two names) and expanded by the parser's mate arm."
    " (R5) reused destination: every entry->Ok path of parse_record_buf and try_clone_from_alignment_record overwrites or clears each of the twelve columns (a `*` sentinel must reset the column, not skip it); (R6) append-buffer discipline: every read_line/read_until site of the SAM readers and of the BAM header's text reader is preceded, on all entry paths and all cycles, by a reset of the buffer it appends to."
    " (R7) the SAM-text header sub-reader state machine (sam, bam, cram; sync and async) performs per trait method the same constant stores into its state fields as the majority of its ten copies."
    " R3 also decides that the binary reference list replaces the text dictionary only behind the is_empty() edge (sync and async), so @SQ fields that exist only in the text are not dropped."
    " (R8) a function outside the type's module that takes the raw bytes of a 4-bit packed sequence also consults the base count (decoding the bytes alone writes the padding nibble of an odd-length read as a base). (R9) the SAM text writers hand every field to the sink whole: no raw Write::write in noodles_sam::io::writer (a short count would drop the tail of a field while the line goes on). (R10) no unproven narrowing `as` cast in the SAM text writers.")
ASSUMPTIONS = ["float formatting/parsing, integer width selection for `i` tags and the header grammar are value-level (unit tests)"]
NOT_DECIDED = ["float text forms, integer tag widths, fixed-point byte equality, full header record grammar and field order",
               "equality of SAM- and BAM-read records beyond the shared data model"]

S = "noodles_sam::"
WRITE_SEQ = ["write_name", "write_flags", "write_reference_sequence_name", "write_position", "write_mapping_quality", "write_cigar",
             "write_mate_reference_sequence_name", "write_position", "write_template_length", "write_sequence", "write_quality_scores", "write_data"]
FEED = ["name", "flags", "reference_sequence", "alignment_start", "mapping_quality", "cigar", "mate_reference_sequence", "mate_alignment_start",
        "template_length", "sequence_ref|cigar", "quality_scores|sequence", "data"]
SET_SEQ = ["name_mut", "flags_mut", "reference_sequence_id_mut", "alignment_start_mut", "mapping_quality_mut", "cigar_mut",
           "mate_reference_sequence_id_mut", "mate_alignment_start_mut", "template_length_mut", "sequence_mut", "quality_scores_mut", "data_mut"]


def run(ctx):
    fb = ctx.fb
    ctx.rule("C06.R1", "A7 column order: writer call sequence, accessor feeding each column, parser setter sequence")
    fw = ctx.anchor("C06.R1", S + "io::writer::record::write_record")
    if fw is not None:
        seq = []
        for b in C.rpo(fw):
            t = fw.term(b)
            if t[0] == "call":
                k = t[1].get("f") or ""
                if k.startswith(S + "io::writer::record::") and k.split("::")[-1].startswith("write_"):
                    seq.append((k.split("::")[-1], b, t[1]))
        names = [x[0] for x in seq]
        if names != WRITE_SEQ:
            ctx.violation("C06.R1", "C06.R1/writer-order/" + fw.key,
                          "write_record emits the columns in the order %s, SAMv1 §1.4 requires %s" % (names, WRITE_SEQ), fw.loc())
        else:
            ctx.ok("C06.R1", "write_record calls the twelve field writers in SAM column order", "", fw.loc())
            for (name, b, c), feed in zip(seq, FEED):
                rx = r"alignment::record::Record::(%s)$" % feed
                if any(R.derives_from_call(fw, a, R.mk_pred(rx)) for a in c["args"][1:]):
                    ctx.ok("C06.R1", "column %s is fed from record.%s()" % (name, feed.split("|")[0]), "", fw.loc(b))
                else:
                    ctx.violation("C06.R1", "C06.R1/column-source/%s/%s" % (name, feed.split("|")[0]),
                                  "%s is no longer fed from record.%s(): a column carries another field's value" % (name, feed.split("|")[0]), fw.loc(b))
    fp = ctx.anchor("C06.R1", S + "io::reader::record_buf::parse_record_buf")
    if fp is not None:
        # the k-th split field must reach the setter of column k (data flow, not statement order: storing PNEXT after
        # TLEN is fine as long as the value comes from the 8th split)
        splits = [(b, fp.term(b)[1]) for b in C.rpo(fp) if fp.term(b)[0] == "call" and (fp.term(b)[1].get("f") or "").endswith("record_buf::next_field")]
        setters = [(b, c) for b, c in fp.calls() if "record_buf::RecordBuf::" in (c.get("f") or "") and (c.get("f") or "").split("::")[-1].endswith("_mut")]
        if len(splits) != 11:
            ctx.violation("C06.R1", "C06.R1/field-count/" + fp.key, "parse_record_buf splits %d mandatory fields, expected 11" % len(splits), fp.loc())
        else:
            ctx.ok("C06.R1", "parse_record_buf splits 11 mandatory fields", "", fp.loc())
            for k, (sb, sc) in enumerate(splits):
                field_local = sc["dest"][0]
                reached = set()
                for tb, tc in setters:
                    name = tc["f"].split("::")[-1]
                    ptr = tc["dest"][0]
                    # (a) a store through the setter's pointer whose value derives from this split
                    for blk in fp.blocks:
                        for st in blk["s"]:
                            if st[0] == "=" and st[1][0] == ptr and st[1][1] == ["*"]:
                                if any(R.derives_from_local(fp, o, field_local, through_calls=True) for o in R.rvalue_operands(st[2])):
                                    reached.add(name)
                    # (b) a parser call that receives both the field and the setter's pointer
                    for cb, cc in fp.calls():
                        if cc is tc or cc is sc:
                            continue
                        has_field = any(R.derives_from_local(fp, a, field_local, through_calls=True) for a in cc["args"])
                        has_ptr = any(R.derives_from_local(fp, a, ptr) for a in cc["args"])
                        if has_field and has_ptr:
                            reached.add(name)
                want = SET_SEQ[k]
                # quality scores also read the already parsed sequence length: tolerate sequence_mut? no: `sequence()` is a getter
                also = {"quality_scores_mut": {"sequence_mut"},
                        # RNAME also feeds the '=' expansion of RNEXT
                        "reference_sequence_id_mut": {"mate_reference_sequence_id_mut"}}.get(want, set())
                if want in reached and reached <= {want} | also:
                    ctx.ok("C06.R1", "split #%d reaches %s" % (k + 1, want), "", fp.loc(sb))
                else:
                    ctx.violation("C06.R1", "C06.R1/parser-column/%d/%s" % (k + 1, want),
                                  "the %d-th split field of parse_record_buf reaches %s, expected %s: a column is stored into another field" % (
                                      k + 1, sorted(reached) or "no setter", want), fp.loc(sb))

    ctx.rule("C06.R5", "A3 reused buffer: every success path of the record parsers overwrites or clears each column of the destination")
    R.reused_buffer_rule(ctx, "C06.R5", S + "io::reader::record_buf::parse_record_buf", "record_buf::RecordBuf::", SET_SEQ)
    R.reused_buffer_rule(ctx, "C06.R5", S + "alignment::record_buf::convert::<impl noodles_sam::alignment::record_buf::RecordBuf>::try_clone_from_alignment_record",
                         "record_buf::RecordBuf::", SET_SEQ)

    ctx.rule("C06.R6", "A10 append-buffer discipline: SAM readers (and the BAM header's SAM text) reset their line buffer before every appended line")
    a10.discipline_rule(ctx, "C06.R6", r"^<?noodles_(sam::|bam::(io|r#async)::.*header)", 10)

    ctx.rule("C06.R7", "A9 cross-crate siblings: the SAM-text header sub-reader (sam, bam, cram; sync and async) performs the same state updates per "
                       "trait method as all ten copies of that state machine (majority reference)")
    a9.header_reader_agreement(ctx, "C06.R7", r"noodles_(sam|bam|cram)::", 18)

    ctx.rule("C06.R2", "A7 dec∘enc = id for the SAM text tables; missing markers agree")
    a7.table_agreement(ctx, "C06.R2", {"noodles_sam"}, 4, exceptions={
        S + "io::writer::record::data::field::ty::encode": "many-to-one"})   # SAM text writes every integer width as 'i'
    # the '*' marker of the name/RNAME/CIGAR/SEQ/QUAL columns, the "0" of POS/PNEXT and the "255" of MAPQ, wherever duplicated
    want = {"": b"*", "alignment_start": b"0", "mate_alignment_start": b"0", "mapping_quality": b"255"}
    n = 0
    for k, c in sorted(fb.consts.items()):
        if not (k.startswith(S + "io::") or k.startswith(S + "record::")) or not k.endswith("::MISSING"):
            continue
        val = bytes([c["v"]]) if c["ty"] == "u8" and "v" in c else bytes.fromhex(c["raw"]) if "raw" in c else None
        if val is None:
            continue
        col = next((w for w in want if w and w in k), "")
        exp = want[col] if not (col == "mapping_quality" and c["ty"] == "u8") else b"\xff"
        n += 1
        if val == exp:
            ctx.ok("C06.R2", "%s = %r" % (k, exp), "")
        else:
            ctx.violation("C06.R2", "C06.R2/missing-marker/" + k, "missing-value marker %s = %r, expected %r" % (k, val, exp))
    ctx.floor("C06.R2", "MISSING marker constants in the SAM reader/writer/lazy record", n, 7)
    R.const_rule(ctx, "C06.R2", "MAPQ missing", {"r": S + "alignment::record::mapping_quality::MISSING"} if (S + "alignment::record::mapping_quality::MISSING") in fb.consts else
                 {"r": next(k for k in fb.consts if k.startswith(S) and "mapping_quality" in k and k.endswith("MISSING"))},
                 lambda v: (v["r"] == 255, "255"), "SAMv1 §1.4")

    ctx.rule("C06.R3", "A4 integrity: BAM header reader compares the SAM-text dictionary with the binary reference list")
    cands = [k for k in fb.fns if k.startswith("noodles_bam::io::reader::header") and k.split("::")[-1] in ("read_header_inner", "read_header")]
    ok = False
    for k in cands:
        f = fb.fns[k]
        calls = [c.get("f") or "" for g in fb.family(k) for b, c in g.calls()]
        if any(x.endswith("reference_sequences_eq") for x in calls):
            ok = True
            ctx.saw_fn(f)
            sw = [x for g in fb.family(k) for x in R.switch_on_call(g, r"reference_sequences_eq$")]
            if sw:
                ctx.ok("C06.R3", k + " branches on reference_sequences_eq(text dictionary, binary list)", "", f.loc())
            else:
                ctx.violation("C06.R3", "C06.R3/unused-comparison/" + k, "%s computes reference_sequences_eq but does not branch on it" % k, f.loc())
    if not ok:
        ctx.violation("C06.R3", "C06.R3/no-dictionary-check", "no BAM header reader compares the SAM-text reference dictionary with the binary reference list")

    # the binary list replaces the text dictionary only when the text has none: @SQ fields beyond SN/LN (M5, AS, SP, UR, user tags)
    # exist only in the text, so an unconditional overwrite loses them
    nov = 0
    for k in sorted(k2 for k2 in fb.fns if re.search(r"noodles_bam::(r#async::)?io::reader::header::read_header_inner(::\{closure#0\})?$", k2)):
        f = fb.fns[k]
        if f.is_async and not f.coro:
            continue
        setters = [c["dest"][0] for b, c in f.calls() if (c.get("f") or "").endswith("Header::reference_sequences_mut")]
        stores = [bi for bi, blk in enumerate(f.blocks) if not blk.get("cu") for st in blk["s"]
                  if st[0] == "=" and st[1][1] == ["*"] and st[1][0] in setters]
        if not stores:
            continue
        nov += 1
        ctx.saw_fn(f)
        sws = [(sb, tt, ft) for sb, tt, ft, c in R.switch_on_call(f, r"::is_empty$")
               if any(R.derives_from_call(f, a_, R.mk_pred(r"Header::reference_sequences$")) for a_ in c["args"])]
        guarded = sws and all(sb_ not in C.reachable(f, 0, removed_edges={(sb, tt) for sb, tt, ft in sws}) for sb_ in stores)
        if guarded:
            ctx.ok("C06.R3", k + " :: text dictionary replaced only when it is empty", "%d store(s) behind the is_empty() edge" % len(stores), f.loc(stores[0]))
        else:
            ctx.violation("C06.R3", "C06.R3/unconditional-overwrite/" + f.root,
                          "%s overwrites the header's reference sequences with the binary list on a path where the SAM-text dictionary is not "
                          "empty: every @SQ field other than SN/LN is dropped when the BAM is read" % f.root, f.loc(stores[0]))
    ctx.floor("C06.R3", "BAM header readers that adopt the binary reference list", nov, 2)

    ctx.rule("C06.R8", "SAM and BAM carry the same bases: a function that takes the raw bytes of a 4-bit packed sequence (two bases per byte, "
                       "the last nibble is padding for an odd count) also consults the base count; decoding the bytes alone writes the padding as a base")
    n8 = 0
    for k, f in sorted(fb.fns.items()):
        if not f.blocks or "sequence_ref::four_bit_packed" in k or not k.startswith(("noodles_", "<noodles_")):
            continue
        raw = [b for b, c in f.calls() if re.search(r"FourBitPacked<'\w+> as core::convert::AsRef<\[u8\]>>::as_ref$", c.get("f") or "")]
        if not raw:
            continue
        n8 += 1
        ctx.saw_fn(f)
        counts = [c for g in fb.family(f.root if f.root in fb.fns else k) for b, c in g.calls()
                  if re.search(r"(FourBitPacked::<'\w+>|FourBitPacked|SequenceRef::<'\w+>|SequenceRef|alignment::record::sequence::Sequence)::(len|is_empty|base_count)$", c.get("f") or "")]
        if counts:
            ctx.ok("C06.R8", k, "reads the packed bytes and the base count (%s)" % counts[0]["f"].split("::")[-1], f.loc(raw[0]))
        else:
            ctx.violation("C06.R8", "C06.R8/packed-bytes-without-count/" + k,
                          "%s decodes the raw bytes of a 4-bit packed sequence without ever asking for the base count: for an odd number of "
                          "bases the padding nibble of the last byte is emitted as an extra base (`=`), so BAM -> SAM adds a base to every "
                          "odd-length read" % k, f.loc(raw[0]))
    ctx.floor("C06.R8", "functions outside the type's module that take the raw packed bytes", n8, 1)

    ctx.rule("C06.R9", "A5b the SAM text writers hand every field to the sink whole: no raw Write::write (whose short count would drop the "
                       "tail of a field while the line goes on) in noodles_sam::io::writer, only write_all / write! / delegation")
    from .. import a5 as _a5
    n9 = 0
    for s9 in _a5.raw_io_sites(fb, _a5.RAW_WRITE):
        if not s9["fn"].startswith(("noodles_sam::io::writer", "<noodles_sam::io::writer", "noodles_sam::r#async::io::writer")):
            continue
        f9 = fb.fns[s9["fn"]]
        ctx.saw_fn(f9)
        if s9["class"] == "delegation":
            ctx.ok("C06.R9", s9["fn"], "delegation", f9.loc(s9["block"]))
        else:
            ctx.violation("C06.R9", "C06.R9/short-write/%s" % s9["fn"],
                          "%s hands a field to the sink with raw %s: when the sink accepts only a prefix (a BGZF writer at its block end, a "
                          "pipe) the rest of the field is dropped and the record line continues, so the text no longer describes the record" % (
                              s9["fn"], s9["callee"].split("::")[-1]), f9.loc(s9["block"]))
    for k9, f9 in fb.fns.items():
        if k9.startswith("noodles_sam::io::writer::record") and f9.blocks:
            n9 += sum(1 for b, c in f9.calls() if (c.get("f") or "").endswith("::write_all"))
    ctx.floor("C06.R9", "write_all call sites in the SAM record writer (positive control of the zero-expected rule)", n9, 20)

    ctx.rule("C06.R10", "A4 numbers are formatted from their own type: no unproven narrowing `as` cast (float -> int saturates and drops the "
                        "fraction, int -> smaller int truncates) in the SAM text writers — an `f` value written through an integer is another "
                        "number as soon as it leaves the integer's range")
    from .. import a4 as _a4
    n10 = 0
    for s10 in _a4.narrowing_casts(fb, lambda k_, f_: bool(re.match(r"<?noodles_sam::(io::writer|r#async::io::writer)", k_))):
        n10 += 1
        f10 = fb.fns[s10["fn"]]
        ctx.saw_fn(f10)
        if s10["discharged"]:
            ctx.ok("C06.R10", "%s %s->%s" % (s10["root"], s10["frm"], s10["to"]), "proven: " + s10["discharged"], "%s:%d" % (f10.file, s10["line"]))
        else:
            ctx.violation("C06.R10", "C06.R10/narrowing-cast/%s/%s->%s" % (s10["root"], s10["frm"], s10["to"]),
                          "%s converts %s to %s with `as` on the way to the SAM text: the cast saturates / truncates silently, so a value outside "
                          "the target range is written as a different number (SAM and BAM then disagree)" % (s10["root"], s10["frm"], s10["to"]),
                          "%s:%d" % (f10.file, s10["line"]))
    tot10 = sum(1 for f_ in fb.fns.values() if f_.blocks for blk in f_.blocks if not blk.get("cu") for st in blk["s"]
                if st[0] == "=" and st[2][0] == "cast" and st[2][1] in ("IntToInt", "FloatToInt"))
    ctx.floor("C06.R10", "`as` casts seen workspace-wide (positive control of the matcher)", tot10, 100)

    ctx.rule("C06.R4", "A3 pairing: RNEXT '=' produced only by the mate-name writer and expanded by the parser's mate arm")
    eqs = [k for k, c in fb.consts.items() if k.startswith(S) and c.get("v", c.get("raw")) in (0x3d, "3d") and re.search(r"(EQ|SAME|IDENTICAL)", k.split("::")[-1])]
    fwm = ctx.anchor("C06.R4", S + "io::writer::record::reference_sequence_name::write_mate_reference_sequence_name")
    fpm = fb.fn(S + "io::reader::record_buf::parse_mate_reference_sequence_id")
    if fwm is not None:
        cmp_ = [1 for b, kind, ops, a, b2 in R._cmp_switches(fwm) if kind in ("Eq", "Ne")] or R.find_calls(fwm, r"::eq$|::ne$")
        if cmp_:
            ctx.ok("C06.R4", fwm.key + " compares the mate name with the reference name before writing '='", "", fwm.loc())
        else:
            ctx.violation("C06.R4", "C06.R4/writer-eq/" + fwm.key, "the mate-name writer no longer compares the two names", fwm.loc())
    if fpm is None:
        ctx.violation("C06.R4", "C06.R4/ANCHOR-MISSING/parse_mate_reference_sequence_id", "parser's mate arm not found")
    else:
        ctx.saw_fn(fpm)
        uses_eq = any((C.op_const(o) or {}).get("raw") in ("3d",) or (C.op_const(o) or {}).get("v") == 0x3d
                      for g in fb.family(fpm.key) for blk in g.blocks for st in blk["s"] if st[0] == "=" for o in R.rvalue_operands(st[2])) or \
            any(m for g in fb.family(fpm.key) for m in fb.matches.get(g.key, []) if any("3d" in a["p"] or "61" == a["p"] or "EQ" in a["p"] for a in m["arms"]))
        if uses_eq:
            ctx.ok("C06.R4", fpm.key + " expands '=' to the record's own reference", "", fpm.loc())
        else:
            ctx.violation("C06.R4", "C06.R4/parser-eq/" + fpm.key, "the parser's mate arm no longer recognises '='", fpm.loc())

