"""C10 — BCF typed encoding: reserved codes, widths, type table (DESIGN.md §5 C10)."""
import re

from .. import a10
from .. import a4
from .. import a6
from .. import a7
from .. import cfg as C
from .. import rules as R

EXPLANATION = (
    "Decides the structural half of the BCF typed encoding: (R1) the Int8/Int16/Int32/Float value-range and reserved-code "
    "constants equal BCFv2.2 §6.3.3 (rustc-evaluated), and every `as i8` / `as i16` in the encoder is proven by the "
    "interval domain to lie inside [IntN::MIN_VALUE, IntN::MAX_VALUE] — i.e. outside the reserved missing/end-of-vector "
    "codes (-128 as Int8 would read back as *missing*); the width-dispatch functions compare against exactly those "
    "constants; other narrowing casts are tabled; (R2) dec∘enc = id for the type-descriptor codes (1,2,3,5,7) against both "
    "decoders, overflow length nibble 15 on both sides; genotype allele coding constants agree on encoder, decoder and "
    "lazy view; (R3) 'unrepresentable ⇒ error': explicit panics reachable in the encoder closure are held against a "
    "triaged table; (R4) string-map lookups on decode are error exits on a missing index."
    " (R5) reused destination: read_site / read_record_buf overwrite every column of the vcf RecordBuf they decode into; (R6) append-buffer discipline of the BCF header's text reader."
    " (R7) sibling guard agreement: the per-type copies of the FORMAT value decoders (Int8/Int16/Int32/Float, vector and scalar) reach their `push(None)` sites under the same edge-dominance guard signature."
    " (R8) the async BCF writer clears its record buffer before the encoder fills it; (R9) the dictionary of strings only grows: a length-changing Vec operation on StringMap.entries is a resize on one edge only of a comparison with its own length (or with a max(len, ..) length); (R10) the VCF header writer, whose text the BCF reader numbers the dictionary from, and StringMaps::try_from(&Header), which the BCF writer numbers it with, visit INFO / FILTER / FORMAT in the same order."
    " (R11) sibling shape: the end-of-vector padding loop (0..max_len - len) of every typed sample writer is enclosed by the per-sample loop only (genuine defect F43, repaired: the genotype writer padded inside the allele loop)."
    " (R12) genotypes keep phasing: every allele code returned by the two allele encoders, the missing allele included, lies behind a test of the phasing argument (genuine defect F45, repaired). (R13) implicit first-allele phasing visits every remaining allele. (R14) array-typed lazy INFO readers build Value::Array only (F56, repaired). (R15) the int8 allele code is computed with checked arithmetic (F57, repaired). (R16) the sample-side Values::len of the lazy arrays counts through the padding-dropping iterator (F60, repaired). (R17) every per-sample value writer accepts a missing sample value (F61, repaired).")
ASSUMPTIONS = ["interval reasoning is dominance-based; per-sample padding and vector length logic are value-level"]
NOT_DECIDED = ["full record equality, per-sample padding of unequal-length vectors, float bit patterns beyond the reserved-NaN constants"]

V = "noodles_bcf::record::codec::value::"
ENC = re.compile(r"^<?noodles_bcf::(record::codec::encoder|io::writer)")

CAST_TABLE = {
    ("noodles_bcf::io::writer::num::write_i8", "i8", "u8"): "bit reinterpretation of a signed byte for writing",
    ("noodles_bcf::record::codec::encoder::samples::values::write_genotype_values", "i8", "u8"): "bit reinterpretation of the already encoded allele byte",
    ("noodles_bcf::record::codec::encoder::string_map::write_string_map_indices", "usize", "i8"):
        "index compared with Int8::MAX_VALUE through usize::try_from in the enclosing match guard (closure body; dominance cannot cross the closure boundary)",
    ("noodles_bcf::record::codec::encoder::string_map::write_string_map_indices", "usize", "i16"): "same, Int16",
    ("noodles_bcf::record::codec::encoder::string_map::write_string_map_indices", "usize", "i32"): "same, Int32",
    ("noodles_bcf::record::codec::encoder::value::ty::write_type", "usize", "u8"): "value is clamp(0, MAX_TYPE_LEN = 15)",
}

ENC_K1_TABLE = {
    # root fn -> (count, reason)
    "noodles_bcf::record::codec::encoder::site::info::field::value::write_int8_array_value": (1, "reserved/EOV pattern unreachable: the caller chose Int8 only after min >= Int8::MIN_VALUE"),
    "noodles_bcf::record::codec::encoder::site::info::field::value::write_int16_array_value": (1, "same for Int16"),
    "noodles_bcf::record::codec::encoder::site::info::field::value::write_int32_array_value": (1, "same for Int32"),
    "noodles_bcf::record::codec::encoder::site::info::field::value::write_float_array_value": (1, "Float::from(f32) of a caller value: reserved NaN payloads are not produced by VCF text; tabled as unproven"),
    "noodles_bcf::record::codec::encoder::string_map::write_string_map_indices": (1, "unreachable!() after an exhaustive width match"),
}


def run(ctx):
    fb = ctx.fb
    ctx.rule("C10.R1", "A8 value-range / reserved-code constants vs BCFv2.2 §6.3.3; A4 `as i8`/`as i16` inside [MIN_VALUE, MAX_VALUE]")
    spec = {
        "int8": (-120, 127, -128, -127, -126, -121), "int16": (-32760, 32767, -32768, -32767, -32766, -32761),
        "int32": (-2147483640, 2147483647, -2147483648, -2147483647, -2147483646, -2147483641),
    }
    for m, (lo, hi, miss, eov, r0, r5) in spec.items():
        T = {"int8": "Int8", "int16": "Int16", "int32": "Int32"}[m]
        R.const_rule(ctx, "C10.R1", "%s range and reserved codes" % T,
                     {"lo": V + "%s::%s::MIN_VALUE" % (m, T), "hi": V + "%s::%s::MAX_VALUE" % (m, T), "miss": V + m + "::MISSING",
                      "eov": V + m + "::END_OF_VECTOR", "r0": V + m + "::RESERVED_0", "r5": V + m + "::RESERVED_5"},
                     lambda v, lo=lo, hi=hi, miss=miss, eov=eov, r0=r0, r5=r5: (
                         (v["lo"], v["hi"], v["miss"], v["eov"], v["r0"], v["r5"]) == (lo, hi, miss, eov, r0, r5),
                         "MIN_VALUE=%d MAX_VALUE=%d MISSING=%d END_OF_VECTOR=%d reserved %d..%d" % (lo, hi, miss, eov, r0, r5)),
                     "BCFv2.2 §6.3.3", "a value equal to a reserved code reads back as missing / end-of-vector")
    R.const_rule(ctx, "C10.R1", "Float reserved NaNs",
                 {"miss": V + "float::MISSING", "eov": V + "float::END_OF_VECTOR", "r0": V + "float::RESERVED_0", "r4": V + "float::RESERVED_4"},
                 lambda v: ((v["miss"], v["eov"], v["r0"], v["r4"]) == (0x7F800001, 0x7F800002, 0x7F800003, 0x7F800007),
                            "0x7F800001 missing, 0x7F800002 end-of-vector, 0x7F800003..7 reserved"), "BCFv2.2 §6.3.3")
    lims = {"i8": (-120, 127), "i16": (-32760, 32767)}
    n = 0
    for s in a4.narrowing_casts(fb, lambda k, f: bool(ENC.search(k))):
        n += 1
        f = fb.fns[s["fn"]]
        ctx.saw_fn(f)
        key = (s["root"], s["frm"], s["to"])
        loc = "%s:%d" % (f.file, s["line"])
        if s["to"] in lims and s["frm"] in ("i32", "i64", "isize"):
            # stricter than the type range: the reserved codes are excluded
            st = [x for blk in f.blocks for x in blk["s"] if x[0] == "=" and x[2][0] == "cast" and x[3] == s["line"] and x[2][4] == s["to"]]
            b = None
            if st:
                src = st[0][2][2]
                bi = next(i for i, blk in enumerate(f.blocks) if st[0] in blk["s"])
                g = a4.dominating_bound(f, bi, src)
                b = g
            lo, hi = lims[s["to"]]
            if b is not None and b[0] is not None and b[1] is not None and b[0] >= lo and b[1] <= hi:
                ctx.ok("C10.R1", "%s %s->%s" % key, "dominating guards bound the value to [%d, %d] ⊆ [%d, %d] (reserved codes excluded)" % (b[0], b[1], lo, hi), loc)
            else:
                ctx.violation("C10.R1", "C10.R1/reserved-collision/%s/%s->%s" % key,
                              "%s stores a value as %s without guards that keep it inside [%d, %d]: a value equal to a reserved "
                              "missing/end-of-vector code would read back as missing (bounds found: %s)" % (s["root"], s["to"], lo, hi, b), loc)
        elif s["discharged"]:
            ctx.ok("C10.R1", "%s %s->%s" % key, "proven: " + s["discharged"], loc)
        elif key in CAST_TABLE:
            ctx.ok("C10.R1", "%s %s->%s" % key, "tabled: " + CAST_TABLE[key], loc)
        else:
            ctx.violation("C10.R1", "C10.R1/narrowing-cast/%s/%s->%s" % key,
                          "%s casts %s to %s with `as`; neither the interval domain nor the table covers it" % key, loc)
    ctx.floor("C10.R1", "narrowing casts in the BCF encoder closure", n, 8)
    # width dispatch compares against exactly the IntN constants
    for key in ("noodles_bcf::record::codec::encoder::site::info::field::value::write_integer_value",
                "noodles_bcf::record::codec::encoder::site::info::field::value::write_integer_array_value"):
        f = ctx.anchor("C10.R1", key)
        if f is None:
            continue
        consts = set()
        for b, kind, ops, t_t, f_t in R._cmp_switches(f):
            if kind in ("Le", "Lt", "Ge", "Gt"):
                for o in ops:
                    v = C.eval_const(f, o)
                    if v is not None:
                        consts.add(v)
        need = {-120, 127, -32760, 32767, -2147483640}
        if need <= consts:
            ctx.ok("C10.R1", key + " compares against MIN/MAX_VALUE of Int8, Int16 and MIN_VALUE of Int32", str(sorted(consts)), f.loc())
        else:
            ctx.violation("C10.R1", "C10.R1/width-dispatch/" + key,
                          "%s no longer compares against %s (found %s): a value may be stored in a width whose reserved codes it collides with" % (
                              key, sorted(need - consts), sorted(consts)), f.loc())

    # side condition of the tabled string-map casts: the value compared with the IntN limits is the MAXIMUM index
    fs = ctx.anchor("C10.R1", "noodles_bcf::record::codec::encoder::string_map::write_string_map_indices")
    if fs is not None:
        cmps = [(b, ops) for b, kind, ops, t_t, f_t in R._cmp_switches(fs) if kind in ("Le", "Lt") and
                any(C.eval_const(fs, o) in (127, 32767) for o in ops)]
        ok = bool(cmps) and all(any(R.derives_from_call(fs, o, R.mk_pred(r"iterator::Iterator::max$|Iterator>::max$")) for o in ops) for b, ops in cmps)
        if ok:
            ctx.ok("C10.R1", fs.key + " :: the width of the index vector is chosen from Iterator::max() of the indices", "%d comparison(s)" % len(cmps), fs.loc())
        else:
            ctx.violation("C10.R1", "C10.R1/width-from-max/" + fs.key,
                          "write_string_map_indices no longer chooses the vector width from the maximum index: a larger, earlier index is "
                          "truncated by the element casts (`i as i8` / `i as i16`) and reads back as another FILTER or a reserved code", fs.loc())

    ctx.rule("C10.R2", "A7 type descriptor codes and overflow nibble agree between encoder and both decoders; genotype coding constants")
    a7.table_agreement(ctx, "C10.R2", {"noodles_bcf"}, 2)
    R.const_rule(ctx, "C10.R2", "type length overflow nibble", {"n": "noodles_bcf::record::codec::encoder::value::ty::MAX_TYPE_LEN"},
                 lambda v: (v["n"] == 15, "15"), "BCFv2.2 §6.3.3")
    for key in ("noodles_bcf::record::codec::decoder::value::ty::read_type", "noodles_bcf::record::value::ty::read_type"):
        f = ctx.anchor("C10.R2", key)
        if f is None:
            continue
        has15 = any(C.eval_const(f, o) == 15 for b, kind, ops, t_t, f_t in R._cmp_switches(f) if kind == "Eq" for o in ops)
        shr4 = any(st[0] == "=" and st[2][0] == "bin" and st[2][1] in ("Shr", "ShrUnchecked") and C.eval_const(f, st[2][3]) == 4
                   for blk in f.blocks for st in blk["s"])
        if has15 and shr4:
            ctx.ok("C10.R2", key + " :: length = byte >> 4, overflow when == 15", "", f.loc())
        else:
            ctx.violation("C10.R2", "C10.R2/length-nibble/" + key, "%s no longer decodes the length nibble as `>> 4` with overflow at 15" % key, f.loc())

    ctx.rule("C10.R3", "A6 unrepresentable ⇒ error: explicit panics in the encoder closure vs the triaged table")
    per = {}
    for k, f in fb.fns.items():
        if not ENC.search(k):
            continue
        for b, c in f.calls():
            if a6.PANIC_RX.search(c.get("f") or ""):
                per.setdefault(f.root, []).append((f, b, (c.get("mac") or "").split(">")[-1]))
    for root, sites in sorted(per.items()):
        cnt, reason = ENC_K1_TABLE.get(root, (0, ""))
        f0, b0, mac = sites[0]
        if len(sites) > cnt:
            ctx.violation("C10.R3", "C10.R3/encoder-panic/%s/%s" % (mac, root),
                          "%s has %d explicit panic site(s) (%s!) in the BCF encoder closure, table covers %d: an unrepresentable value "
                          "panics instead of returning an error" % (root, len(sites), mac, cnt), f0.loc(b0))
        else:
            ctx.ok("C10.R3", "%s %s!() x%d" % (root, mac, len(sites)), "tabled: " + reason, f0.loc(b0))

    ctx.rule("C10.R5", "A3 reused buffer: the BCF record decoder overwrites or clears each column of the destination vcf RecordBuf")
    R.reused_buffer_rule(ctx, "C10.R5", "noodles_bcf::record::codec::decoder::read_site", "record_buf::RecordBuf::",
                         ["reference_sequence_name_mut", "variant_start_mut", "quality_score_mut", "ids_mut", "reference_bases_mut",
                          "alternate_bases_mut", "filters_mut", "info_mut"])
    R.reused_buffer_rule(ctx, "C10.R5", "noodles_bcf::io::reader::record_buf::read_record_buf", "record_buf::RecordBuf::", ["samples_mut"],
                         start_after=lambda c: (c.get("f") or "").endswith("decoder::read_site"))

    ctx.rule("C10.R6", "A10 append-buffer discipline: the BCF header reader (VCF text) resets its line buffer before every appended line")
    a10.discipline_rule(ctx, "C10.R6", r"^<?noodles_bcf::", 2)

    ctx.rule("C10.R8", "A10 writer scratch buffer: the async BCF writer clears its record buffer on every path before the encoder fills it")
    a10.scratch_buffer_rule(ctx, "C10.R8", r"^<?noodles_bcf::", 1)

    ctx.rule("C10.R7", "A7 sibling guard agreement: the per-type copies of the FORMAT value decoders (Int8/Int16/Int32/Float, scalar and "
                       "vector) report a sample as missing under the same guards")
    VAL = "noodles_bcf::record::codec::decoder::samples::values::"

    def pushes_none(g, bi, blk):
        t = blk["t"]
        if t[0] != "call" or not (t[1].get("f") or "").endswith("Vec::<T, A>::push") or len(t[1]["args"]) < 2:
            return False
        l = C.op_local(t[1]["args"][1])
        d = C.single_def(g, l) if l is not None else None
        return d is not None and d[0] == "=" and d[3][0] == "agg" and d[3][2].endswith("option::Option") and d[3][3] == "None"
    for fam, floor in ((r"read_(i8|i16|i32|f32)_array_values$", 4), (r"read_(i8|i16|i32|f32)_values$", 4)):
        keys = sorted(k for k in fb.fns if k.startswith(VAL) and re.search(fam, k[len(VAL):]) and not fb.fns[k].is_closure)
        ctx.floor("C10.R7", "sibling decoders matching " + fam, len(keys), floor)
        a7.sibling_guard_agreement(ctx, "C10.R7", keys, pushes_none, "sample value is missing (push None)")

    ctx.rule("C10.R9", "the BCF dictionary of strings only grows: resize of StringMap.entries is growth-guarded, no other shortening operation")
    grow_only_rule(ctx, "C10.R9", "noodles_vcf::header::string_maps::string_map::StringMap", "entries", "noodles_vcf::header::string_maps", 1)

    ctx.rule("C10.R10", "A7 sibling order: the VCF header writer (whose text the BCF reader numbers the dictionary from) and "
                        "StringMaps::try_from(&Header) (which the BCF writer numbers it with) visit INFO / FILTER / FORMAT in the same order")
    dictionary_order_rule(ctx, "C10.R10")

    ctx.rule("C10.R11", "A7 sibling shape: the end-of-vector padding of a shorter per-sample vector is written once per sample, after its values "
                        "(not nested in the value loop), in every typed sample writer")
    padding_loop_rule(ctx, "C10.R11", 4)

    ctx.rule("C10.R12", "genotypes keep phasing: every allele code returned by the two allele encoders (missing allele included) has consulted the phasing")
    allele_phasing_rule(ctx, "C10.R12")


    ctx.rule("C10.R13", "below VCF 4.4 the phasing of the first allele is implicit: unphased as soon as ANY later allele of the genotype is "
                        "unphased. The lazy BCF view decides it over all remaining alleles (the phase-bit test sits in a loop or under an "
                        "iterator any/all/find), not from the second allele alone — ploidy 1 and 2 cannot tell the difference, `0|1/2` can")
    n13 = 0
    for k13, f13 in sorted(fb.fns.items()):
        if not f13.blocks or not re.search(r"^noodles_bcf::.*::implicit_first_allele_phasing$", k13):
            continue
        n13 += 1
        ctx.saw_fn(f13)
        body13 = set().union(*[bd for _h, bd in C.natural_loops(f13)] or [set()])
        tests = [b for b, c in f13.calls() if re.search(r"::is_phased$", c.get("f") or "")]
        tests += [bi for bi, blk in enumerate(f13.blocks) for st in blk["s"]
                  if st[0] == "=" and st[2][0] == "bin" and st[2][1] == "BitAnd" and C.eval_const(f13, st[2][3]) == 1]
        via_iter = any(re.search(r"Iterator::(any|all|find|position|try_fold|fold)$", c.get("f") or "") for _b, c in f13.calls())
        if via_iter or (tests and all(b in body13 for b in tests)):
            ctx.ok("C10.R13", k13, "the phase-bit test runs for every remaining allele (%s)" % ("iterator" if via_iter else "loop"), f13.loc())
        else:
            ctx.violation("C10.R13", "C10.R13/implicit-phasing-from-one-allele/" + k13,
                          "%s decides the implicit phasing of the first allele without visiting all remaining alleles: for ploidy >= 3 with "
                          "mixed phasing (`0|1/2`) the lazy view reports the first allele phased although a later allele is unphased, and "
                          "disagrees with the eager decoder" % k13, f13.loc())
    ctx.floor("C10.R13", "implicit_first_allele_phasing implementations in noodles_bcf", n13, 1)


    ctx.rule("C10.R14", "A7 sibling arms: a reader of an ARRAY-typed value (noodles_bcf `read_<type>_array_value`) builds only Value::Array (or "
                        "None): a single value stored as a scalar of any width is wrapped in a one-element array, in every width arm (genuine "
                        "defect F56, repaired: the int16 / int32 arms of read_integer_array_value returned Value::Integer)")
    n14 = 0
    for k14, f14 in sorted(fb.fns.items()):
        if not f14.blocks or not re.search(r"^noodles_bcf::record::info::field::value::read_\w+_array_value$", k14):
            continue
        n14 += 1
        ctx.saw_fn(f14)
        scal = [(bi, st[2][3]) for bi, blk in enumerate(f14.blocks) if not blk.get("cu") for st in blk["s"]
                if st[0] == "=" and st[2][0] == "agg" and st[2][1] == "adt" and st[2][2].endswith("info::field::value::Value") and st[2][3] != "Array"]
        if scal:
            ctx.violation("C10.R14", "C10.R14/scalar-from-array-reader/%s/%s" % (k14, scal[0][1]),
                          "%s builds the scalar Value::%s: an array-typed INFO field that holds one value of that width reads back as a scalar "
                          "through the lazy record (the eager decoder and the other width arms give a one-element array)" % (k14, scal[0][1]), f14.loc(scal[0][0]))
        else:
            ctx.ok("C10.R14", k14, "builds Value::Array only", f14.loc())
    ctx.floor("C10.R14", "array-typed lazy INFO value readers", n14, 3)


    ctx.rule("C10.R15", "A4 the int8 genotype code (allele + 1) * 2 | phase is computed with CHECKED arithmetic in both allele encoders: no plain "
                        "i8 addition / shift / multiplication (int8 holds allele indices up to 62; index 127 panicked in debug builds and was "
                        "written as a missing allele in release builds: genuine defect F57, repaired)")
    n15 = 0
    for k15, f15 in sorted(fb.fns.items()):
        if not re.search(r"encoder::samples::values::encode_genotype(_str)?::encode$", k15) or not f15.blocks:
            continue
        n15 += 1
        ctx.saw_fn(f15)
        raw = []
        for bi, blk in enumerate(f15.blocks):
            if blk.get("cu"):
                continue
            for st in blk["s"]:
                if st[0] == "=" and st[2][0] == "bin" and st[2][1] in ("Add", "AddWithOverflow", "AddUnchecked", "Shl", "ShlUnchecked", "Mul", "MulWithOverflow"):
                    tys = [f15.locals[C.op_local(o)] for o in (st[2][2], st[2][3]) if C.op_local(o) is not None]
                    if any(t == "i8" for t in tys[:1]) or (C.op_const(st[2][2]) or {}).get("ty") == "i8":
                        raw.append((bi, st[2][1]))
        checked = [b for b, c in f15.calls() if re.search(r"<impl i8>::checked_(add|mul|shl)$|num::<impl i8>::checked_(add|mul|shl)$", c.get("f") or "")]
        if raw:
            ctx.violation("C10.R15", "C10.R15/unchecked-allele-code/" + k15,
                          "%s computes the int8 genotype code with a plain %s on i8: an allele index above 62 wraps into the missing / reserved "
                          "codes (or panics in a debug build) instead of being refused" % (k15, raw[0][1]), f15.loc(raw[0][0]))
        elif not checked:
            ctx.violation("C10.R15", "C10.R15/ANCHOR-MISSING/%s/checked" % k15, "%s: neither plain nor checked i8 arithmetic found" % k15, f15.loc())
        else:
            ctx.ok("C10.R15", k15, "allele code through checked_add / checked_mul", f15.loc(checked[0]))
    ctx.floor("C10.R15", "allele encoders", n15, 2)


    ctx.rule("C10.R16", "A7 len / iter agreement of the lazy per-sample arrays: the sample-side Values::iter drops the end-of-vector padding of a "
                        "shorter sample, so Values::len counts through that iterator and is never the raw slice length — the encoder pads a "
                        "series with max_len - len() (genuine defect F60, repaired: a lazy BCF -> BCF copy of unequal arrays was written short)")
    n16 = 0
    for k16, f16 in sorted(fb.fns.items()):
        if not f16.blocks or not re.search(r"^<noodles_bcf::record::value::array::values::Values<.*> as noodles_vcf::variant::record::samples::series::value::array::values::Values<.*>>::len$", k16):
            continue
        n16 += 1
        ctx.saw_fn(f16)
        names16 = {(c.get("f") or "") for _b, c in f16.calls()}
        raw = [x for x in names16 if re.search(r"slice::<impl \[T\]>::len$", x)]
        counted = [x for x in names16 if re.search(r"Iterator>?::count$", x)]
        if counted and not raw:
            ctx.ok("C10.R16", k16, "len() counts through the padding-dropping iterator", f16.loc())
        else:
            ctx.violation("C10.R16", "C10.R16/len-counts-padding/" + k16,
                          "%s takes the raw slice length: it counts the end-of-vector padding that iter() drops, the encoder adds no padding for "
                          "this sample and the copied series is short" % k16, f16.loc())
    ctx.floor("C10.R16", "sample-side Values::len impls of the lazy BCF arrays", n16, 4)


    ctx.rule("C10.R17", "A7 sibling writers: every per-sample value writer of the BCF encoder (write_<type>_values, sixteen siblings) accepts a "
                        "sample whose value is MISSING (None): from the None edge of its match on the element a success exit is reachable — "
                        "the genotype writer alone refused it (genuine defect F61, repaired: `GT .` for one sample made VCF -> BCF fail)")
    n17 = 0
    for k17, f17 in sorted(fb.fns.items()):
        if not f17.blocks or not re.search(r"^noodles_bcf::record::codec::encoder::samples::values::write_\w+_values$", k17):
            continue
        okx = set(C.success_exit_blocks(f17))
        for b17, blk in enumerate(f17.blocks):
            t = blk["t"]
            if t[0] != "sw" or blk.get("cu"):
                continue
            cond = C.switch_condition(f17, b17)
            if not cond or cond[0] != "discr":
                continue
            pl = cond[1]
            ty = f17.locals[pl[0]] or ""
            if not (ty.startswith("&core::option::Option<noodles_vcf::variant::record::samples::series::value::Value") and pl[1] == ["*"]):
                continue
            vals = dict((v, tg) for v, tg in t[2])
            none_t = vals.get(0, t[3])
            n17 += 1
            ctx.saw_fn(f17)
            if okx & C.reachable(f17, none_t):
                ctx.ok("C10.R17", k17, "a missing sample value is written (the None edge reaches a success exit)", f17.loc(b17))
            else:
                ctx.violation("C10.R17", "C10.R17/missing-sample-value-refused/" + k17,
                              "%s answers a sample whose value is missing with an error: a record in which one sample has no value for this "
                              "key (`.`) cannot be written as BCF, although its sibling writers store the missing marker" % k17, f17.loc(b17))
    ctx.floor("C10.R17", "per-sample value writers with a match on the element's presence", n17, 14)

    ctx.rule("C10.R4", "string-map lookups on decode are error exits on a missing index")
    n = 0
    for k, f in sorted(fb.fns.items()):
        if not k.startswith(("noodles_bcf::record::codec::decoder", "noodles_bcf::record::")) or "encoder" in k:
            continue
        gets = [(b, c) for b, c in f.calls() if re.search(r"string_map::StringMap::(get_index|get_full)$|IndexSet<.*>::get_index$", c.get("f") or "")]
        for b, c in gets:
            n += 1
            ctx.saw_fn(f)
            cons = [cc.get("f") or "" for bb, cc in f.calls()]
            if any(x.endswith("Option::<T>::ok_or_else") or x.endswith("Option::<T>::ok_or") for x in cons):
                ctx.ok("C10.R4", k, "lookup result converted with ok_or(_else)", f.loc(b))
            elif any(x.endswith("Option::<T>::unwrap") or x.endswith("unwrap_or_default") or x.endswith("unwrap_or") for x in cons):
                ctx.violation("C10.R4", "C10.R4/lookup-default/" + f.root, "%s unwraps/defaults a string-map lookup instead of returning an error" % k, f.loc(b))
            else:
                ctx.ok("C10.R4", k, "lookup result handled without unwrap/default", f.loc(b))
    ctx.floor("C10.R4", "string-map lookups in the decoders", n, 3)


SHRINK_RX = re.compile(r"Vec::<T, A>::(resize|resize_with|truncate|pop|remove|swap_remove|drain|clear|retain|retain_mut|split_off|dedup\w*|set_len)$")


def grow_only_rule(ctx, rule, adt_key, field, scope_prefix, floor):
    """The indexed dictionary `adt.field` only grows: every Vec operation on it that CAN shorten it is a `resize` placed on one edge
    only of a comparison with the vector's own length (growth-only guard), or its new length is computed with max(len, ..).
    The name->index table next to it keeps pointing at positions; a shortened vector leaves those indices dangling (they resolve to
    nothing, or to whatever is pushed into the freed positions next)."""
    fb = ctx.fb
    adt = fb.adts.get(adt_key)
    if adt is None:
        ctx.violation(rule, "%s/ANCHOR-MISSING/%s" % (rule, adt_key), "type %s not found" % adt_key)
        return
    fields = (adt.get("variants") or [{}])[0].get("fields") or adt.get("fields") or []
    idx = next((i for i, fl in enumerate(fields) if fl["name"] == field), None)
    if idx is None:
        ctx.violation(rule, "%s/ANCHOR-MISSING/%s.%s" % (rule, adt_key, field), "field %s.%s not found" % (adt_key, field))
        return
    n = 0
    for k, f in sorted(fb.fns.items()):
        if not k.startswith(scope_prefix) or not f.blocks:
            continue
        bd = None
        for bi, c in f.calls():
            fk = c.get("f") or ""
            m = SHRINK_RX.search(fk)
            if not m or not c["args"]:
                continue
            if bd is None:
                bd = a10.Body(fb, f)
            pt = bd.pointee(c["args"][0])
            if pt is None or not pt[1] or pt[1][-1] != ("f", idx):
                continue
            root_ty = f.locals[pt[0][1]] if pt[0][0] == "l" or not f.coro else ""
            if pt[0][0] == "l" and adt_key.split("::")[-1] not in root_ty:
                continue
            n += 1
            ctx.saw_fn(f)
            op = m.group(1)
            if op != "resize" and op != "resize_with":
                ctx.violation(rule, "%s/shrinks/%s/%s" % (rule, k, op), "%s calls %s on %s.%s: the dictionary can lose entries that the name->index "
                              "table still points at" % (k, op, adt_key.split("::")[-1], field), f.loc(bi))
                continue
            newlen = c["args"][1]
            if R.derives_from_call(f, newlen, lambda s: s.endswith("::max")):
                ctx.ok(rule, "%s :: %s" % (k, op), "the new length is a max(..) with the current length", f.loc(bi))
                continue

            def is_len(fn, opnds, kind):
                return any(R.derives_from_call(fn, o, lambda s: s.endswith("Vec::<T, A>::len")) for o in opnds)
            guards = [(b, t_t, f_t) for b, kind, opnds, t_t, f_t in R._cmp_switches(f) if kind in ("Lt", "Le", "Gt", "Ge") and is_len(f, opnds, kind)]
            one_edge = False
            for b, t_t, f_t in guards:
                rt = bi in C.reachable(f, t_t, removed={b})
                rf = bi in C.reachable(f, f_t, removed={b})
                if rt != rf and bi not in C.reachable(f, 0, removed={b}):
                    one_edge = True
            if one_edge:
                ctx.ok(rule, "%s :: %s" % (k, op), "resize sits on one edge only of a comparison with the vector's length (growth-only)", f.loc(bi))
            else:
                ctx.violation(rule, "%s/unguarded-resize/%s" % (rule, k),
                              "%s resizes %s.%s without a comparison against its current length on the way: Vec::resize also TRUNCATES, so an "
                              "index below the current length drops every entry above it while the name->index table keeps them" % (
                                  k, adt_key.split("::")[-1], field), f.loc(bi))
    ctx.floor(rule, "length-changing Vec operations on %s.%s" % (adt_key.split("::")[-1], field), n, floor)


def dictionary_order_rule(ctx, rule):
    """BCF numbers the dictionary of strings implicitly: the writer by the order in which StringMaps::try_from(&Header) visits the
    header collections, the reader by the order of the lines of the embedded header TEXT. The text is produced by the VCF header
    writer, so both must visit {INFO, FILTER, FORMAT} in the same relative order (contigs have their own dictionary)."""
    fb = ctx.fb
    W = "noodles_vcf::io::writer::header::write_header"
    T = "<noodles_vcf::header::string_maps::StringMaps as core::convert::TryFrom<&noodles_vcf::header::Header>>::try_from"
    seqs = {}
    for key in (W, T):
        f = ctx.body(rule, key)
        if f is None:
            return
        sites = {}
        for bi, c in f.calls():
            m = re.search(r"noodles_vcf::header::Header::(infos|filters|formats)$", c.get("f") or "")
            if m and m.group(1) not in sites:
                sites[m.group(1)] = bi
        if len(sites) != 3:
            ctx.violation(rule, "%s/ANCHOR-MISSING/%s/collections" % (rule, key), "%s no longer visits infos, filters and formats (found %s)" % (key, sorted(sites)), f.loc())
            return
        order = sorted(sites, key=lambda n: sum(1 for m2 in sites if m2 != n and C.dominates(f, sites[m2], sites[n])))
        # a total order needs pairwise dominance
        total = all(C.dominates(f, sites[a], sites[b]) for i, a in enumerate(order) for b in order[i + 1:])
        if not total:
            ctx.ok(rule, key, "collections are not visited in a fixed order (branches): not decided", f.loc())
            return
        seqs[key] = (order, f)
    (ow, fw), (ot, ft) = seqs[W], seqs[T]
    if ow != ot:
        ctx.violation(rule, "%s/dictionary-order/%s" % (rule, W),
                      "the VCF header writer emits the %s lines in the order %s, StringMaps::try_from numbers the dictionary in the order %s: "
                      "the BCF reader numbers it from the text, so every FILTER/INFO/FORMAT index written into a record resolves to a "
                      "different key on read" % ("/".join(x.upper()[:-1] for x in ow), " < ".join(ow), " < ".join(ot)), fw.loc())
    else:
        ctx.ok(rule, "write_header and StringMaps::try_from visit %s in the same order" % " < ".join(ow), "", fw.loc())



def padding_loop_rule(ctx, rule, floor):
    """padded per-sample vectors: in the BCF sample value writers the loop that writes `pad = max_len - len` end-of-vector markers
    runs once per SAMPLE, after the sample's own values: it is enclosed by exactly one loop (the per-sample loop). Nested inside the
    per-value loop (defect F43) every value of a shorter sample is followed by the padding and the series is garbage."""
    fb = ctx.fb
    n = 0
    for k, f in sorted(fb.fns.items()):
        if not k.startswith("noodles_bcf::record::codec::encoder::samples::values::") or not f.blocks or f.is_closure:
            continue
        loops = C.natural_loops(f)
        heads = {}
        for h, body in loops:
            heads.setdefault(h, set()).update(body)
        subs = set()
        for blk in f.blocks:
            for st in blk["s"]:
                if st[0] == "=" and not st[1][1] and st[2][0] == "bin" and st[2][1] in ("Sub", "SubWithOverflow"):
                    subs |= a10._derived_from(f, st[1][0])
        for bi, blk in enumerate(f.blocks):
            for st in blk["s"]:
                if not (st[0] == "=" and st[2][0] == "agg" and st[2][1] == "adt" and st[2][2].endswith("ops::range::Range") and len(st[2][4]) == 2):
                    continue
                if C.op_local(st[2][4][1]) not in subs:
                    continue
                it = a10._derived_from(f, st[1][0])
                nexts = [b for b, c in f.calls() if re.search(r"Iterator(>| for .*>)::next$", c.get("f") or "") and c["args"] and C.op_local(c["args"][0]) in it]
                if not nexts:
                    continue
                n += 1
                ctx.saw_fn(f)
                enclosing = [h for h, body in heads.items() if nexts[0] in body]
                if len(enclosing) == 2:
                    ctx.ok(rule, k + " :: padding loop", "enclosed by the per-sample loop only (a sibling of the value loop)", f.loc(bi))
                elif len(enclosing) > 2:
                    ctx.violation(rule, "%s/padding-inside-value-loop/%s" % (rule, k),
                                  "%s writes the end-of-vector padding of a shorter sample INSIDE the loop over that sample's values (%d enclosing "
                                  "loops): every value is followed by the padding, the series has the wrong length and every later sample is read "
                                  "from the wrong offset" % (k, len(enclosing) - 1), f.loc(bi))
                else:
                    ctx.ok(rule, k + " :: padding loop", "%d enclosing loop(s)" % (len(enclosing) - 1), f.loc(bi))
    ctx.floor(rule, "padding loops (0..max_len - len) in the BCF sample value writers", n, floor)



def allele_phasing_rule(ctx, rule):
    """genotypes keep phasing: in both allele encoders every value returned has consulted the phasing argument — also the one for
    a missing allele (allele -1 carries the phase bit like any other; defect F45: `.|.` came back as `./.`)."""
    fb = ctx.fb
    n = 0
    for k, f in sorted(fb.fns.items()):
        if not re.search(r"encoder::samples::values::encode_genotype(_str)?::encode$", k) or not f.blocks:
            continue
        n += 1
        ctx.saw_fn(f)
        ph = a10._derived_from(f, 2)
        tests = set()
        for bi, blk in enumerate(f.blocks):
            t = blk["t"]
            if blk.get("cu") or t[0] != "sw":
                continue
            l = C.op_local(t[1])
            if l in ph:
                tests.add(bi)
        ex = C.success_exit_blocks(f)
        free = [e for e in ex if e in C.reachable(f, 0, removed=tests)]
        if not tests:
            ctx.violation(rule, "%s/phasing-ignored/%s" % (rule, k), "%s never branches on its phasing argument" % k, f.loc())
        elif free:
            ctx.violation(rule, "%s/allele-without-phasing/%s" % (rule, k),
                          "%s can return an encoded allele without having looked at the phasing (the missing-allele shortcut): `.|.` is written "
                          "as `./.`" % k, f.loc(free[0]))
        else:
            ctx.ok(rule, k, "every returned allele code lies behind a test of the phasing argument", f.loc())
    ctx.floor(rule, "allele encoders", n, 2)
