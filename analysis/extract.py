"""Fact extraction: runs the rustc_private driver over /repo's *current working tree*.

The facts are cached under /verif/.cache keyed by a hash of every source file cargo would read
(plus the driver binary).  A cache hit means the tree is byte-identical to the one the facts
were extracted from, so the check still "rebuilds from /repo's current working tree".
"""
import fcntl
import hashlib
import json
import os
import shutil
import subprocess
import sys
import time

VERIF = os.path.dirname(os.path.dirname(os.path.abspath(__file__)))
REPO = os.environ.get("NOODLES_REPO", "/repo")
CACHE = os.environ.get("VERIF_CACHE", os.path.join(VERIF, ".cache"))
DRIVER_DIR = os.path.join(VERIF, "driver")
DRIVER_BIN = os.path.join(DRIVER_DIR, "target", "release", "noodles-facts")

CRATES = [
    "noodles", "noodles_bam", "noodles_bcf", "noodles_bed", "noodles_bgzf", "noodles_core",
    "noodles_cram", "noodles_csi", "noodles_fasta", "noodles_fastq", "noodles_gff", "noodles_gtf",
    "noodles_htsget", "noodles_refget", "noodles_sam", "noodles_tabix", "noodles_util", "noodles_vcf",
]

# cfg D: every feature except libdeflate (default + all async modules + util alignment/variant)
FEATURES_D = ",".join([
    "noodles-bam/async", "noodles-bgzf/async", "noodles-csi/async", "noodles-sam/async",
    "noodles-bcf/async", "noodles-vcf/async", "noodles-tabix/async", "noodles-cram/async",
    "noodles-fasta/async", "noodles-fastq/async", "noodles-gff/async", "noodles-util/alignment",
    "noodles-util/async", "noodles-util/variant", "noodles/async", "noodles/bam", "noodles/bcf",
    "noodles/bed", "noodles/bgzf", "noodles/core", "noodles/cram", "noodles/csi", "noodles/fasta",
    "noodles/fastq", "noodles/gff", "noodles/gtf", "noodles/sam", "noodles/tabix", "noodles/vcf",
])
# cfg L: additionally the libdeflate back ends
FEATURES_L = FEATURES_D + ",noodles-bgzf/libdeflate,noodles-cram/libdeflate"

CONFIGS = {"D": FEATURES_D, "L": FEATURES_L}


def _sysroot():
    return subprocess.check_output(["rustc", "+nightly", "--print", "sysroot"], text=True).strip()


def source_hash():
    h = hashlib.sha256()
    files = []
    for root, dirs, fs in os.walk(REPO):
        dirs[:] = sorted(d for d in dirs if d not in ("target", ".git"))
        for f in sorted(fs):
            if f.endswith(".rs") or f in ("Cargo.toml", "Cargo.lock") or f.endswith(".toml"):
                files.append(os.path.join(root, f))
    for p in files:
        h.update(os.path.relpath(p, REPO).encode())
        h.update(b"\0")
        with open(p, "rb") as fh:
            h.update(fh.read())
        h.update(b"\0")
    if os.path.exists(DRIVER_BIN):
        st = os.stat(DRIVER_BIN)
        h.update(("%d:%d" % (st.st_size, int(st.st_mtime))).encode())
    return h.hexdigest()[:24], len(files)


def ensure_driver():
    srcs = [os.path.join(DRIVER_DIR, "src", f) for f in os.listdir(os.path.join(DRIVER_DIR, "src"))]
    if os.path.exists(DRIVER_BIN):
        m = os.stat(DRIVER_BIN).st_mtime
        if all(os.stat(s).st_mtime <= m for s in srcs):
            return
    env = dict(os.environ, CARGO_NET_OFFLINE="true")
    r = subprocess.run(["cargo", "+nightly", "build", "--release", "--offline"], cwd=DRIVER_DIR,
                       env=env, stdout=subprocess.PIPE, stderr=subprocess.STDOUT, text=True)
    if r.returncode != 0:
        sys.stderr.write(r.stdout)
        raise SystemExit("driver build failed")


def _run_extract(cfg, out_dir, target_dir, log):
    env = dict(os.environ)
    env.update({
        "CARGO_NET_OFFLINE": "true",
        "NOODLES_FACTS_DIR": out_dir,
        "LD_LIBRARY_PATH": os.path.join(_sysroot(), "lib") + ":" + env.get("LD_LIBRARY_PATH", ""),
        "RUSTFLAGS": "-Zmir-opt-level=0 -Awarnings",
        "RUSTC_WORKSPACE_WRAPPER": DRIVER_BIN,
        "CARGO_TARGET_DIR": target_dir,
        # incremental state changes which MIR bodies are already stolen when the driver runs: keep it off so that
        # the facts are a function of the sources alone
        "CARGO_INCREMENTAL": "0",
    })
    env.pop("RUSTC_WRAPPER", None)
    # cargo's freshness cache would skip the wrapper for unchanged members: force them.
    fp = os.path.join(target_dir, "debug", ".fingerprint")
    if os.path.isdir(fp):
        for d in os.listdir(fp):
            if d.startswith("noodles"):
                shutil.rmtree(os.path.join(fp, d), ignore_errors=True)
    cmd = ["cargo", "+nightly", "check", "--offline", "--workspace", "--lib", "--features", CONFIGS[cfg]]
    r = subprocess.run(cmd, cwd=REPO, env=env, stdout=subprocess.PIPE, stderr=subprocess.STDOUT, text=True)
    with open(log, "w") as fh:
        fh.write(r.stdout)
    return r.returncode, r.stdout


def facts_dir(cfg="D", verbose=True):
    """Returns the directory holding <crate>.jsonl for configuration cfg of the current tree."""
    os.makedirs(CACHE, exist_ok=True)
    ensure_driver()
    lock = open(os.path.join(CACHE, "lock"), "w")
    fcntl.flock(lock, fcntl.LOCK_EX)
    try:
        h, nfiles = source_hash()
        d = os.path.join(CACHE, "facts", "%s-%s" % (cfg, h))
        ok_marker = os.path.join(d, "OK")
        if os.path.exists(ok_marker):
            return d, {"hash": h, "files_hashed": nfiles, "cache": "hit"}
        if os.path.isdir(d):
            shutil.rmtree(d)
        # keep only the most recent fact sets of this cfg (disk hygiene)
        fdir = os.path.join(CACHE, "facts")
        if os.path.isdir(fdir):
            olds = sorted((o for o in os.listdir(fdir) if o.startswith(cfg + "-")),
                          key=lambda o: os.stat(os.path.join(fdir, o)).st_mtime)
            for old in olds[:-3]:
                shutil.rmtree(os.path.join(fdir, old), ignore_errors=True)
        os.makedirs(d)
        t0 = time.time()
        target = os.path.join(CACHE, "target-" + cfg)
        rc, outp = _run_extract(cfg, d, target, os.path.join(CACHE, "extract-%s.log" % cfg))
        if rc != 0:
            sys.stderr.write(outp[-4000:])
            print("EXTRACTION-FAILED cfg=%s: /repo does not compile under cargo +nightly check" % cfg)
            raise SystemExit(2)
        missing = [c for c in CRATES if not os.path.exists(os.path.join(d, c + ".jsonl"))]
        if missing:
            print("EXTRACTION-INCOMPLETE cfg=%s missing fact files: %s" % (cfg, missing))
            raise SystemExit(2)
        with open(ok_marker, "w") as fh:
            fh.write(json.dumps({"hash": h, "wall_s": time.time() - t0}))
        if verbose:
            sys.stderr.write("[extract] cfg=%s %d crates in %.1fs\n" % (cfg, len(CRATES), time.time() - t0))
        return d, {"hash": h, "files_hashed": nfiles, "cache": "miss", "extract_wall_s": round(time.time() - t0, 1)}
    finally:
        fcntl.flock(lock, fcntl.LOCK_UN)
        lock.close()


if __name__ == "__main__":
    for cfg in sys.argv[1:] or ["D"]:
        print(facts_dir(cfg))
