"""A4 — interval reasoning for narrowing casts (DESIGN.md §4 A4): dominance-based, no solver."""
import re

from . import cfg as C
from . import rules as R

WIDTH = {"u8": (0, 2**8 - 1), "i8": (-2**7, 2**7 - 1), "u16": (0, 2**16 - 1), "i16": (-2**15, 2**15 - 1),
         "u32": (0, 2**32 - 1), "i32": (-2**31, 2**31 - 1), "u64": (0, 2**64 - 1), "i64": (-2**63, 2**63 - 1),
         "usize": (0, 2**64 - 1), "isize": (-2**63, 2**63 - 1), "u128": (0, 2**128 - 1), "i128": (-2**127, 2**127 - 1),
         "bool": (0, 1), "char": (0, 0x10ffff)}


def is_narrowing(frm, to):
    if frm not in WIDTH or to not in WIDTH:
        return False
    (fl, fh), (tl, th) = WIDTH[frm], WIDTH[to]
    return fl < tl or fh > th


def bounds(fn, op, depth=0):
    """(lo, hi) bounds of an integer operand from its defining expression and its type, or the type range."""
    if depth > 10:
        return None
    v = C.eval_const(fn, op)
    if v is not None:
        return (v, v)
    ty = None
    l = C.op_local(op)
    if l is not None:
        ty = fn.locals[l]
    tyb = WIDTH.get(ty)
    if l is None:
        return tyb
    d = C.single_def(fn, l)
    if d is None:
        return tyb
    if d[0] == "=":
        rv = d[3]
        if rv[0] == "use":
            b = bounds(fn, rv[1], depth + 1)
            return _meet(b, tyb)
        if rv[0] == "cast" and rv[1] == "IntToInt":
            src = bounds(fn, rv[2], depth + 1)
            frm = WIDTH.get(rv[3])
            src = _meet(src, frm)
            if src is not None and tyb is not None and src[0] >= tyb[0] and src[1] <= tyb[1]:
                return src
            return tyb
        if rv[0] == "bin":
            op_, a, b = rv[1], rv[2], rv[3]
            ba, bb = bounds(fn, a, depth + 1), bounds(fn, b, depth + 1)
            if op_ == "BitAnd":
                cands = [x[1] for x in (ba, bb) if x is not None and x[0] >= 0]
                if cands:
                    return (0, min(cands))
            if op_ in ("Shr", "ShrUnchecked") and ba is not None and bb is not None and ba[0] >= 0 and bb[0] == bb[1]:
                return (0, ba[1] >> bb[0])
            if op_ == "Rem" and bb is not None and bb[0] == bb[1] and bb[0] > 0 and ba is not None and ba[0] >= 0:
                return (0, bb[0] - 1)
            if op_ == "Div" and bb is not None and bb[0] == bb[1] and bb[0] > 0 and ba is not None and ba[0] >= 0:
                return (0, ba[1] // bb[0])
            return tyb
    if d[0] == "call":
        c = d[2]
        k = c.get("f") or ""
        if re.search(r"(cmp::Ord::min|as core::cmp::Ord>::min|cmp::min)$", k):
            bs = [bounds(fn, a, depth + 1) for a in c["args"]]
            his = [b[1] for b in bs if b is not None]
            if his and tyb is not None:
                return (tyb[0], min(his + [tyb[1]]))
        if re.search(r"convert::From<(u8|u16|u32|i8|i16|i32|bool)> for \w+>::from$", k):
            m = re.search(r"From<(\w+)>", k)
            return _meet(WIDTH.get(m.group(1)), tyb)
        if k.endswith("::count_ones") or k.endswith("::leading_zeros") or k.endswith("::trailing_zeros"):
            return (0, 128)
    return tyb


def _meet(a, b):
    if a is None:
        return b
    if b is None:
        return a
    return (max(a[0], b[0]), min(a[1], b[1]))


def dominating_bound(fn, block, op):
    """Upper/lower bound on the operand's local implied by comparisons with constants that dominate `block`."""
    l = C.op_local(op)
    if l is None:
        return None
    # the same value may be held in several temporaries: collect aliases through moves/copies
    aliases = {l}
    for _ in range(4):
        for a in list(aliases):
            d = C.single_def(fn, a)
            if d is not None and d[0] == "=" and d[3][0] == "use":
                x = C.op_local(d[3][1])
                if x is not None:
                    aliases.add(x)
        for x, ds in C.defs(fn).items():
            for d in ds:
                if d[0] == "=" and d[3][0] == "use" and C.op_local(d[3][1]) in aliases:
                    aliases.add(x)
    lo, hi = None, None
    for b, kind, ops, t_t, f_t in R._cmp_switches(fn):
        if kind not in ("Le", "Lt", "Gt", "Ge"):
            continue
        la, lb = C.op_local(ops[0]), C.op_local(ops[1])
        ca, cb = C.eval_const(fn, ops[0]), C.eval_const(fn, ops[1])
        # which edge dominates the use?
        on_true = t_t != f_t and block not in C.reachable(fn, 0, removed_edges={(b, t_t)})
        on_false = t_t != f_t and block not in C.reachable(fn, 0, removed_edges={(b, f_t)})
        if not (on_true or on_false):
            continue
        if la in aliases and cb is not None:
            rel, c = kind, cb
        elif lb in aliases and ca is not None:
            rel, c = {"Le": "Ge", "Lt": "Gt", "Gt": "Lt", "Ge": "Le"}[kind], ca
        else:
            continue
        if on_false:
            rel = {"Le": "Gt", "Lt": "Ge", "Gt": "Le", "Ge": "Lt"}[rel]
        if rel == "Le":
            hi = c if hi is None else min(hi, c)
        elif rel == "Lt":
            hi = c - 1 if hi is None else min(hi, c - 1)
        elif rel == "Ge":
            lo = c if lo is None else max(lo, c)
        elif rel == "Gt":
            lo = c + 1 if lo is None else max(lo, c + 1)
    return (lo, hi)


def narrowing_casts(fb, in_scope):
    """Yields dict(fn, block, frm, to, discharged) for every non-constant narrowing IntToInt cast in scope."""
    for k, f in sorted(fb.fns.items()):
        if not in_scope(k, f):
            continue
        for bi, blk in enumerate(f.blocks):
            if blk.get("cu"):
                continue
            for st in blk["s"]:
                if st[0] != "=" or st[2][0] != "cast" or st[2][1] not in ("IntToInt", "FloatToInt"):
                    continue
                frm, to = st[2][3], st[2][4]
                if st[2][1] == "FloatToInt":
                    # `f as iN` saturates and drops the fraction: never provable in range by interval reasoning on integers
                    if C.eval_const(f, st[2][2]) is None:
                        yield {"fn": k, "root": f.root, "block": bi, "frm": frm, "to": to, "discharged": None, "line": st[3]}
                    continue
                if not is_narrowing(frm, to):
                    continue
                src = st[2][2]
                if C.eval_const(f, src) is not None:
                    continue
                l = C.op_local(src)
                d = C.single_def(f, l) if l is not None else None
                if d is not None and d[0] == "=" and d[3][0] == "discr":
                    continue
                tl, th = WIDTH[to]
                b = bounds(f, src)
                dis = None
                if b is not None and b[0] >= tl and b[1] <= th:
                    dis = "value range [%s, %s] fits %s" % (b[0], b[1], to)
                else:
                    g = dominating_bound(f, bi, src)
                    if g is not None:
                        lo = g[0] if g[0] is not None else (b[0] if b else None)
                        hi = g[1] if g[1] is not None else (b[1] if b else None)
                        if lo is not None and hi is not None and lo >= tl and hi <= th:
                            dis = "dominating guards bound the value to [%s, %s] which fits %s" % (lo, hi, to)
                yield {"fn": k, "root": f.root, "block": bi, "frm": frm, "to": to, "discharged": dis, "line": st[3]}
