"""A5 — error and transfer discipline (DESIGN.md §4 A5): workspace-wide scanners."""
import json
import re

from . import cfg as C
from . import flow
from . import rules as R

SKIP_CRATES = ("noodles_htsget", "noodles_refget")   # HTTP clients: not readers/writers of the formats


def in_scope(f):
    return f.crate not in SKIP_CRATES


def is_result_ty(ty):
    return (ty.startswith("core::result::Result<") or
            ty.startswith("core::task::poll::Poll<core::result::Result<") or
            ty.startswith("core::task::poll::Poll<core::option::Option<core::result::Result<"))


def local_uses(f, l):
    n = []
    for bi, blk in enumerate(f.blocks):
        if blk.get("cu"):
            continue
        for st in blk["s"]:
            if st[0] == "=":
                for o in R.rvalue_operands(st[2]):
                    if l in R.operand_locals(o):
                        n.append(("stmt", bi, st))
                if st[1][0] == l and st[1][1]:
                    n.append(("partial", bi, st))
        t = blk["t"]
        if t[0] == "call":
            for a in t[1]["args"]:
                if l in R.operand_locals(a):
                    n.append(("arg", bi, t[1]))
            if "fop" in t[1] and l in R.operand_locals(t[1]["fop"]):
                n.append(("fop", bi, t[1]))
        elif t[0] == "sw":
            if l in R.operand_locals(t[1]):
                n.append(("sw", bi, t))
        elif t[0] == "yield":
            if l in R.operand_locals(t[1]):
                n.append(("yield", bi, t))
        elif t[0] == "assert":
            if l in R.operand_locals(t[2]):
                n.append(("assert", bi, t))
    return n


DISCARDERS = ("ok", "err", "unwrap_or_default", "drop", "is_ok", "is_err", "unwrap_or", "unwrap_or_else")


def discards(fb):
    """(a) dropped fallible results: yields dict(fn, block, callee, how, err_ty)."""
    out = []
    for k, f in fb.fns.items():
        if not in_scope(f):
            continue
        for b, c in f.calls():
            dest = c["dest"]
            if dest[1]:
                continue
            l = dest[0]
            if l == 0:
                continue
            ty = f.locals[l]
            callee = c.get("f") or "<indirect>"
            # a Result used as an iterator: `flat_map(|_| fallible())` / `result.into_iter()` yield nothing for Err — the error vanishes
            if (callee.endswith("Iterator::flat_map") and re.search(r"flatten::FlatMap<.*?, core::result::Result<.*?(io::error::Error|Error)>", ty)) or \
                    re.search(r"^<core::result::Result<T, E> as core::iter::traits::collect::IntoIterator>::into_iter$", callee):
                out.append({"fn": k, "block": b, "callee": callee, "how": "Result used as an iterator: Err yields no item and is dropped", "ty": ty})
                continue
            if not is_result_ty(ty):
                continue
            if callee.endswith("::from_residual") or flow.is_pass_through(callee):
                continue
            us = local_uses(f, l)
            if not us:
                out.append({"fn": k, "block": b, "callee": callee, "how": "unused", "ty": ty})
            elif len(us) == 1 and us[0][0] == "arg":
                c2 = us[0][2]
                k2 = (c2.get("f") or "")
                if k2.split("::")[-1] in DISCARDERS and ("result::Result" in k2 or "mem::drop" in k2):
                    d2 = c2["dest"]
                    if not d2[1] and d2[0] != 0 and not local_uses(f, d2[0]):
                        out.append({"fn": k, "block": b, "callee": callee, "how": "via " + k2.split("::")[-1], "ty": ty})
    return out


def err_to_ok(fb):
    """Switches on the discriminant of a Result whose Err edge reaches a success exit.
    yields dict(fn, block, inspected: bool, ty)."""
    out = []
    for k, f in fb.fns.items():
        if not in_scope(f):
            continue
        ex = None
        for bi, blk in enumerate(f.blocks):
            if blk.get("cu") or blk["t"][0] != "sw":
                continue
            cond = C.switch_condition(f, bi)
            if not cond or cond[0] != "discr":
                continue
            pl = cond[1]
            if pl[1] and not all(p == "*" for p in pl[1]):
                continue
            ty = f.locals[pl[0]]
            t = ty.lstrip("&").replace("mut ", "")
            if not t.startswith("core::result::Result<"):
                continue
            vals = dict((v, tg) for v, tg in blk["t"][2])
            err_t = vals.get(1, blk["t"][3])
            if ex is None:
                ex = C.success_exit_blocks(f)
            reach = C.reachable(f, err_t, removed={bi})
            if not any(e in reach for e in ex):
                continue
            # the retry idiom `Err(ref e) if e.kind() == ErrorKind::Interrupted => continue`: every way from the Err edge to a success
            # exit passes the comparison with Interrupted, and the loop the switch sits in is re-entered (a back edge to a header that
            # dominates the switch)
            cmpb = {b for b in reach for st in f.blocks[b]["s"] if st[0] == "=" and st[2][0] == "agg" and st[2][1] == "adt"
                    and st[2][2].endswith("io::error::ErrorKind") and st[2][3] == "Interrupted"}
            if cmpb:
                around = C.reachable(f, err_t, removed={bi} | cmpb) if err_t not in cmpb else set()
                heads = {h for h, body in C.natural_loops(f) if bi in body and C.dominates(f, h, bi)}
                if not any(e in around for e in ex) and any(h in reach for h in heads):
                    continue
            read = False
            for b in reach:
                for st in f.blocks[b]["s"]:
                    if st[0] == "=":
                        for o in R.rvalue_operands(st[2]):
                            p = C.op_place(o)
                            if p and any(isinstance(x, list) and x[0] == "dc" and x[1] == "Err" for x in p[1]):
                                read = True
            out.append({"fn": k, "block": bi, "inspected": read, "ty": t})
    return out


RAW_READ = re.compile(r"(std::io::Read::read|as std::io::Read>::read|AsyncRead::poll_read|AsyncRead>::poll_read|"
                      r"AsyncReadExt::read)$")
RAW_WRITE = re.compile(r"(std::io::Write::write|as std::io::Write>::write|AsyncWrite::poll_write|"
                       r"AsyncWrite>::poll_write|AsyncWriteExt::write)$")
FILL_BUF = re.compile(r"(BufRead::fill_buf|as std::io::BufRead>::fill_buf|AsyncBufRead::poll_fill_buf|"
                      r"AsyncBufRead>::poll_fill_buf|AsyncBufReadExt::fill_buf)$")

SAME_FAMILY = {
    "read": ("read", "poll_read"), "poll_read": ("read", "poll_read"),
    "write": ("write", "poll_write"), "poll_write": ("write", "poll_write"),
    "fill_buf": ("fill_buf", "poll_fill_buf", "read", "poll_read"),
    "poll_fill_buf": ("fill_buf", "poll_fill_buf", "read", "poll_read"),
}


def _enclosing_trait_method(fb, f):
    g = f
    while g is not None and g.is_closure and g.parent:
        g = fb.fn(g.parent)
    if g is None or not g.trait_item:
        return None
    return g.trait_item.split("::")[-1]


def in_loop(f, b):
    return [h for h, body in C.natural_loops(f) if b in body]


def _compares_interrupted(fb, f):
    """Does the function (or a closure / match guard in it) compare an ErrorKind with Interrupted?"""
    for g in fb.family(f.root if f.is_closure else f.key):
        for blk in g.blocks:
            for st in blk["s"]:
                if st[0] == "=" and st[2][0] == "agg" and st[2][1] == "adt" and \
                        st[2][2].endswith("io::error::ErrorKind") and st[2][3] == "Interrupted":
                    return True
    return False


def _retries_interrupted(fb, f, call_block):
    """Sharper form for one fill_buf site: the comparison with Interrupted sits in the same body and the call is reached again from it
    (a retry, not a break or a successful return); a comparison that lives in a closure of the function is accepted as before."""
    own = [b for b, blk in enumerate(f.blocks) for st in blk["s"]
           if st[0] == "=" and st[2][0] == "agg" and st[2][1] == "adt" and st[2][2].endswith("io::error::ErrorKind") and st[2][3] == "Interrupted"]
    if not own:
        return _compares_interrupted(fb, f)
    return any(call_block in C.reachable(f, b) for b in own)


def raw_io_sites(fb, rx):
    """Classify raw read / write call sites: delegation | loop | once."""
    out = []
    for k, f in fb.fns.items():
        if not in_scope(f):
            continue
        for b, c in f.calls():
            fk = c.get("f")
            if not fk or not rx.search(fk):
                continue
            short = fk.split("::")[-1]
            encl = _enclosing_trait_method(fb, f)
            if encl in SAME_FAMILY.get(short, ()):
                cls = "delegation"
            elif in_loop(f, b):
                cls = "loop"
            else:
                cls = "once"
            out.append({"fn": k, "block": b, "callee": fk, "class": cls,
                        "interrupted": _compares_interrupted(fb, f) if cls == "loop" else None})
    return out


PEEK_OK = ("is_empty", "len", "first", "from_residual", "is_some", "is_none")
WINDOW_FNS = ("starts_with", "ends_with", "strip_prefix", "get", "split_at", "split_at_checked", "first_chunk",
              "split_first_chunk", "eq", "ne")


def _const_arg_len(f, op):
    """Length in bytes of a constant byte-string argument, or None."""
    k = C.op_const(op)
    if k is not None and "raw" in k:
        return len(k["raw"]) // 2
    d = C.defs(f)
    seen = set()
    stack = list(R.operand_locals(op))
    while stack:
        l = stack.pop()
        if l in seen:
            continue
        seen.add(l)
        m = re.match(r"^&?(?:mut )?\[u8; (\d+)\]$", f.locals[l])
        if m:
            return int(m.group(1))
        for df in d.get(l, []):
            if df[0] == "=":
                for o in R.rvalue_operands(df[3]):
                    kk = C.op_const(o)
                    if kk is not None and "raw" in kk:
                        return len(kk["raw"]) // 2
                    stack.extend(R.operand_locals(o))
    return None


def fill_buf_sites(fb):
    """Classify fill_buf call sites: delegation | scan-in-loop | peek-1 | window-assumption."""
    out = []
    for k, f in fb.fns.items():
        if not in_scope(f):
            continue
        for b, c in f.calls():
            fk = c.get("f")
            if not fk or not FILL_BUF.search(fk):
                continue
            short = fk.split("::")[-1]
            encl = _enclosing_trait_method(fb, f)
            cons, uses = flow.consumers(f, b)
            window = []
            other = []
            for ck, ai in cons:
                s = ck.split("::")[-1]
                if s in PEEK_OK:
                    continue
                if s in WINDOW_FNS and ai == 0:
                    # find the call to see its other argument
                    for u in uses:
                        if u[0] == "arg" and u[2].get("f") == ck and u[3] == 0:
                            args = u[2]["args"]
                            n = _const_arg_len(f, args[1]) if len(args) > 1 else None
                            if s == "get":
                                # get(i) with integer const 0 is a peek; get(range) is a window
                                kc = C.op_const(args[1]) if len(args) > 1 else None
                                if kc is not None and kc.get("v") == 0:
                                    continue
                                window.append(s)
                            elif n is not None and n <= 1:
                                continue
                            else:
                                window.append(s + ("(%s bytes)" % n if n is not None else ""))
                    continue
                other.append(s)
            if encl in SAME_FAMILY.get(short, ()):
                cls = "delegation"
            elif window:
                cls = "window-assumption"
            elif in_loop(f, b):
                cls = "scan-in-loop"
            elif not other or all(o in ("index",) for o in other):
                cls = "peek-1"
            else:
                cls = "window-assumption"
                window = other
            out.append({"fn": k, "block": b, "callee": fk, "class": cls, "window": sorted(set(window)),
                        "consumers": sorted({ck.split("::")[-1] for ck, _ in cons})})
    return out


def result_err_ty(ty):
    """Error type parameter of a `core::result::Result<T, E>` type string (None if not a Result)."""
    pre = "core::result::Result<"
    if not ty.startswith(pre) or not ty.endswith(">"):
        return None
    inner = ty[len(pre):-1]
    depth = 0
    last = None
    for i, ch in enumerate(inner):
        if ch in "<([":
            depth += 1
        elif ch in ">)]":
            depth -= 1
        elif ch == "," and depth == 0:
            last = i
    if last is None:
        return None
    return inner[last + 1:].strip()


# ------------------------------------------------------------------------------------------------
# A5d refinement: a two-byte line terminator split across fill_buf windows
# ------------------------------------------------------------------------------------------------

def _mentions_cr(f, blk):
    """Does the block test / use the CR byte (u8 0x0d, char '\\r', the one-byte array [0x0d])?"""
    def is_cr(k):
        if k is None:
            return False
        v = k.get("v", None)
        if v == 13 and k.get("ty") in ("u8", "char", "i8", "u32", "usize", "i32"):
            return True
        return k.get("raw") == "0d"
    for st in blk["s"]:
        if st[0] == "=":
            for o in R.rvalue_operands(st[2]):
                if is_cr(C.op_const(o)):
                    return True
    t = blk["t"]
    if t[0] == "call":
        for a in t[1]["args"]:
            if is_cr(C.op_const(a)):
                return True
    elif t[0] == "sw":
        if any(v == 13 for v, _tg in t[2]):
            return True
    return False


def crlf_window_sites(fb):
    """For every function that scans a fill_buf window for LF with memchr and strips a CR: is some CR test performed on a
    path that does NOT require the LF to have been found in the same window? Returns list of dict(fn, ok, some_edge, tests)."""
    out = []
    for k, f in sorted(fb.fns.items()):
        if not in_scope(f):
            continue
        calls = list(f.calls())
        if not any((c.get("f") or "").endswith(("::fill_buf", "::poll_fill_buf")) for b, c in calls):
            continue
        mem = [(b, c) for b, c in calls if re.search(r"memchr::memchr::memchr[23]?$|memchr::memchr[23]?$", c.get("f") or "")
               and any((C.op_const(a) or {}).get("v") == 10 for a in c["args"])]
        if not mem:
            continue
        tests = [bi for bi, blk in enumerate(f.blocks) if not blk.get("cu") and _mentions_cr(f, blk)]
        if not tests:
            continue
        # Some-edges of switches on the memchr result's discriminant
        some_targets = []
        for b, blk in enumerate(f.blocks):
            if blk.get("cu") or blk["t"][0] != "sw":
                continue
            cond = C.switch_condition(f, b)
            if not cond or cond[0] != "discr":
                continue
            base = cond[1][0]
            if not any(R.derives_from_local(f, ["c", [base, []]], c["dest"][0]) or base == c["dest"][0] for _b, c in mem):
                continue
            vals = dict((v, tg) for v, tg in blk["t"][2])
            if 1 in vals:
                some_targets.append((b, vals[1]))
            elif 0 in vals:
                some_targets.append((b, blk["t"][3]))
        if not some_targets:
            continue
        # a CR test is window-independent if it is reachable from the entry with the Some-edges removed, or if what it tests
        # is not the window (e.g. the accumulated destination buffer, which also holds a CR read from an earlier window)
        reach = C.reachable(f, 0, removed_edges=set(some_targets))
        is_fill = R.mk_pred(r"::(fill_buf|poll_fill_buf)$")

        def on_window(bi):
            blk = f.blocks[bi]
            ops = []
            for st in blk["s"]:
                if st[0] == "=":
                    ops.extend(R.rvalue_operands(st[2]))
            if blk["t"][0] == "call":
                ops.extend(blk["t"][1]["args"])
            return any(R.derives_from_call(f, o, is_fill) for o in ops if o[0] in ("c", "m"))
        free = [t for t in tests if t in reach or not on_window(t)]
        out.append({"fn": k, "ok": bool(free), "tests": tests, "free": free, "switch": some_targets[0][0]})
    return out


# ------------------------------------------------------------------------------------------------
# A5d refinement: a scanner that copies window bytes to a destination copies them on every consuming path
# ------------------------------------------------------------------------------------------------

APPEND_RX = re.compile(r"(Vec::<T, A>::extend_from_slice|Extend<[^>]*>>::extend|Extend<&'a T>>::extend|string::String::push_str|"
                       r"ByteVec::push_str|BytesMut::extend_from_slice|Vec::<T, A>::push|string::String::push)$")


def copy_before_consume_sites(fb):
    """Functions with a fill_buf call in a loop, a `consume` call, and at least one append of window-derived bytes to a
    destination: every path from the fill_buf call to a consume call passes such an append, unless the consumed amount is a
    constant (a delimiter that is skipped). Returns list of dict(fn, ok, bad_consume_block)."""
    out = []
    is_fill = R.mk_pred(r"::(fill_buf|poll_fill_buf)$")
    for k, f in sorted(fb.fns.items()):
        if not in_scope(f):
            continue
        calls = list(f.calls())
        fills = [(b, c) for b, c in calls if is_fill(c.get("f") or "") and in_loop(f, b)]
        cons = [(b, c) for b, c in calls if (c.get("f") or "").endswith(("BufRead::consume", "AsyncBufReadExt::consume", "AsyncBufRead::consume"))
                or re.search(r"as (std::io::BufRead|tokio::io::async_buf_read::AsyncBufRead)>::consume$", c.get("f") or "")]
        if not fills or not cons:
            continue
        appends = {b for b, c in calls if APPEND_RX.search(c.get("f") or "")
                   and any(R.derives_from_call(f, a, is_fill) for a in c["args"][1:])}
        # ... or through a helper of the same crate that is handed the window and appends it (push_utf8(dst, partial, window))
        for b, c in calls:
            g = fb.fns.get(c.get("f") or "")
            if g is None or g.is_closure or g.crate != f.crate:
                continue
            win = [i for i, a in enumerate(c["args"]) if R.derives_from_call(f, a, is_fill)]
            if win and any(APPEND_RX.search(gc.get("f") or "") and any(R.derives_from_local(g, a, i + 1) for i in win for a in gc["args"][1:])
                           for _gb, gc in g.calls()):
                appends.add(b)
        if not appends:
            continue      # a pure skipper (discard_line, consume_line)
        bad = None
        for fbk, fc in fills:
            if fc["t"] is None:
                continue
            reach = C.reachable(f, fc["t"], removed=appends | {fbk})
            for cb, cc in cons:
                if cb in reach and cb not in appends:
                    amt = cc["args"][-1]
                    if C.eval_const(f, amt) is not None:
                        continue      # consume(1): a delimiter byte
                    bad = cb
                    break
            if bad is not None:
                break
        out.append({"fn": k, "ok": bad is None, "bad": bad, "appends": sorted(appends)})
    return out


# ------------------------------------------------------------------------------------------------
# A5d refinement: a multi-byte unit decoder fed one fill_buf window at a time
# ------------------------------------------------------------------------------------------------

UNIT_DECODER_RX = re.compile(r"(core::str::converts::from_utf8|alloc::string::String::from_utf8)$")


def window_decoder_sites(fb):
    """Calls of a UTF-8 validator on bytes of ONE fill_buf window inside a scanning loop (directly, or in a helper that is
    handed the window). A character may straddle two windows, so the decoder's error must not be final: the site is ok
    iff some path from the Err edge of the result reaches a success exit (the incomplete tail is carried over).
    Returns list of dict(fn, block, ok, via)."""
    is_fill = R.mk_pred(r"::(fill_buf|poll_fill_buf)$")
    out = []

    def check(f, b, c, via):
        dest = c["dest"][0]
        ex = set(C.success_exit_blocks(f))
        handled = False
        seen_switch = False
        for sb, blk in enumerate(f.blocks):
            if blk.get("cu") or blk["t"][0] != "sw":
                continue
            cond = C.switch_condition(f, sb)
            if not cond or cond[0] != "discr":
                continue
            base = cond[1][0]
            if base != dest and not R.derives_from_local(f, ["c", [base, []]], dest, through_calls=True):
                continue
            seen_switch = True
            vals = dict((v, tg) for v, tg in blk["t"][2])
            err_t = vals.get(1, blk["t"][3] if 0 in vals else None)
            if err_t is None:
                continue
            if ex & C.reachable(f, err_t):
                handled = True
        out.append({"fn": f.key, "block": b, "ok": handled, "via": via, "switch_seen": seen_switch})

    for k, f in sorted(fb.fns.items()):
        if not in_scope(f):
            continue
        calls = list(f.calls())
        if not any(is_fill(c.get("f") or "") and in_loop(f, b) for b, c in calls):
            continue
        for b, c in calls:
            fk = c.get("f") or ""
            win_args = [i for i, a in enumerate(c["args"]) if R.derives_from_call(f, a, is_fill)]
            if not win_args:
                continue
            if UNIT_DECODER_RX.search(fk):
                check(f, b, c, None)
                continue
            g = fb.fns.get(fk)
            if g is None or g.is_closure or g.crate != f.crate:
                continue
            # helper handed the window: its parameter is window-derived
            for gb, gc in g.calls():
                if UNIT_DECODER_RX.search(gc.get("f") or "") and any(
                        any(R.derives_from_local(g, a, i + 1) for i in win_args) for a in gc["args"]):
                    check(g, gb, gc, f.key)
    return out


# ------------------------------------------------------------------------------------------------ fill_buf loops end at EOF
EMPTY_TEST_RX = re.compile(r"(::is_empty|::len|::first|::split_first|::get|::last|::split_last|::starts_with|::ends_with)$")

# reviewed: loops whose EOF exit is not a direct test-controlled edge (key = function)
FILL_LOOP_TABLE = {
    "noodles_fasta::io::reader::sequence::consume_empty_lines":
        "leaves when neither window starts with CR / LF: `starts_with` is false on an empty window, the flag `is_newline` stays false "
        "and the `if !is_newline { break }` exit is taken (flag-controlled exit; the rule follows direct test edges only)",
}


def fill_loop_eof_rule(ctx, rule, floor):
    sites = fill_loop_eof_sites(ctx.fb)
    n = 0
    for s in sites:
        f = ctx.fb.fns[s["fn"]]
        ctx.saw_fn(f)
        n += 1
        root = f.root if hasattr(f, "root") else s["fn"]
        if s["eof_exit"]:
            ctx.ok(rule, "%s :: loop around %s" % (s["fn"], s["callee"].split("::")[-1]),
                   "an exit edge of the loop is controlled by the emptiness of the window (%d switch block(s))" % len(s["exit_blocks"]), f.loc(s["block"]))
        elif root in FILL_LOOP_TABLE or s["fn"] in FILL_LOOP_TABLE:
            ctx.ok(rule, "%s :: loop around %s" % (s["fn"], s["callee"].split("::")[-1]), "tabled: " + FILL_LOOP_TABLE.get(root, FILL_LOOP_TABLE.get(s["fn"])), f.loc(s["block"]))
        else:
            ctx.violation(rule, "%s/fill-loop-without-eof-exit/%s" % (rule, root),
                          "%s loops around %s but no exit of the loop depends on the window being empty (is_empty / len / first / "
                          "starts_with): an empty window is BufRead's only end-of-stream signal, so on a stream that ends before the "
                          "terminator the loop calls consume(0) forever" % (s["fn"], s["callee"].split("::")[-1]), f.loc(s["block"]))
    ctx.floor(rule, "fill_buf calls inside loops", n, floor)



def fill_loop_eof_sites(fb):
    """For every fill_buf call inside a loop: does the loop have an exit edge controlled by the emptiness of the window
    (`src.is_empty()`, a length compared with 0, `first()`/`get(0)` being None)? An empty window is the only EOF signal of BufRead;
    a scanning loop that leaves only when it finds its terminator spins forever on a truncated stream (consume(0) changes nothing)."""
    from . import a10
    out = []
    for k, f in sorted(fb.fns.items()):
        if not in_scope(f) or not f.blocks:
            continue
        loops = None
        for b, c in f.calls():
            fk = c.get("f") or ""
            if not FILL_BUF.search(fk):
                continue
            if loops is None:
                loops = C.natural_loops(f)
            mine = [body for h, body in loops if b in body]
            if not mine:
                continue
            # a loop whose every cycle goes through the Err edge of this very call (retry on Interrupted, then return) scans nothing
            d0 = c.get("dest")
            if d0 is not None and not d0[1]:
                errs = set()
                for s0 in set().union(*mine):
                    t0 = f.blocks[s0]["t"]
                    if t0[0] == "sw":
                        cond0 = C.switch_condition(f, s0)
                        if cond0 and cond0[0] == "discr" and cond0[1][0] == d0[0]:
                            vals0 = dict((v, tg) for v, tg in t0[2])
                            errs.add(vals0.get(1, t0[3]))
                nxt0 = c.get("t")
                if errs and nxt0 is not None and b not in C.reachable(f, nxt0, removed=errs):
                    continue
            # several back edges (a `continue` on Interrupted) give several natural loops with the same header: take their union
            body = set().union(*mine)
            d = c.get("dest")
            if d is None or d[1]:
                continue
            win = a10._derived_from(f, d[0])
            tests = set()
            for b2, c2 in f.calls():
                fk2 = c2.get("f") or ""
                if b2 in body and EMPTY_TEST_RX.search(fk2) and c2["args"] and C.op_local(c2["args"][0]) in win and c2.get("dest") and not c2["dest"][1]:
                    tests |= a10._derived_from(f, c2["dest"][0])
            # slice patterns (`let [first, ..] = src else { break }`) test the length through PtrMetadata, not a call
            for s_ in body:
                for st in f.blocks[s_]["s"]:
                    if st[0] == "=" and not st[1][1] and st[2][0] == "un" and st[2][1] == "PtrMetadata" and \
                            any(l in win for l in R.operand_locals(st[2][2])):
                        tests |= a10._derived_from(f, st[1][0])
            exits = []
            for s in body:
                t = f.blocks[s]["t"]
                if t[0] != "sw":
                    continue
                l = C.op_local(t[1])
                if l is None or l not in tests:
                    continue
                targets = [tg for _v, tg in t[2]] + ([t[3]] if t[3] is not None else [])
                if any(tg not in body for tg in targets) or any(_leaves(f, tg, body) for tg in targets):
                    exits.append(s)
            out.append({"fn": k, "block": b, "callee": fk, "eof_exit": bool(exits), "exit_blocks": sorted(exits), "loop_size": len(body)})
    return out


def _leaves(f, start, body):
    """Does control from `start` leave the loop body without passing another switch (break through drops / gotos)?"""
    b = start
    for _ in range(12):
        if b not in body:
            return True
        t = f.blocks[b]["t"]
        if t[0] == "goto":
            b = t[1]
        elif t[0] == "drop":
            b = t[2]
        elif t[0] == "fe":
            b = t[1]
        else:
            return False
    return False


# ------------------------------------------------------------------------------------------------ consumed bytes are counted
def consume_accounting_sites(fb):
    """Scanners that return a byte count (io::Result<usize> / (usize, ..)) and call consume(n) with a computed n: is every consumed
    amount added to a counter? For each consume site: some `x = y + v` whose v has the same source as n either precedes the
    consume in the same iteration (dominates it, no fill_buf in between) or lies on every path from the consume to the next
    fill_buf / to an exit."""
    out = []
    CONS = re.compile(r"(BufRead::consume|AsyncBufReadExt::consume|BufRead>::consume)$")
    for k, f in sorted(fb.fns.items()):
        if not in_scope(f) or not f.blocks:
            continue
        if not re.search(r"Result<\(?usize", f.locals[0] or ""):
            continue
        sites = [(b, c) for b, c in f.calls() if CONS.search(c.get("f") or "") and len(c["args"]) == 2 and C.eval_const(f, c["args"][1]) is None]
        if not sites:
            continue
        fills = {b for b, c in f.calls() if FILL_BUF.search(c.get("f") or "")}
        exits = set(C.return_blocks(f))
        adds = []       # (block, operand)
        for bi, blk in enumerate(f.blocks):
            if blk.get("cu"):
                continue
            for st in blk["s"]:
                if st[0] == "=" and st[2][0] == "bin" and st[2][1] in ("Add", "AddWithOverflow"):
                    adds.append((bi, st[2][2], st[2][3]))

        def roots(op, depth=0):
            """source locals / constants an operand is computed from (through copies and +1 style arithmetic)"""
            k_ = C.op_const(op)
            if k_ is not None:
                return {("k", k_.get("v"))}
            l = C.op_local(op)
            if l is None:
                pl = C.op_place(op)
                l = pl[0] if pl else None
            if l is None or depth > 6:
                return set()
            ds = [d for d in C.defs(f).get(l, []) if d[0] in ("=", "call")]
            if len(ds) != 1 or ds[0][0] == "call":
                return {("l", l)}
            rv = ds[0][3]
            if rv[0] in ("use", "cast"):
                o = rv[1] if rv[0] == "use" else rv[2]
                return roots(o, depth + 1) or {("l", l)}
            if rv[0] == "bin" and rv[1] in ("Add", "AddWithOverflow", "Sub", "SubWithOverflow"):
                return roots(rv[2], depth + 1) | roots(rv[3], depth + 1)
            return {("l", l)}
        # a function whose returned number is the growth of its destination (`Ok(buf.len() - start)`) counts elements, not stream bytes
        ret_roots = set()
        for blk in f.blocks:
            for st in blk["s"]:
                if st[0] == "=" and st[1][0] == 0 and not st[1][1] and st[2][0] == "agg" and st[2][3] == "Ok" and st[2][4]:
                    ret_roots |= roots(st[2][4][0])
        def _is_len(r):
            ds = [d for d in C.defs(f).get(r[1], [])] if r[0] == "l" else []
            return len(ds) == 1 and ds[0][0] == "call" and re.search(r"vec::Vec(::)?<.*>::len$", ds[0][2].get("f") or "") is not None
        if ret_roots and all(_is_len(r) for r in ret_roots):
            continue
        for b, c in sites:
            want = {r for r in roots(c["args"][1]) if r[0] == "l"}
            pb = {bi for bi, a1, a2 in adds if want and (want <= (roots(a1) | roots(a2)))}
            ok = False
            for p in pb:
                if C.dominates(f, p, b) and b in C.reachable(f, p, removed=fills - {p}):
                    ok = True
            if not ok and pb:
                nxt = c.get("t")
                reach = C.reachable(f, nxt, removed=pb) if nxt is not None and nxt not in pb else set()
                ok = not (reach & (fills | exits))
            if not ok:
                # `let amt = src.read(buf)?; self.consume(amt); Ok(amt)`: the amount itself is what the function returns
                for blk in f.blocks:
                    for st in blk["s"]:
                        if st[0] == "=" and st[1][0] == 0 and not st[1][1] and st[2][0] == "agg" and st[2][4] and want and want <= roots(st[2][4][0]):
                            ok = True
            out.append({"fn": k, "block": b, "ok": ok, "adds": sorted(pb)})
    return out


def consume_accounting_rule(ctx, rule, floor):
    n = 0
    for s_ in consume_accounting_sites(ctx.fb):
        f = ctx.fb.fns[s_["fn"]]
        n += 1
        ctx.saw_fn(f)
        if s_["ok"]:
            ctx.ok(rule, "%s :: consume(n)" % s_["fn"], "the consumed amount is added to the returned count in the same iteration (or is the value returned)", f.loc(s_["block"]))
        else:
            ctx.violation(rule, "%s/consumed-bytes-not-counted/%s" % (rule, f.root),
                          "%s consumes a computed number of bytes that is not added to the byte count it returns on that path: when a field / "
                          "name continues in the next fill_buf window the count comes back too small, so offsets derived from it (index "
                          "records, positions) depend on how the source chunks its reads" % f.root, f.loc(s_["block"]))
    ctx.floor(rule, "consume(n) sites in byte-counting scanners", n, floor)


GROWTH_CALLEE = re.compile(r"(Read|AsyncReadExt)::(read_to_end|read_to_string)$|vec::Vec(::)?<.*>::len$")
CONSUMED_CALLEE = re.compile(r"(BufRead|AsyncBufReadExt)::(read_until|read_line)$")


def count_meaning(fb, f):
    """What does the usize a scanner returns in Ok(..) count?  'growth' = elements appended to the destination (Vec::len difference,
    read_to_end's result), 'consumed' = bytes taken from the stream (a running sum that a consume amount is added to, read_until's
    result). None when the value has another origin (not classified, never compared)."""
    ret = []
    for blk in f.blocks:
        for st in blk["s"]:
            if st[0] == "=" and st[1][0] == 0 and not st[1][1] and st[2][0] == "agg" and st[2][3] == "Ok" and st[2][4]:
                ret.append(st[2][4][0])
    cons_amounts = set()
    for b, c in f.calls():
        if re.search(r"(BufRead::consume|AsyncBufReadExt::consume|BufRead>::consume)$", c.get("f") or "") and len(c["args"]) == 2:
            l = C.op_local(c["args"][1])
            if l is not None:
                cons_amounts.add(l)
    classes = set()
    seen = set()

    def walk(op, depth=0):
        l = C.op_local(op)
        if l is None:
            pl = C.op_place(op)
            l = pl[0] if pl else None
        if l is None or depth > 8 or l in seen:
            return
        seen.add(l)
        for d in C.defs(f).get(l, []):
            if d[0] in ("call", "partial-call"):
                fk = d[2].get("f") or ""
                if GROWTH_CALLEE.search(fk):
                    classes.add("growth")
                elif CONSUMED_CALLEE.search(fk):
                    classes.add("consumed")
                elif re.search(r"Try>::branch$|ControlFlow|into_future|poll$|convert::From", fk) or fk.endswith("::from_residual"):
                    for a in d[2]["args"]:
                        walk(a, depth + 1)
                else:
                    classes.add("other:" + fk.split("::")[-1])
            elif d[0] in ("=", "partial"):
                rv = d[3]
                if rv[0] == "bin" and rv[1] in ("Add", "AddWithOverflow"):
                    ls = {C.op_local(rv[2]), C.op_local(rv[3])}
                    src = set()
                    for o in (rv[2], rv[3]):
                        ol = C.op_local(o)
                        if ol is not None:
                            src.add(ol)
                            for d2 in C.defs(f).get(ol, []):
                                if d2[0] == "=" and d2[3][0] == "use":
                                    src.add(C.op_local(d2[3][1]))
                    if src & cons_amounts or any(_same_source(f, x, y) for x in src if x is not None for y in cons_amounts):
                        classes.add("consumed")
                    for o in (rv[2], rv[3]):
                        walk(o, depth + 1)
                else:
                    for o in R_operands(rv):
                        walk(o, depth + 1)
    for o in ret:
        walk(o)
    for b, c in f.calls():      # `reader.read_to_end(buf)` in tail position: the callee's result is the function's result
        d0 = c.get("dest")
        if d0 is not None and d0[0] == 0 and not d0[1]:
            fk = c.get("f") or ""
            if GROWTH_CALLEE.search(fk):
                classes.add("growth")
            elif CONSUMED_CALLEE.search(fk):
                classes.add("consumed")
            elif not fk.endswith("::from_residual"):      # `?` on the error path: no count is returned there
                classes.add("other:" + fk.split("::")[-1])
    base = {c for c in classes if c in ("growth", "consumed")}
    if len(base) == 1 and not any(c.startswith("other:") for c in classes):
        return next(iter(base))
    return None


def _same_source(f, x, y):
    """x and y are copies of one local (a match binding used both as the consume amount and as the addend)"""
    def src(l, depth=0):
        out = {l}
        if depth > 4:
            return out
        for d in C.defs(f).get(l, []):
            if d[0] == "=" and d[3][0] == "use":
                ol = C.op_local(d[3][1])
                if ol is None:
                    pl = C.op_place(d[3][1])
                    ol = pl[0] if pl else None
                if ol is not None:
                    out |= src(ol, depth + 1)
        return out
    return bool(src(x) & src(y))


def R_operands(rv):
    from . import rules as _R
    return _R.rvalue_operands(rv)


READ_EXACT_DELEGATE = re.compile(r"::read_exact$|::default_read_exact$")


def read_exact_evidence(fb, f):
    """Edges / blocks of a read_exact implementation that carry evidence that the WHOLE buffer was filled:
    the Some edge of `..get(..buf.len())`, the `is_empty()` edge of a test on the (shrinking) buffer, the edge of a comparison with the
    buffer's length that leaves the loop (or its equal edge), and delegations to a read_exact-family callee."""
    from . import rules as _R
    edges, blocks = set(), set()
    loops = C.natural_loops(f)
    for b, c in f.calls():
        if READ_EXACT_DELEGATE.search(c.get("f") or ""):
            blocks.add(b)
    for b, blk in enumerate(f.blocks):
        t = blk["t"]
        if t[0] != "sw" or blk.get("cu"):
            continue
        cond = C.switch_condition(f, b)
        if not cond:
            continue
        vals = dict((v, tg) for v, tg in t[2])
        if cond[0] == "discr":
            # Option returned by a length-bounded view of a block: get(..buf.len())
            pl = cond[1]
            for d in C.defs(f).get(pl[0], []):
                if d[0] == "call" and re.search(r"slice::<impl \[T\]>::get$|slice::<impl \[T\]>::split_at_checked$|slice::<impl \[T\]>::first_chunk$",
                                                d[2].get("f") or ""):
                    some = vals.get(1, t[3] if 1 not in vals else None)
                    if some is not None:
                        edges.add((b, some))
        elif cond[0] == "call":
            fk = cond[1].get("f") or ""
            if re.search(r"slice::<impl \[T\]>::is_empty$", fk) and _of_buffer(f, cond[1]["args"][0]):
                # nonzero = empty
                nz = t[3] if 0 in vals else None
                if nz is not None:
                    edges.add((b, nz))
        elif cond[0] == "not":
            l = C.op_local(cond[1])
            d = C.single_def(f, l) if l is not None else None
            if d is not None and d[0] == "call" and re.search(r"slice::<impl \[T\]>::is_empty$", d[2].get("f") or "") and \
                    _of_buffer(f, d[2]["args"][0]):
                # switch on !is_empty: zero = empty
                if 0 in vals:
                    edges.add((b, vals[0]))
        elif cond[0] == "cmp":
            def from_len(o):
                l = C.op_local(o)
                if l is None:
                    return False
                for d in C.defs(f).get(l, []):
                    if d[0] == "=" and d[3][0] in ("len", "ptrmeta", "un") and "PtrMetadata" in json.dumps(d[3]):
                        return True
                    if d[0] == "=" and d[3][0] == "len":
                        return True
                    if d[0] == "call" and re.search(r"slice::<impl \[T\]>::len$", d[2].get("f") or ""):
                        return True
                return False
            if (from_len(cond[2]) and _of_buffer(f, cond[2])) or (from_len(cond[3]) and _of_buffer(f, cond[3])):
                mine = [body for h, body in loops if b in body]
                body = set().union(*mine) if mine else set()
                if cond[1] == "Eq":
                    if 0 in vals:
                        edges.add((b, t[3]))
                elif cond[1] == "Ne":
                    if 0 in vals:
                        edges.add((b, vals[0]))
                else:
                    for tg in list(vals.values()) + [t[3]]:
                        if body and tg not in body:
                            edges.add((b, tg))
    return edges, blocks


def _of_buffer(f, op):
    """does the operand derive from the destination buffer (the second parameter of read_exact / default_read_exact)?"""
    from . import rules as _R
    return C.op_local(op) == 2 or _R.derives_from_local(f, op, 2, through_calls=True)


def read_exact_contract_rule(ctx, rule, floor):
    """Every success exit of a read_exact implementation is reached only through evidence that the whole buffer was filled."""
    fb = ctx.fb
    n = 0
    for k, f in sorted(fb.fns.items()):
        if not f.blocks or not in_scope(f):
            continue
        if not ((f.trait_item or "").endswith("io::Read::read_exact") or k.endswith("::default_read_exact")):
            continue
        n += 1
        ctx.saw_fn(f)
        edges, blocks = read_exact_evidence(fb, f)
        reach = C.reachable(f, 0, removed=blocks, removed_edges=edges)
        bad = [e for e in C.success_exit_blocks(f) if e in reach]
        if not bad:
            ctx.ok(rule, k, "every way to Ok(()) passes a whole-buffer test or a read_exact delegation (%d evidence edge(s), %d delegation(s))" % (
                len(edges), len(blocks)), f.loc())
        else:
            ctx.violation(rule, "%s/ok-without-full-buffer/%s" % (rule, f.root),
                          "%s can return Ok(()) on a path that passes no test that the whole buffer was filled (no `get(..buf.len())` hit, no "
                          "`is_empty()` / length comparison of the remaining buffer, no read_exact delegation): at the end of a cut file a "
                          "partly filled buffer is reported as a complete read and the caller decodes stale or zero bytes" % f.root, f.loc(bad[0]))
    ctx.floor(rule, "read_exact implementations", n, floor)
