"""Fact base: loads the driver's JSON-lines output and indexes it."""
import json
import os
import pickle
import re
from collections import defaultdict


class Fn:
    __slots__ = ("key", "rec", "crate", "file", "line", "vis", "is_async", "is_const", "is_closure",
                 "coro", "parent", "root", "trait", "impl_self", "trait_item", "locals", "names",
                 "captures", "blocks", "argc", "kind", "cfg", "_succ", "_pred", "_dom", "_defs", "fallback")

    def __init__(self, rec, crate, cfg):
        self.rec = None
        self.key = rec["key"]
        self.crate = crate
        self.cfg = cfg
        self.kind = rec["kind"]
        self.file = rec["file"]
        self.line = rec["line"]
        self.vis = rec["vis"]
        self.is_async = rec["async"]
        self.is_const = rec["const"]
        self.is_closure = rec["closure"]
        self.coro = rec["coro"]
        self.parent = rec["parent"]
        self.root = rec["root"]
        self.trait = rec["trait"]
        self.impl_self = rec["impl_self"]
        self.trait_item = rec["trait_item"]
        self.locals = rec["locals"]
        self.names = rec["names"]
        self.captures = rec.get("captures")
        self.blocks = rec["blocks"]
        self.argc = rec["argc"]
        self.fallback = rec["fallback"]
        self._succ = None
        self._pred = None
        self._dom = None
        self._defs = None

    # ---- CFG -------------------------------------------------------------------------------
    def term(self, b):
        return self.blocks[b]["t"]

    def stmts(self, b):
        return self.blocks[b]["s"]

    def is_cleanup(self, b):
        return self.blocks[b].get("cu", False)

    def succ(self):
        if self._succ is None:
            s = []
            for blk in self.blocks:
                t = blk["t"]
                k = t[0]
                if k == "goto":
                    s.append([t[1]])
                elif k == "sw":
                    out = [x[1] for x in t[2]] + [t[3]]
                    s.append(list(dict.fromkeys(out)))
                elif k == "drop":
                    s.append([t[2]])
                elif k == "call":
                    s.append([t[1]["t"]] if t[1]["t"] is not None else [])
                elif k == "assert":
                    s.append([t[4]])
                elif k == "yield":
                    s.append([t[2]])
                elif k == "fe":
                    s.append([t[1]])
                elif k == "fu":
                    s.append([t[1]])
                else:
                    s.append([])
            self._succ = s
        return self._succ

    def pred(self):
        if self._pred is None:
            p = [[] for _ in self.blocks]
            for i, ss in enumerate(self.succ()):
                for j in ss:
                    p[j].append(i)
            self._pred = p
        return self._pred

    def calls(self):
        """Yields (block index, call dict) for every Call terminator in non-cleanup blocks."""
        for i, blk in enumerate(self.blocks):
            if blk.get("cu"):
                continue
            t = blk["t"]
            if t[0] == "call":
                yield i, t[1]

    def loc(self, b=None):
        if b is None:
            return "%s:%d" % (self.file, self.line)
        return "%s:%d" % (self.file, self.blocks[b]["l"])

    def local_name(self, l):
        for n in self.names:
            if n[0] == l and len(n) == 2:
                return n[1]
        return None


class FactBase:
    def __init__(self):
        self.fns = {}
        self.consts = {}
        self.adts = {}
        self.impls = []
        self.traits = {}
        self.matches = defaultdict(list)
        self.lets = defaultdict(list)
        self.crates = {}
        self.children = defaultdict(list)   # parent fn key -> closure keys
        self.cfgs = []
        self._cg = None
        self._impls_of_trait_item = None

    def load_dir(self, d, cfg):
        self.cfgs.append(cfg)
        for f in sorted(os.listdir(d)):
            if not f.endswith(".jsonl"):
                continue
            crate = f[:-6]
            with open(os.path.join(d, f)) as fh:
                for line in fh:
                    r = json.loads(line)
                    k = r["k"]
                    if k == "fn":
                        if r["key"] in self.fns:
                            continue
                        fn = Fn(r, crate, cfg)
                        self.fns[fn.key] = fn
                        if fn.parent:
                            self.children[fn.parent].append(fn.key)
                    elif k == "const":
                        self.consts.setdefault(r["key"], r)
                    elif k == "adt":
                        self.adts.setdefault(r["key"], r)
                    elif k == "impl":
                        r["crate"] = crate
                        self.impls.append(r)
                    elif k == "trait":
                        self.traits.setdefault(r["key"], r)
                    elif k == "match":
                        self.matches[r["fn"]].append(r)
                    elif k == "let":
                        self.lets[r["fn"]].append(r)
                    elif k == "end":
                        self.crates[crate] = r

    # ---- lookups ---------------------------------------------------------------------------
    def fn(self, key):
        return self.fns.get(key)

    def find_fns(self, pattern):
        rx = re.compile(pattern)
        return [f for k, f in self.fns.items() if rx.search(k)]

    def family(self, key):
        """A function together with all closures/coroutine bodies nested in it."""
        out = []
        stack = [key]
        while stack:
            k = stack.pop()
            f = self.fns.get(k)
            if f is not None:
                out.append(f)
            stack.extend(self.children.get(k, []))
        return out

    def const_val(self, key):
        c = self.consts.get(key)
        if c is None:
            return None
        if "v" in c:
            return c["v"]
        if "raw" in c:
            return bytes.fromhex(c["raw"])
        if "bits" in c:
            return c["bits"]
        return None

    def impls_of_trait_item(self):
        """trait item key -> [impl method keys] (workspace impls only)."""
        if self._impls_of_trait_item is None:
            m = defaultdict(list)
            for im in self.impls:
                for meth in im["methods"]:
                    if meth.get("trait_item"):
                        m[meth["trait_item"]].append(meth["key"])
            self._impls_of_trait_item = m
        return self._impls_of_trait_item

    # ---- call graph ------------------------------------------------------------------------
    def callgraph(self):
        """key -> set of callee keys. Includes: resolved calls, fn items passed as values, closures
        constructed, and (CHA) every workspace impl of an unresolved trait method."""
        if self._cg is not None:
            return self._cg
        cha = self.impls_of_trait_item()
        cg = {}
        for key, f in self.fns.items():
            out = set()
            for blk in f.blocks:
                if blk.get("cu"):
                    continue
                for st in blk["s"]:
                    if st[0] == "=":
                        _collect_rvalue_refs(st[2], out)
                t = blk["t"]
                if t[0] == "call":
                    c = t[1]
                    if "f" in c:
                        out.add(c["f"])
                        if c.get("tr"):
                            for k2 in cha.get(c["f"], ()):
                                out.add(k2)
                            of = c.get("of")
                            if of:
                                for k2 in cha.get(of, ()):
                                    out.add(k2)
                    for a in c["args"]:
                        _collect_operand_refs(a, out)
                    if "fop" in c:
                        _collect_operand_refs(c["fop"], out)
                elif t[0] == "sw":
                    _collect_operand_refs(t[1], out)
                elif t[0] == "yield":
                    _collect_operand_refs(t[1], out)
            # trait-method references passed as fn items: expand with CHA, too
            extra = set()
            for k2 in out:
                if k2 in cha and k2 not in self.fns:
                    extra.update(cha[k2])
            out |= extra
            cg[key] = out
        self._cg = cg
        return cg

    def reach(self, roots, stop=None, max_depth=None):
        """Set of keys reachable from roots (inclusive) in the call graph."""
        cg = self.callgraph()
        seen = set()
        frontier = [(r, 0) for r in roots]
        while frontier:
            k, d = frontier.pop()
            if k in seen:
                continue
            seen.add(k)
            if stop and k in stop and d > 0:
                continue
            if max_depth is not None and d >= max_depth:
                continue
            for c in cg.get(k, ()):
                if c not in seen:
                    frontier.append((c, d + 1))
        return seen

    def reaches(self, targets, universe=None):
        """Set of function keys from which some key matching `targets` (a predicate) is reachable."""
        cg = self.callgraph()
        rev = defaultdict(set)
        hit = set()
        for k, outs in cg.items():
            for c in outs:
                rev[c].add(k)
                if targets(c):
                    hit.add(c)
        for k in cg:
            if targets(k):
                hit.add(k)
        seen = set(hit)
        stack = list(hit)
        while stack:
            k = stack.pop()
            for p in rev.get(k, ()):
                if p not in seen:
                    seen.add(p)
                    stack.append(p)
        return seen


def _collect_operand_refs(op, out):
    if op[0] == "k":
        c = op[1]
        if "fn" in c:
            out.add(c["fn"])
        if "closure" in c:
            out.add(c["closure"])


def _collect_rvalue_refs(rv, out):
    k = rv[0]
    if k == "use":
        _collect_operand_refs(rv[1], out)
    elif k == "cast":
        _collect_operand_refs(rv[2], out)
    elif k == "agg":
        if rv[1] in ("closure", "coroutine", "coroutine_closure"):
            out.add(rv[2])
        for o in rv[4]:
            _collect_operand_refs(o, out)
    elif k == "bin":
        _collect_operand_refs(rv[2], out)
        _collect_operand_refs(rv[3], out)
    elif k == "un":
        _collect_operand_refs(rv[2], out)
    elif k == "repeat":
        _collect_operand_refs(rv[1], out)


def load(dirs_by_cfg):
    """dirs_by_cfg: ordered dict cfg -> directory. The first cfg wins for duplicate keys."""
    # parsed cache next to the first fact dir
    tag = "+".join("%s" % os.path.basename(d) for d in dirs_by_cfg.values())
    first = list(dirs_by_cfg.values())[0]
    pk = os.path.join(first, "parsed-%s.pickle" % hash_tag(tag))
    if os.path.exists(pk):
        try:
            with open(pk, "rb") as fh:
                return pickle.load(fh)
        except Exception:
            pass
    fb = FactBase()
    for cfg, d in dirs_by_cfg.items():
        fb.load_dir(d, cfg)
    try:
        tmp = pk + ".%d.tmp" % os.getpid()
        with open(tmp, "wb") as fh:
            pickle.dump(fb, fh, protocol=pickle.HIGHEST_PROTOCOL)
        os.replace(tmp, pk)
    except Exception:
        pass
    return fb


def hash_tag(s):
    import hashlib
    return hashlib.sha1(s.encode()).hexdigest()[:12]
