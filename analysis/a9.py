"""A9 — sync/async twin comparison by semantic token sets (DESIGN.md §4 A9)."""
import re
from collections import Counter

from . import cfg as C
from . import rules as R

IO_RX = re.compile(r"^(read|write|get|put)_(u|i|f)(8|16|32|64|128)(_le|_be)?$|^(read_exact|write_all|read_until|read_line|"
                   r"read_to_end|read_to_string|fill_buf|consume|flush|shutdown|seek|read|write|read_buf|poll_read|poll_write|"
                   r"poll_fill_buf|poll_flush|poll_shutdown|poll_seek|start_seek|poll_complete)$")
MACHINERY_RX = re.compile(
    r"(into_future::IntoFuture>::into_future|future::future::Future>::poll|future::future::Future::poll|Pin::<Ptr>::|"
    r"core::future::get_context|try_trait::Try>::branch|try_trait::FromResidual|core::task::poll::Poll|"
    r"core::ops::deref::Deref|core::ops::deref::DerefMut|core::convert::Into<U>>::into$|core::convert::From<T>>::from$|"
    r"core::clone::Clone|core::default::Default|alloc::boxed::Box|core::mem::|core::ptr::|core::hint::|"
    r"core::fmt::|alloc::fmt::|alloc::string::ToString|core::option::Option::<T>::(map|as_mut|as_ref|take|unwrap|expect|ok_or|ok_or_else|is_some|is_none|and_then|transpose|map_or|unwrap_or|unwrap_or_default|as_deref|as_deref_mut|replace|insert|get_or_insert_with|as_pin_mut)$|"
    r"core::result::Result::<T, E>::(map|map_err|and_then|ok|is_ok|is_err|unwrap|expect|as_ref|as_mut|unwrap_or|or_else|transpose)$|"
    r"futures_core::|futures_util::|tokio::io::util::.*::(new|poll)$|core::iter::|core::slice::iter|core::ops::function::|"
    r"tokio::io::read_buf::ReadBuf|core::cmp::|alloc::vec::Vec::<T>::new$|alloc::vec::Vec::<T, A>::(clear|len|is_empty|with_capacity|as_mut_slice|as_slice|reserve)$|"
    r"pin_project_lite::|::project$|::project_ref$|core::marker::|core::any::|alloc::borrow::|core::borrow::|core::convert::AsRef|core::convert::AsMut|"
    r"std::io::error::Error::(new|from|other)$|core::panicking::)")


def twin_key(key):
    """The sync counterpart of an async key (path segment r#async removed); None if not an async key."""
    if "r#async::" not in key:
        return None
    return key.replace("r#async::", "")


def norm_callee(k):
    return k.replace("r#async::", "")


def private_modules(fb):
    """Normalized module paths (key minus last segment) of all async-side functions: the twin-private region."""
    mods = set()
    for k, f in fb.fns.items():
        if "r#async::" in k and not f.is_closure:
            mods.add(_module(norm_callee(k)))
    return mods


def _module(key):
    """File-level module of a function: owner path with trailing type segments (capitalised) dropped."""
    o = owner_of(key)
    if o.startswith("<"):
        return o
    parts = o.split("::")
    while len(parts) > 1 and (parts[-1][:1].isupper() or "<" in parts[-1]):
        parts.pop()
    return "::".join(parts)


_SHARED = {}


def shared_sync(fb):
    """Sync-side functions that async-side code calls directly: shared code, a region boundary on BOTH sides."""
    key = id(fb)
    if key not in _SHARED:
        out = set()
        for k, outs in fb.callgraph().items():
            if "r#async::" in k:
                for c in outs:
                    if "r#async::" not in c and c in fb.fns and c.startswith(("noodles_", "<noodles_")):
                        out.add(re.sub(r"::\{closure#\d+\}", "", c))
        _SHARED.clear()
        _SHARED[key] = out
    return _SHARED[key]


def owner_of(key):
    """Type-level owner of a method: the Self type's path without generic arguments (module path for free fns)."""
    key = norm_callee(re.sub(r"::\{closure#\d+\}", "", key))
    if key.startswith("<"):
        depth = 0
        for i, ch in enumerate(key):
            if ch == "<":
                depth += 1
            elif ch == ">":
                depth -= 1
            elif depth == 1 and key.startswith(" as ", i):
                return _strip_generics(key[1:i])
        return key
    return _strip_generics(key.rsplit("::", 1)[0])


def _strip_generics(path):
    out = []
    depth = 0
    i = 0
    while i < len(path):
        ch = path[i]
        if ch == "<":
            if depth == 0 and out[-2:] == [":", ":"]:
                out = out[:-2]
            depth += 1
        elif ch == ">":
            depth -= 1
        elif depth == 0:
            out.append(ch)
        i += 1
    return "".join(out).lstrip("&").replace("mut ", "")


def region(fb, entry, mods, limit=400):
    """Functions reachable from entry through calls that stay inside the twin-private modules (same side)."""
    is_async = "r#async::" in entry
    shared = shared_sync(fb)
    crate = fb.fns[entry].crate if entry in fb.fns else None
    seen = []
    seenset = set()
    stack = [entry]
    cg = fb.callgraph()
    while stack and len(seen) < limit:
        k = stack.pop()
        if k in seenset:
            continue
        f = fb.fns.get(k)
        if f is None:
            continue
        seenset.add(k)
        seen.append(k)
        for ch in fb.children.get(k, ()):
            stack.append(ch)
        for c in cg.get(k, ()):
            if c in seenset or c not in fb.fns:
                continue
            if is_async != ("r#async::" in c):
                continue
            if c in shared:
                continue
            # twin-private = the entry's own crate: CHA edges into other crates (every impl of io::Read ...) are
            # shared code and become tokens, they are not traversed
            if fb.fns[c].crate != crate:
                continue
            if _module(norm_callee(c)) in mods:
                stack.append(c)
    return seen


def region_tokens(fb, entry, mods):
    reg = region(fb, entry, mods)
    regset = {norm_callee(re.sub(r"::\{closure#\d+\}", "", k)) for k in reg}
    toks = Counter()
    for k in reg:
        f = fb.fns[k]
        if f.is_closure:
            continue      # closures are visited through family() of their root
        t = tokens(fb, k)
        for tok, n in t.items():
            if tok[0] == "call" and tok[1] in regset:
                continue
            toks[tok] += n
    return toks, reg


def tokens(fb, fn_key):
    """Semantic token multiset of a function and the closures/coroutine bodies nested in it."""
    toks = Counter()
    for f in fb.family(fn_key):
        if f.kind in ("AnonConst", "InlineConst"):
            continue      # type-level computations; their MIR may come from the CTFE fallback
        for bi, blk in enumerate(f.blocks):
            if blk.get("cu"):
                continue
            for st in blk["s"]:
                if st[0] != "=":
                    continue
                rv = st[2]
                # state-machine updates: a constant stored into a named field (through self or a pin projection)
                flds = [p for p in st[1][1] if isinstance(p, list) and p[0] == "f"]
                if flds and st[1][0] != 0 and not flds[-1][2].isdigit() and rv[0] == "use":
                    cv = C.eval_const(f, rv[1])
                    if cv is not None and not flds[-1][3].startswith(("core::", "std::", "alloc::", "(tuple)")):
                        toks[("store", flds[-1][2], cv)] += 1
                if rv[0] == "agg" and rv[1] == "adt":
                    name, variant = rv[2], rv[3]
                    if name.endswith("io::error::ErrorKind"):
                        toks[("errkind", variant)] += 1
                    elif name.startswith("noodles_") and variant and ("Error" in name or "error" in name):
                        # typed workspace errors are converted to io::Error(InvalidData) by their From impls
                        toks[("errkind", "InvalidData")] += 1
                elif rv[0] == "cast" and rv[1] == "IntToInt":
                    if C.eval_const(f, rv[2]) is None:
                        toks[("cast", "%s->%s" % (rv[3], rv[4]))] += 1
                elif rv[0] == "bin" and rv[1] in ("Eq", "Ne", "Lt", "Le", "Gt", "Ge", "BitAnd", "Shl", "Shr", "Rem", "Div"):
                    for o in (rv[2], rv[3]):
                        k = C.op_const(o)
                        if k is not None and isinstance(k.get("v"), int) and k.get("v") not in (0, 1):
                            toks[("const", rv[1], k["v"])] += 1
                for o in R.rvalue_operands(rv):
                    k = C.op_const(o)
                    if k is not None and k.get("def") and k["def"].startswith("noodles_"):
                        v = k.get("v", k.get("raw"))
                        toks[("named-const", str(v))] += 1
            t = blk["t"]
            if t[0] == "call":
                c = t[1]
                k = c.get("f")
                if k is None:
                    continue
                last = k.split("::")[-1]
                for a in c["args"]:
                    kk = C.op_const(a)
                    if kk is not None and kk.get("def") and kk["def"].startswith("noodles_"):
                        toks[("named-const", str(kk.get("v", kk.get("raw"))))] += 1
                if MACHINERY_RX.search(k):
                    continue
                if IO_RX.match(last) and not k.startswith(("noodles_", "<noodles_")) or \
                        (IO_RX.match(last) and re.search(r"::(num|io)::", k)):
                    toks[("io", last)] += 1
                elif k.startswith(("noodles_", "<noodles_")):
                    # coroutine bodies called directly by the await desugaring are the async fn itself
                    nk = norm_callee(re.sub(r"::\{closure#\d+\}$", "", k))
                    toks[("call", nk)] += 1
                elif "TryFrom<" in k and last == "try_from":
                    toks[("try_from", (c.get("ga") or "").replace("r#async::", ""))] += 1
                elif last in ("from_le_bytes", "to_le_bytes", "from_be_bytes", "to_be_bytes", "from_utf8", "from_utf8_lossy"):
                    toks[("conv", k.split("::")[-2] + "::" + last if "::" in k else last)] += 1
            elif t[0] == "sw":
                for v, _tg in t[2]:
                    if v not in (0, 1) and t[4] not in ("isize", "bool"):
                        toks[("switch", v)] += 1
    return toks


def pairs(fb):
    """(async key, sync key) for every async-side function (not closure) that has a same-path sync function."""
    out = []
    unpaired = []
    for k, f in fb.fns.items():
        if f.is_closure or "r#async::" not in k or f.kind not in ("Fn", "AssocFn"):
            continue
        s = twin_key(k)
        if s in fb.fns:
            out.append((k, s))
        else:
            unpaired.append(k)
    # hand-written poll_* trait methods pair with the blocking method of the same-path sync type
    sync_methods = {}
    for k, f in fb.fns.items():
        if "r#async::" in k or f.is_closure or not f.trait_item or not k.startswith("<noodles_"):
            continue
        sync_methods[(owner_of(k), k.split("::")[-1])] = k
    still = []
    for k in unpaired:
        last = k.split("::")[-1]
        if k.startswith("<noodles_") and last.startswith("poll_"):
            cand = sync_methods.get((owner_of(k), last[5:]))
            if cand:
                out.append((k, cand))
                continue
        still.append(k)
    return out, still


def diff(fb, akey, skey):
    ta, ts = tokens(fb, akey), tokens(fb, skey)
    only_a = sorted(set(ta) - set(ts), key=str)
    only_s = sorted(set(ts) - set(ta), key=str)
    return only_a, only_s, ta, ts


COUNTED = ("io", "try_from", "conv", "store")


def _counted(toks):
    """Token set in which the transfer/conversion tokens carry their multiplicity (a u64 read replaced by a u32 read
    changes counts even when both widths occur elsewhere in the region)."""
    out = set()
    for t, n in toks.items():
        if t[0] in COUNTED:
            out.add(t + ("x%d" % n,))
        else:
            out.add(t)
    return out


def region_diff(fb, akey, skey, mods):
    ta, ra = region_tokens(fb, akey, mods)
    ts, rs = region_tokens(fb, skey, mods)
    sa, ss = _counted(ta), _counted(ts)
    only_a = sorted(sa - ss, key=str)
    only_s = sorted(ss - sa, key=str)
    return only_a, only_s, ra, rs


def type_groups(fb):
    """Functions grouped by their normalized owner path (key minus last segment): async side vs sync side."""
    ga, gs = {}, {}
    for k, f in fb.fns.items():
        if f.is_closure or f.kind not in ("Fn", "AssocFn") or not k.startswith(("noodles_", "<noodles_")):
            continue
        if f.crate in ("noodles_htsget", "noodles_refget"):
            continue
        owner = owner_of(k)
        (ga if "r#async::" in k else gs).setdefault(owner, []).append(k)
    return ga, gs


def group_diff(fb, akeys, skeys, mods):
    ta, ts = Counter(), Counter()
    ra, rs = [], []
    for k in akeys:
        t, r = region_tokens(fb, k, mods)
        ta.update(t)
        ra += r
    for k in skeys:
        t, r = region_tokens(fb, k, mods)
        ts.update(t)
        rs += r
    sa, ss = _counted(ta), _counted(ts)
    only_a = sorted(sa - ss, key=str)
    only_s = sorted(ss - sa, key=str)
    return only_a, only_s, ra, rs


# ------------------------------------------------------------------------------------------------
# cross-crate siblings: the text-header sub-reader state machine exists in ten copies
# ------------------------------------------------------------------------------------------------

HEADER_READER_RX = re.compile(
    r"^<noodles_\w+::(r#async::)?io::reader::header::(container::)?((sam|vcf)_header::)?Reader<R> as "
    r"(std::io::Read|std::io::BufRead|tokio::io::async_read::AsyncRead|tokio::io::async_buf_read::AsyncBufRead)>::"
    r"(read|fill_buf|consume|poll_read|poll_fill_buf)$")


def header_reader_agreement(ctx, rule, scope_rx, floor):
    """Every copy of the `Reader { inner, is_eol }` header sub-reader (SAM text in sam/bam/cram, VCF text in vcf/bcf, sync and
    async) performs the same state updates per trait method: the multiset of constant stores into named fields must equal the
    majority's. Reports only copies whose key matches scope_rx."""
    fb = ctx.fb
    fam = {}
    for k in fb.fns:
        m = HEADER_READER_RX.match(k)
        if m and not fb.fns[k].is_closure:
            meth = m.group(6).replace("poll_", "")
            fam.setdefault(meth, []).append(k)
    n = 0
    rx = re.compile(scope_rx)
    for meth, keys in sorted(fam.items()):
        sigs = {k: frozenset((t, c) for t, c in tokens(fb, k).items() if t[0] == "store") for k in keys}
        ref, _cnt = Counter(sigs.values()).most_common(1)[0]
        for k in sorted(keys):
            if not rx.search(k):
                continue
            n += 1
            ctx.saw_fn(fb.fns[k])
            if sigs[k] == ref:
                ctx.ok(rule, k + " :: state updates as in the other %d copies" % (len(keys) - 1), str(sorted(ref)), fb.fns[k].loc())
            else:
                ctx.violation(rule, "%s/sibling-state-updates/%s" % (rule, k),
                              "%s stores %s while the other copies of this header sub-reader store %s in %s(): one copy of the state "
                              "machine was edited alone" % (k, sorted(sigs[k]), sorted(ref), meth), fb.fns[k].loc())
    ctx.floor(rule, "header sub-reader methods in scope", n, floor)
