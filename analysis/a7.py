"""A7/A8 helpers: escape sets, delimiter constants, encode/decode pairing, match tables."""
import re


def ascii_set(fb, key):
    """Decode a `&'static percent_encoding::AsciiSet` constant into the set of byte values it contains."""
    c = fb.consts.get(key)
    if c is None or "raw" not in c:
        return None
    raw = bytes.fromhex(c["raw"])
    out = set()
    for b in range(128):
        chunk = int.from_bytes(raw[(b // 32) * 4:(b // 32) * 4 + 4], "little")
        if (chunk >> (b % 32)) & 1:
            out.add(b)
    return out


def delimiter_consts(fb, prefixes, name_rx=r"(DELIMITER|SEPARATOR)$"):
    """u8/char constants named DELIMITER/SEPARATOR defined under any of the module prefixes."""
    rx = re.compile(name_rx)
    out = {}
    for k, c in fb.consts.items():
        if c["ty"] not in ("u8", "char") or "v" not in c:
            continue
        if any(k.startswith(p) for p in prefixes) and rx.search(k):
            out[k] = c["v"]
    return out


def callers_of(fb, key):
    """Root functions (closures folded into their parent) that call `key` directly."""
    out = set()
    for k, outs in fb.callgraph().items():
        if key in outs:
            f = fb.fns.get(k)
            out.add(f.root if f is not None else k)
    return out


def show(bs):
    return "{" + " ".join(("%r" % chr(b))[1:-1] if 32 < b < 127 else "0x%02x" % b for b in sorted(bs)) + "}"


def pat_values(p):
    """Integer values named by a flattened or-pattern string of the match facts ('59 | 61', 'X={"v":92} | ...')."""
    out = set()
    for alt in p.split(" | "):
        alt = alt.strip()
        m = re.search(r'=\{"v":(-?\d+)', alt)
        if m:
            out.add(int(m.group(1)))
        elif re.fullmatch(r"-?\d+", alt):
            out.add(int(alt))
    return out


def match_true_set(fb, fn_key, scrut_ty=None):
    """Union of the pattern values of all `matches!`/match arms evaluating to true in fn_key (and its closures)."""
    out = set()
    n = 0
    for f in fb.family(fn_key):
        for m in fb.matches.get(f.key, []):
            if scrut_ty and m["sty"] != scrut_ty:
                continue
            for arm in m["arms"]:
                if arm["v"] == "true":
                    out |= pat_values(arm["p"])
                    n += 1
    return out, n
