"""A7/A8 helpers: escape sets, delimiter constants, encode/decode pairing, match tables."""
import re

from . import cfg as C


def ascii_set(fb, key):
    """Decode a `&'static percent_encoding::AsciiSet` constant into the set of byte values it contains."""
    c = fb.consts.get(key)
    if c is None or "raw" not in c:
        return None
    raw = bytes.fromhex(c["raw"])
    out = set()
    for b in range(128):
        chunk = int.from_bytes(raw[(b // 32) * 4:(b // 32) * 4 + 4], "little")
        if (chunk >> (b % 32)) & 1:
            out.add(b)
    return out


def delimiter_consts(fb, prefixes, name_rx=r"(DELIMITER|SEPARATOR)$"):
    """u8/char constants named DELIMITER/SEPARATOR defined under any of the module prefixes."""
    rx = re.compile(name_rx)
    out = {}
    for k, c in fb.consts.items():
        if c["ty"] not in ("u8", "char") or "v" not in c:
            continue
        if any(k.startswith(p) for p in prefixes) and rx.search(k):
            out[k] = c["v"]
    return out


def callers_of(fb, key):
    """Root functions (closures folded into their parent) that call `key` directly."""
    out = set()
    for k, outs in fb.callgraph().items():
        if key in outs:
            f = fb.fns.get(k)
            out.add(f.root if f is not None else k)
    return out


def show(bs):
    return "{" + " ".join(("%r" % chr(b))[1:-1] if 32 < b < 127 else "0x%02x" % b for b in sorted(bs)) + "}"


def pat_values(p):
    """Integer values named by a flattened or-pattern string of the match facts ('59 | 61', 'X={"v":92} | ...')."""
    out = set()
    for alt in p.split(" | "):
        alt = alt.strip()
        m = re.search(r'=\{"v":(-?\d+)', alt)
        if m:
            out.add(int(m.group(1)))
        elif re.fullmatch(r"-?\d+", alt):
            out.add(int(alt))
    return out


def match_true_set(fb, fn_key, scrut_ty=None):
    """Union of the pattern values of all `matches!`/match arms evaluating to true in fn_key (and its closures)."""
    out = set()
    n = 0
    for f in fb.family(fn_key):
        for m in fb.matches.get(f.key, []):
            if scrut_ty and m["sty"] != scrut_ty:
                continue
            for arm in m["arms"]:
                if arm["v"] == "true":
                    out |= pat_values(arm["p"])
                    n += 1
    return out, n


_VARIANT_RX = re.compile(r"((?:noodles_\w+)(?:::[A-Za-z_0-9#]+)+)")


def _int_lit(s):
    s = s.strip()
    m = re.fullmatch(r"-?\d+", s)
    if m:
        return int(s)
    m = re.fullmatch(r'[A-Za-z_0-9:#]+=\{"v":(-?\d+)\}', s)
    if m:
        return int(m.group(1))
    # (code, payload) tuples: the code is the first component
    m = re.fullmatch(r"\((-?\d+),.*\)", s)
    if m:
        return int(m.group(1))
    return None


def _variant_of(fb, s):
    """If the string is (a wrapper around) an enum variant path, return (enum key, variant name)."""
    s = s.strip()
    for _ in range(3):
        m = re.fullmatch(r"(?:core::result::Result::Ok|core::option::Option::Some)\((.*)\)", s)
        if not m:
            break
        s = m.group(1).strip()
    m = re.fullmatch(r"([A-Za-z_0-9:#]+)(?:\(.*\)|\{.*\})?", s)
    if not m:
        return None
    path = m.group(1)
    if "::" not in path:
        return None
    enum, var = path.rsplit("::", 1)
    adt = fb.adts.get(enum)
    if adt is None or adt["kind"] != "Enum":
        return None
    if var not in [v["name"] for v in adt["variants"]]:
        return None
    return enum, var


def int_tables(fb):
    """Scans all match facts for enum->int encoders and int->enum decoders.
    Returns (encoders, decoders): lists of dict(fn, enum, map, wildcard, file, line)."""
    encs, decs = [], []
    for fn, ms in fb.matches.items():
        f = fb.fns.get(fn)
        if f is None or f.crate in ("noodles_htsget", "noodles_refget"):
            continue
        if f.trait and any(t in f.trait for t in ("fmt::Debug", "fmt::Display", "clone::Clone", "cmp::PartialEq", "hash::Hash", "cmp::Ord", "cmp::PartialOrd", "error::Error")):
            continue
        for m in ms:
            arms = m["arms"]
            if len(arms) < 3:
                continue
            # encoder: patterns are variants of one enum, values are int literals
            enc = {}
            enum = None
            ok = True
            for a in arms:
                if a["g"]:
                    ok = False
                    break
                val = _int_lit(a["v"])
                alts = a["p"].split(" | ")
                vs = [_variant_of(fb, x) for x in alts]
                if val is not None and all(v is None for v in vs) and a["p"] in ("core::option::Option::None", "_"):
                    continue      # e.g. `None => (0, 0)` next to `Some(Type::X(len)) => (code, len)`
                if val is None or any(v is None for v in vs):
                    ok = False
                    break
                for e, v in vs:
                    if enum is None:
                        enum = e
                    if e != enum:
                        ok = False
                    enc[v] = val
            if ok and enum and len(enc) >= 3:
                encs.append({"fn": fn, "enum": enum, "map": enc, "file": m["file"], "line": m["line"]})
                continue
            # decoder: patterns are int literals, values are (wrapped) variants of one enum
            dec = {}
            enum = None
            wildcard = None
            nvar = 0
            for a in arms:
                vv = _variant_of(fb, a["v"])
                ints = [_int_lit(x) for x in a["p"].split(" | ")]
                if all(i is not None for i in ints) and vv is not None and not a["g"]:
                    if enum is None:
                        enum = vv[0]
                    if vv[0] == enum:
                        for i in ints:
                            dec[i] = vv[1]
                        nvar += 1
                elif a["p"] == "_" or a["p"].startswith("$"):
                    wildcard = a["v"]
            if enum and nvar >= 3 and m["sty"].lstrip("&") in ("u8", "i8", "u16", "i16", "u32", "i32", "u64", "i64", "usize", "char"):
                decs.append({"fn": fn, "enum": enum, "map": dec, "wildcard": wildcard, "file": m["file"], "line": m["line"]})
    return encs, decs


def table_agreement(ctx, rule, crates, min_pairs, exceptions=None):
    """dec∘enc = id for every enum that has an int encoder in one of `crates`: the best-overlapping decoder of the same
    enum anywhere in the workspace must map every encoded code back to its variant; encoder codes are pairwise
    distinct; the encoder covers every variant of the enum."""
    fb = ctx.fb
    exceptions = exceptions or {}
    encs, decs = int_tables(fb)
    npairs = 0
    for e in encs:
        f = fb.fns[e["fn"]]
        if f.crate not in crates:
            continue
        ctx.saw_fn(f)
        loc = "%s:%d" % (e["file"], e["line"])
        name = "%s [%s]" % (e["enum"].split("::")[-1], e["fn"])
        codes = list(e["map"].values())
        many_to_one = exceptions.get(e["fn"]) == "many-to-one"
        if many_to_one:
            # a text coding that does not carry the storage width: dec(enc(v)) must be a variant with the same code
            cands = [d for d in decs if d["enum"] == e["enum"] and len(set(d["map"]) & set(codes)) >= max(2, len(set(codes)) - 1)]
            for d in cands:
                npairs += 1
                bad = [(v, c, d["map"].get(c)) for v, c in e["map"].items() if d["map"].get(c) is None or e["map"].get(d["map"].get(c)) != c]
                if bad:
                    v, c, got = bad[0]
                    ctx.violation(rule, "%s/enc-dec-mismatch/%s/%s" % (rule, e["fn"], d["fn"]),
                                  "%s::%s is encoded as %s by %s but %s decodes %s as %s (a variant of another code class)" % (
                                      e["enum"].split("::")[-1], v, c, e["fn"], d["fn"], c, got), loc)
                else:
                    ctx.ok(rule, "%s <-> %s" % (name, d["fn"]), "many-to-one text coding: dec∘enc stays in the code class on all %d variants" % len(e["map"]), loc)
            continue
        if len(set(codes)) != len(codes):
            dup = sorted({c for c in codes if codes.count(c) > 1})
            ctx.violation(rule, "%s/duplicate-code/%s" % (rule, e["fn"]), "encoder %s maps two variants to the same code %s" % (e["fn"], dup), loc)
            continue
        adt = fb.adts.get(e["enum"])
        allv = [v["name"] for v in adt["variants"]] if adt else []
        miss = [v for v in allv if v not in e["map"]]
        if miss and e["fn"] not in exceptions:
            ctx.violation(rule, "%s/variant-not-encoded/%s" % (rule, e["fn"]), "encoder %s has no code for variant(s) %s" % (e["fn"], miss), loc)
            continue
        # same enum, or a sibling enum of the same name and variant names (lazy views often mirror the codec's enum)
        cands = [d for d in decs if d["enum"] == e["enum"] or
                 (d["enum"].split("::")[-1] == e["enum"].split("::")[-1] and set(d["map"].values()) <= set(e["map"]))]
        if not cands:
            ctx.ok(rule, name, "encoder only (no int decoder of this enum in the workspace)", loc)
            continue
        # every decoder of the same coding family: knows all but at most one of the encoder's codes (the SAM text coding
        # and the BAM binary coding of one enum share few or none)
        same = [d for d in cands if len(set(d["map"]) & set(codes)) >= max(2, len(codes) - 1)]
        if not same:
            ctx.ok(rule, name, "encoder only (no decoder of the same coding family)", loc)
            continue
        for d in same:
            npairs += 1
            ctx.saw_fn(fb.fns[d["fn"]])
            bad = [(v, c, d["map"].get(c)) for v, c in e["map"].items() if d["map"].get(c) != v]
            if bad:
                v, c, got = bad[0]
                ctx.violation(rule, "%s/enc-dec-mismatch/%s/%s" % (rule, e["fn"], d["fn"]),
                              "%s::%s is encoded as %s by %s but %s decodes %s as %s" % (
                                  e["enum"].split("::")[-1], v, c, e["fn"], d["fn"], c, got), loc)
            else:
                w = d.get("wildcard") or ""
                if w and not ("Err" in w or "None" in w or "…" in w or "return" in w or "$" in w):
                    ctx.violation(rule, "%s/decoder-wildcard/%s" % (rule, d["fn"]), "decoder %s maps unknown codes to a value (%s) instead of an error" % (d["fn"], w[:60]))
                else:
                    ctx.ok(rule, "%s <-> %s" % (name, d["fn"]), "dec∘enc = id on all %d variants (exhaustive)" % len(e["map"]), loc)
    ctx.floor(rule, "encoder/decoder table pairs", npairs, min_pairs)
    return npairs


# ------------------------------------------------------------------------------------------------
# sibling guard agreement: copy-pasted per-type implementations of one interface decide a case under the same guards
# ------------------------------------------------------------------------------------------------

def _cond_desc(f, sb):
    cond = C.switch_condition(f, sb)
    if not cond:
        return ("?",)
    if cond[0] == "cmp":
        k = None
        for o in (cond[2], cond[3]):
            v = C.eval_const(f, o)
            if v is not None:
                k = v
        return ("cmp", cond[1], k)
    if cond[0] == "call":
        name = (cond[1].get("f") or "?")
        name = re.sub(r"<[^<>]*>", "", name)
        return ("call", "::".join(name.split("::")[-2:]))
    if cond[0] == "discr":
        return ("discr",)
    if cond[0] == "not":
        return ("not",)
    return (cond[0],)


def guard_signature(f, block):
    """Set of (condition description, edge taken) for every switch edge that dominates `block` (edge dominance)."""
    sig = set()
    for sb, blk in enumerate(f.blocks):
        if blk.get("cu") or blk["t"][0] != "sw" or sb == block:
            continue
        t = blk["t"]
        targets = [(v, tg) for v, tg in t[2]] + [("otherwise", t[3])]
        if len({tg for _v, tg in targets}) < 2:
            continue
        for v, tg in targets:
            others = {(sb, tg2) for _v2, tg2 in targets if tg2 != tg}
            # the block is reachable only through this edge of the switch
            if block in C.reachable(f, 0) and block not in C.reachable(f, 0, removed_edges={(sb, tg)}) \
                    and block in C.reachable(f, 0, removed_edges=others):
                sig.add((_cond_desc(f, sb), v if not isinstance(v, str) else "else"))
    return sig


def sibling_guard_agreement(ctx, rule, keys, site_pred, what, min_sites=1):
    """All sibling functions reach their `site_pred` sites under the same guard signature (closures of a sibling are searched
    too). Majority = reference; a deviating sibling is the violation."""
    fb = ctx.fb
    sigs = {}
    for k in keys:
        fam = fb.family(k)
        s = []
        for g in fam:
            for bi, blk in enumerate(g.blocks):
                if blk.get("cu") or not site_pred(g, bi, blk):
                    continue
                s.append(frozenset(guard_signature(g, bi)))
        if len(s) < min_sites:
            ctx.violation(rule, "%s/ANCHOR-MISSING/%s/site" % (rule, k), "%s: no site of kind '%s' found" % (k, what), fb.fns[k].loc())
            continue
        ctx.saw_fn(fb.fns[k])
        sigs[k] = frozenset(s)
    if len(sigs) < 2:
        return
    from collections import Counter
    ref, _n = Counter(sigs.values()).most_common(1)[0]
    for k, s in sorted(sigs.items()):
        if s == ref:
            ctx.ok(rule, "%s :: %s under the family's guards" % (k, what), "%d site(s)" % len(s), fb.fns[k].loc())
        else:
            def fmt(x):
                return sorted(sorted(map(str, y)) for y in x)
            ctx.violation(rule, "%s/sibling-guards/%s" % (rule, k),
                          "%s decides '%s' under guards %s while its sibling implementations use %s: copies of one decoder disagree on the case" % (
                              k, what, fmt(s), fmt(ref)), fb.fns[k].loc())
