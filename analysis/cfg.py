"""CFG utilities over the MIR facts (unwind/cleanup edges are not part of the graph)."""
from collections import defaultdict


def reachable(fn, start=0, removed=frozenset(), removed_edges=frozenset()):
    succ = fn.succ()
    seen = set()
    if start in removed:
        return seen
    stack = [start]
    while stack:
        b = stack.pop()
        if b in seen:
            continue
        seen.add(b)
        for s in succ[b]:
            if s in removed or (b, s) in removed_edges:
                continue
            if s not in seen:
                stack.append(s)
    return seen


def dominators(fn):
    """Returns dict block -> set of dominators (simple iterative algorithm; bodies are small)."""
    if fn._dom is not None:
        return fn._dom
    succ = fn.succ()
    pred = fn.pred()
    nodes = sorted(reachable(fn, 0))
    # reverse post-order
    order = []
    seen = set()

    def dfs(n):
        stack = [(n, iter(succ[n]))]
        seen.add(n)
        while stack:
            node, it = stack[-1]
            adv = False
            for s in it:
                if s not in seen:
                    seen.add(s)
                    stack.append((s, iter(succ[s])))
                    adv = True
                    break
            if not adv:
                order.append(node)
                stack.pop()
    dfs(0)
    rpo = list(reversed(order))
    idx = {n: i for i, n in enumerate(rpo)}
    idom = {0: 0}
    changed = True
    while changed:
        changed = False
        for n in rpo[1:]:
            ps = [p for p in pred[n] if p in idom]
            if not ps:
                continue
            new = ps[0]
            for p in ps[1:]:
                a, b = p, new
                while a != b:
                    while idx[a] > idx[b]:
                        a = idom[a]
                    while idx[b] > idx[a]:
                        b = idom[b]
                new = a
            if idom.get(n) != new:
                idom[n] = new
                changed = True
    fn._dom = idom
    return idom


def dominates(fn, a, b):
    idom = dominators(fn)
    if b not in idom:
        return False
    n = b
    while True:
        if n == a:
            return True
        if n == 0:
            return False
        n = idom[n]


def dom_chain(fn, b):
    idom = dominators(fn)
    out = []
    if b not in idom:
        return out
    n = b
    while True:
        out.append(n)
        if n == 0:
            break
        n = idom[n]
    return out


def natural_loops(fn):
    """Returns list of (header, body set) for back edges t->h where h dominates t."""
    succ = fn.succ()
    pred = fn.pred()
    loops = []
    reach = reachable(fn, 0)
    for t in reach:
        for h in succ[t]:
            if dominates(fn, h, t):
                body = {h, t}
                stack = [t]
                while stack:
                    n = stack.pop()
                    if n == h:
                        continue
                    for p in pred[n]:
                        if p not in body and p in reach:
                            body.add(p)
                            stack.append(p)
                loops.append((h, body))
    return loops


# ---- places / operands ---------------------------------------------------------------------

def op_local(op):
    """Local index if the operand is a bare local copy/move, else None."""
    if op[0] in ("c", "m") and not op[1][1]:
        return op[1][0]
    return None


def op_place(op):
    if op[0] in ("c", "m"):
        return op[1]
    return None


def op_const(op):
    if op[0] == "k":
        return op[1]
    return None


def place_fields(place):
    """List of (field name, owner) projections of a place."""
    return [(p[2], p[3]) for p in place[1] if isinstance(p, list) and p[0] == "f"]


def defs(fn):
    """local -> list of ('=', block, idx, rvalue) | ('call', block, calldict) | ('yield', block)."""
    if fn._defs is not None:
        return fn._defs
    d = defaultdict(list)
    for bi, blk in enumerate(fn.blocks):
        if blk.get("cu"):
            continue
        for si, st in enumerate(blk["s"]):
            if st[0] == "=" and not st[1][1]:
                d[st[1][0]].append(("=", bi, si, st[2]))
            elif st[0] == "=":
                d[st[1][0]].append(("partial", bi, si, st[2], st[1]))
        t = blk["t"]
        if t[0] == "call":
            dest = t[1]["dest"]
            if not dest[1]:
                d[dest[0]].append(("call", bi, t[1]))
            else:
                d[dest[0]].append(("partial-call", bi, t[1]))
        elif t[0] == "yield":
            rp = t[3]
            d[rp[0]].append(("yield", bi))
    fn._defs = d
    return d


def single_def(fn, local):
    ds = [x for x in defs(fn).get(local, []) if x[0] in ("=", "call", "yield")]
    if len(ds) == 1 and not [x for x in defs(fn).get(local, []) if x[0].startswith("partial")]:
        return ds[0]
    return None


def trace_back(fn, op, max_steps=12):
    """Follow a chain of single-assignment moves/copies/derefs/refs back from an operand.
    Returns the list of defs visited (most recent first); stops at calls / non-trivial rvalues."""
    chain = []
    cur = op
    for _ in range(max_steps):
        l = None
        if cur[0] in ("c", "m"):
            pl = cur[1]
            # allow pure deref projections
            if all(p == "*" for p in pl[1]):
                l = pl[0]
        if l is None:
            break
        d = single_def(fn, l)
        if d is None:
            break
        chain.append(d)
        if d[0] == "=":
            rv = d[3]
            if rv[0] == "use":
                cur = rv[1]
                continue
            if rv[0] == "ref" and all(p == "*" for p in rv[2][1]):
                cur = ["c", rv[2]]
                continue
            if rv[0] == "cast" and rv[1] in ("IntToInt", "Coerce:Unsize", "PtrToPtr"):
                cur = rv[2]
                continue
        break
    return chain


# ---- exit classification -------------------------------------------------------------------

ERR_CALLEES = (
    "::from_residual",
)


def ret_kind(fn):
    ty = fn.locals[0] if fn.locals else ""
    if ty.startswith("core::result::Result<") or ty.startswith("std::result::Result<"):
        return "result"
    if ty.startswith("core::task::poll::Poll<") or ty.startswith("std::task::Poll<"):
        return "poll"
    if ty.startswith("core::option::Option<") or ty.startswith("std::option::Option<"):
        return "option"
    return "other"


def _classify_rvalue(fn, rv, depth=0):
    """Classify a value stored to _0: 'err' | 'ok' | 'pending' | 'none' | 'tail'."""
    k = rv[0]
    if k == "agg" and rv[1] == "adt":
        name, variant = rv[2], rv[3]
        if name.endswith("result::Result"):
            return "err" if variant == "Err" else "ok"
        if name.endswith("task::poll::Poll"):
            if variant == "Pending":
                return "pending"
            # Ready(x): look at x
            if rv[4]:
                inner = _classify_operand(fn, rv[4][0], depth + 1)
                if inner in ("err", "none"):
                    return inner
            return "ok"
        if name.endswith("option::Option"):
            if variant == "None":
                return "none"
            if rv[4]:
                inner = _classify_operand(fn, rv[4][0], depth + 1)
                if inner == "err":
                    return "err"
            return "ok"
        return "ok"
    if k == "use":
        return _classify_operand(fn, rv[1], depth + 1)
    return "tail"


def _classify_operand(fn, op, depth):
    if depth > 6:
        return "tail"
    l = op_local(op)
    if l is None:
        return "tail"
    ds = defs(fn).get(l, [])
    kinds = set()
    for d in ds:
        if d[0] == "=":
            kinds.add(_classify_rvalue(fn, d[3], depth + 1))
        elif d[0] == "call":
            kinds.add(_classify_call(d[2]))
        else:
            kinds.add("tail")
    if len(kinds) == 1:
        return kinds.pop()
    return "tail"


def _classify_call(c):
    f = c.get("f", "")
    if f.endswith("::from_residual"):
        return "err"
    return "tail"


def exit_points(fn):
    """List of (block, kind) for every assignment of the return place.
    kind: ok | err | pending | none | tail  (tail = value of a call/temporary returned unchanged)."""
    out = []
    for bi, blk in enumerate(fn.blocks):
        if blk.get("cu"):
            continue
        for st in blk["s"]:
            if st[0] == "=" and st[1][0] == 0 and not st[1][1]:
                out.append((bi, _classify_rvalue(fn, st[2])))
        t = blk["t"]
        if t[0] == "call" and t[1]["dest"][0] == 0 and not t[1]["dest"][1]:
            out.append((bi, _classify_call(t[1])))
    return out


def return_blocks(fn):
    return [i for i, b in enumerate(fn.blocks) if b["t"][0] == "ret" and not b.get("cu")]


def success_exit_blocks(fn, treat_none_as_ok=True):
    """Blocks where _0 receives a value that is not (provably) an error / Pending."""
    out = []
    for b, k in exit_points(fn):
        if k in ("ok", "tail") or (k == "none" and treat_none_as_ok):
            out.append(b)
    if ret_kind(fn) == "other" and not out:
        # unit-returning functions assign _0 = () somewhere or not at all
        out = return_blocks(fn)
    return out


# ---- switch / condition helpers ------------------------------------------------------------

def switch_condition(fn, b):
    """For a SwitchInt block returns a description of what is being tested:
    ('cmp', op, lhs_operand, rhs_operand) | ('discr', place) | ('call', calldict) | ('local', l) | None."""
    t = fn.term(b)
    if t[0] != "sw":
        return None
    op = t[1]
    l = op_local(op)
    if l is None:
        return ("place", op)
    d = single_def(fn, l)
    if d is None:
        return ("local", l)
    if d[0] == "=":
        rv = d[3]
        if rv[0] == "bin":
            return ("cmp", rv[1], rv[2], rv[3])
        if rv[0] == "discr":
            return ("discr", rv[1])
        if rv[0] == "un" and rv[1] == "Not":
            return ("not", rv[2])
        if rv[0] == "use":
            return ("use", rv[1])
        return ("rv", rv)
    if d[0] == "call":
        return ("call", d[2])
    return None


# ---- constant folding over single-assignment temporaries --------------------------------------

_BIN = {
    "Add": lambda a, b: a + b, "Sub": lambda a, b: a - b, "Mul": lambda a, b: a * b,
    "AddWithOverflow": lambda a, b: a + b, "SubWithOverflow": lambda a, b: a - b,
    "MulWithOverflow": lambda a, b: a * b, "AddUnchecked": lambda a, b: a + b,
    "SubUnchecked": lambda a, b: a - b, "MulUnchecked": lambda a, b: a * b,
    "BitAnd": lambda a, b: a & b, "BitOr": lambda a, b: a | b, "BitXor": lambda a, b: a ^ b,
    "Shl": lambda a, b: a << b, "Shr": lambda a, b: a >> b,
    "ShlUnchecked": lambda a, b: a << b, "ShrUnchecked": lambda a, b: a >> b,
    "Div": lambda a, b: a // b if b else None, "Rem": lambda a, b: a % b if b else None,
}


def eval_const(fn, op, depth=0):
    """Integer value of an operand if it is a compile-time constant expression, else None."""
    if depth > 10:
        return None
    k = op_const(op)
    if k is not None:
        v = k.get("v")
        return v if isinstance(v, int) else None
    if op[0] not in ("c", "m"):
        return None
    pl = op[1]
    l = pl[0]
    proj = pl[1]
    d = single_def(fn, l)
    if d is not None and d[0] == "call" and not proj:
        # lossless conversions of constants: T::from(const)
        k = d[2].get("f") or ""
        if (k.endswith(">::from") and "convert::From<" in k or k.endswith("NonZero::<T>::get")) and len(d[2]["args"]) == 1:
            return eval_const(fn, d[2]["args"][0], depth + 1)
        return None
    if d is None or d[0] != "=":
        return None
    rv = d[3]
    if proj:
        # (_x.0) of a WithOverflow pair
        if len(proj) == 1 and isinstance(proj[0], list) and proj[0][0] == "f" and proj[0][1] == 0 and \
                rv[0] == "bin" and rv[1].endswith("WithOverflow"):
            a = eval_const(fn, rv[2], depth + 1)
            b = eval_const(fn, rv[3], depth + 1)
            if a is None or b is None:
                return None
            return _BIN[rv[1]](a, b)
        return None
    if rv[0] == "use":
        return eval_const(fn, rv[1], depth + 1)
    if rv[0] == "cast" and rv[1] == "IntToInt":
        return eval_const(fn, rv[2], depth + 1)
    if rv[0] == "bin" and rv[1] in _BIN and not rv[1].endswith("WithOverflow"):
        a = eval_const(fn, rv[2], depth + 1)
        b = eval_const(fn, rv[3], depth + 1)
        if a is None or b is None:
            return None
        return _BIN[rv[1]](a, b)
    return None


def rpo(fn):
    """Reverse post-order of the reachable non-cleanup blocks."""
    succ = fn.succ()
    order = []
    seen = {0}
    stack = [(0, iter(succ[0]))]
    while stack:
        node, it = stack[-1]
        adv = False
        for s in it:
            if s not in seen:
                seen.add(s)
                stack.append((s, iter(succ[s])))
                adv = True
                break
        if not adv:
            order.append(node)
            stack.pop()
    return list(reversed(order))
