"""A10 — append-buffer discipline (reused line buffers).

`BufRead::read_line` / `read_until` / `read_to_end` (and their tokio twins) APPEND to the buffer they are given. Every
reader in the workspace that parses "the buffer" as one record therefore relies on a clear between two appends. The rule
follows each primitive append site up the call graph (a workspace function that hands its own parameter, or a field of
it, to an appender without clearing it first is itself an appender) until the buffer is rooted (an owned local, a field
of `self`, or a parameter of a public function) and classifies every rooted site:

  protected      every path from the function entry AND every cyclic path from the site back to itself passes a
                 clear / overwrite / fresh initialisation of the buffer;
  accumulating   the site lies on a cycle with no reset (the loop keeps appending): legitimate for multi-line payloads
                 (FASTA sequence lines), a defect when each iteration parses the whole buffer as one record;
  public         the buffer is a parameter (or a field of a parameter) of a public function and is not reset on entry:
                 the std `read_line` contract, handed on to the caller.

Accumulating and public sites are frozen in a reviewed table, one reason each; a site outside the table is the violation.
"""
import json
import re
from collections import defaultdict

from . import cfg as C
from . import rules as R

APPEND_PRIM = re.compile(r"(std::io::BufRead::read_line|std::io::BufRead::read_until|std::io::Read::read_to_end|std::io::Read::read_to_string|"
                         r"AsyncBufReadExt::read_line|AsyncBufReadExt::read_until|AsyncReadExt::read_to_end|AsyncReadExt::read_to_string)$")
VIEW_RX = re.compile(r"(\bAsMut\b.*::as_mut|\bDerefMut\b.*::deref_mut|\bBorrowMut\b.*::borrow_mut|string::String::as_mut_vec)$")
KILL_RX = re.compile(r"(::clear|option::Option::<T>::take|mem::take|mem::replace)$")


def _norm(proj):
    out = []
    for p in proj:
        if p == "*":
            out.append("*")
        elif isinstance(p, list) and p[0] == "f":
            out.append(("f", p[1]))
        elif isinstance(p, list) and p[0] == "dc":
            out.append(("dc", p[1]))
        else:
            out.append(("?",))
    return out


class Body:
    """One MIR body plus the place-identity resolution used by the rule."""

    def __init__(self, fb, fn):
        self.fb = fb
        self.fn = fn
        self.defs = C.defs(fn)
        self._memo = {}

    def place_id(self, place, depth=0):
        """(root, path): root = ('p', k) pointer/owned parameter k of the logical function, ('l', n) local n."""
        base, proj = place[0], _norm(place[1])
        if depth > 12:
            return (("l", base), tuple(proj))
        fn = self.fn
        # coroutine bodies reach the parameters of the async fn through the upvars of _1
        if fn.coro and base == 1 and proj and proj[0][0] == "f":
            return (("p", proj[0][1] + 1), tuple(proj[1:]))
        if 1 <= base <= fn.argc and not fn.coro:
            return (("p", base), tuple(proj))
        # stores THROUGH the pointer (`(*p).f = v`, recorded as partial definitions) do not redefine the pointer itself
        ds = [x for x in self.defs.get(base, []) if x[0] in ("=", "call", "yield")]
        if len(ds) == 1:
            d = ds[0]
            if d[0] == "=":
                rv = d[3]
                if rv[0] == "ref" and proj and proj[0] == "*":
                    r, p = self.place_id(rv[2], depth + 1)
                    return (r, p + tuple(proj[1:]))
                if rv[0] == "use" and rv[1][0] in ("c", "m"):
                    r, p = self.place_id(rv[1][1], depth + 1)
                    return (r, p + tuple(proj))
                if rv[0] == "cast" and rv[2][0] in ("c", "m"):
                    r, p = self.place_id(rv[2][1], depth + 1)
                    return (r, p + tuple(proj))
            elif d[0] == "call":
                c = d[2]
                if VIEW_RX.search(c.get("f") or "") and c["args"] and c["args"][0][0] in ("c", "m") and proj and proj[0] == "*":
                    a = c["args"][0][1]
                    r, p = self.place_id([a[0], list(a[1]) + ["*"]], depth + 1)
                    return (r, p + tuple(proj[1:]))
                # `record.sequence_mut()`: a `&mut self -> &mut Field` accessor names a part of *self
                g = self.fb.fns.get(c.get("f") or "")
                if (g is not None and g.argc == 1 and len(c["args"]) == 1 and c["args"][0][0] in ("c", "m") and proj and proj[0] == "*"
                        and g.locals[0].startswith("&mut ") and g.locals[1].startswith("&mut ")):
                    r, p = self.place_id([c["args"][0][1][0], list(c["args"][0][1][1]) + ["*"]], depth + 1)
                    return (r, p + (("acc", g.key.split("::")[-1]),) + tuple(proj[1:]))
        return (("l", base), tuple(proj))

    def pointee(self, op):
        if op[0] not in ("c", "m"):
            return None
        pl = op[1]
        return self.place_id([pl[0], list(pl[1]) + ["*"]])


def _is_prefix(a, b):
    """identity a covers identity b (same root, a's path is a prefix of b's)."""
    return a[0] == b[0] and len(a[1]) <= len(b[1]) and tuple(b[1][:len(a[1])]) == tuple(a[1])


def _assign_resets(pid, ident):
    """Assigning a new value to place `pid` resets `ident` iff ident lives inside pid's value (no deref below pid: storing a
    new pointer does not reset what the old or the new pointer points at)."""
    return _is_prefix(pid, ident) and "*" not in ident[1][len(pid[1]):]


def kill_blocks(fb, body, ident, reset_memo):
    fn = body.fn
    out = set()
    for bi, blk in enumerate(fn.blocks):
        if blk.get("cu"):
            continue
        for st in blk["s"]:
            if st[0] == "=":
                pid = body.place_id(st[1])
                if _assign_resets(pid, ident):
                    out.add(bi)
        t = blk["t"]
        if t[0] != "call":
            continue
        c = t[1]
        fk = c.get("f") or ""
        if c.get("dest") is not None:
            pid = body.place_id(c["dest"])
            if _assign_resets(pid, ident):
                out.add(bi)
                continue
        if not c["args"]:
            continue
        if KILL_RX.search(fk) or (fk.endswith("::truncate") and len(c["args"]) > 1 and C.eval_const(fn, c["args"][1]) == 0):
            pt = body.pointee(c["args"][0])
            if pt is not None and _is_prefix(pt, ident):
                out.add(bi)
                continue
        g = fb.fns.get(fk)
        if g is not None and not g.is_closure:
            for i, a in enumerate(c["args"]):
                pt = body.pointee(a)
                if pt is None:
                    continue
                if pt == ident and R.param_definitely_reset(fb, g, i + 1, 2, reset_memo):
                    out.add(bi)
                    break
                # the callee is handed a parent object and resets the part we are interested in on all of its success paths
                if _is_prefix(pt, ident) and len(pt[1]) < len(ident[1]) and _depth[0] < 2:
                    sub = tuple(ident[1][len(pt[1]):])
                    if "*" not in sub and callee_definitely_resets(fb, g, (("p", i + 1), ("*",) + sub), reset_memo):
                        out.add(bi)
                        break
    return out


_depth = [0]


def callee_definitely_resets(fb, g, ident, reset_memo):
    key = ("sub", g.key, ident)
    if key in reset_memo:
        return reset_memo[key]
    reset_memo[key] = False
    _depth[0] += 1
    try:
        kb = kill_blocks(fb, Body(fb, g), ident, reset_memo)
    finally:
        _depth[0] -= 1
    ex = C.success_exit_blocks(g)
    reach = C.reachable(g, 0, removed=kb) if 0 not in kb else set()
    reset_memo[key] = bool(ex) and not any(e in reach for e in ex)
    return reset_memo[key]


def field_reset_rule(ctx, rule, fkey, param, field_path, what):
    """Every entry -> success path of fkey resets the part `field_path` (list of (owner ADT, field name)) of the object behind
    pointer parameter `param`: assignment, clear/take on it or on a parent, or a callee that does so on all of its paths."""
    fb = ctx.fb
    f = ctx.anchor(rule, fkey)
    if f is None:
        return
    path = ["*"]
    for owner, name in field_path:
        adt = fb.adts.get(owner)
        idx = None
        if adt is not None:
            for v in adt["variants"]:
                for i, fl in enumerate(v["fields"]):
                    if fl["name"] == name:
                        idx = i
        if idx is None:
            ctx.violation(rule, "%s/ANCHOR-MISSING/%s.%s" % (rule, owner, name), "field %s.%s not found" % (owner, name), f.loc())
            return
        path.append(("f", idx))
    ident = (("p", param), tuple(path))
    kb = kill_blocks(fb, Body(fb, f), ident, {})
    ex = C.success_exit_blocks(f)
    reach = C.reachable(f, 0, removed=kb) if 0 not in kb else set()
    hit = [e for e in ex if e in reach]
    if not ex:
        ctx.violation(rule, "%s/NO-EXIT/%s" % (rule, fkey), "no success exit in %s" % fkey, f.loc())
    elif hit:
        pth = R.shortest_path(f, 0, set(hit), removed=kb) or []
        ctx.violation(rule, "%s/stale/%s/%s" % (rule, fkey, field_path[-1][1]),
                      "%s returns Ok on a path that does not reset %s (lines %s): a reused record keeps it from the previous read" % (
                          fkey, what, R.path_lines(f, pth)), f.loc(hit[0]))
    else:
        ctx.ok(rule, "%s :: %s reset on every success path" % (fkey, what), "%d reset site(s)" % len(kb), f.loc())


def logical(fb, fn):
    """The function whose parameters a body's ('p', k) roots name: the async fn for its coroutine body."""
    if fn.coro and fn.parent and fn.parent in fb.fns:
        return fb.fns[fn.parent]
    return fn


def analyse(fb, crates=None):
    """Returns (sites, appenders). sites: list of dict(fn, block, callee, ident, entry_open, cyc_open, rooted)."""
    bodies = {}

    def body(f):
        b = bodies.get(f.key)
        if b is None:
            b = bodies[f.key] = Body(fb, f)
        return b

    reset_memo = {}
    appenders = defaultdict(set)     # logical fn key -> {(param, subpath)}
    sites = {}
    fns = [f for f in fb.fns.values() if (crates is None or f.crate in crates) and f.blocks]
    changed = True
    rounds = 0
    while changed and rounds < 8:
        changed = False
        rounds += 1
        for f in fns:
            bd = body(f)
            for bi, c in f.calls():
                fk = c.get("f") or ""
                targets = []
                if APPEND_PRIM.search(fk) and c["args"]:
                    pt = bd.pointee(c["args"][-1])
                    if pt is not None:
                        targets.append(pt)
                elif fk in appenders:
                    for (pi, sub) in appenders[fk]:
                        if pi - 1 < len(c["args"]):
                            a = c["args"][pi - 1]
                            pt = bd.pointee(a) if sub and sub[0] == "*" else None
                            if pt is not None:
                                targets.append((pt[0], pt[1] + tuple(sub[1:])))
                for ident in targets:
                    key = (f.key, bi, ident)
                    kb = kill_blocks(fb, bd, ident, reset_memo)
                    nxt = c.get("t")
                    entry_open = bi in (C.reachable(f, 0, removed=kb) if 0 not in kb else set())
                    cyc_open = nxt is not None and nxt not in kb and bi in C.reachable(f, nxt, removed=kb)
                    rec = {"fn": f.key, "block": bi, "callee": fk, "ident": ident, "entry_open": entry_open, "cyc_open": cyc_open}
                    if sites.get(key) != rec:
                        sites[key] = rec
                    if ident[0][0] == "p" and entry_open:
                        lf = logical(fb, f)
                        item = (ident[0][1], ident[1])
                        if item not in appenders[lf.key]:
                            appenders[lf.key].add(item)
                            changed = True
    return list(sites.values()), appenders


def fmt_ident(fn, ident):
    root, path = ident
    names = fn.names if hasattr(fn, "names") else {}
    base = "param#%d" % root[1] if root[0] == "p" else "local _%d" % root[1]
    s = base
    for p in path:
        if p == "*":
            s = "(*%s)" % s
        elif p[0] == "f":
            s += ".%d" % p[1]
        elif p[0] == "acc":
            s += ".%s()" % p[1]
        else:
            s += "<%s>" % p[0]
    return s


# reviewed table: sites that legitimately append without a reset (key = "<logical fn>|<callee tail>|<buffer>")
PUBLIC_APPENDERS = {
    "noodles_fasta::io::reader::Reader::<R>::read_sequence|read_sequence|(*param#2)":
        "std-like contract: appends the sequence to the caller's buffer (documented; the doc example starts from an empty Vec)",
    "noodles_fasta::io::indexed_reader::IndexedReader::<R>::read_sequence|read_sequence|(*param#2)":
        "delegates to Reader::read_sequence with the caller's buffer",
    "noodles_fastq::fai::io::reader::Reader::<R>::read_record|read_line|(*param#2)":
        "std-like contract: reads one raw line into the caller's buffer; parsing is the caller's business",
}
ACCUMULATING = {}

_CACHE = {}


def discipline_rule(ctx, rule, scope_rx, floor_sites):
    """Every append site whose function matches scope_rx is protected, or tabled with a reason."""
    fb = ctx.fb
    if id(fb) not in _CACHE:
        _CACHE.clear()
        _CACHE[id(fb)] = analyse(fb)
    sites, appenders = _CACHE[id(fb)]
    rx = re.compile(scope_rx)
    n = prim = 0
    for s in sorted(sites, key=lambda s: (s["fn"], s["block"], str(s["ident"]))):
        f = fb.fns[s["fn"]]
        lf = logical(fb, f)
        if not rx.search(lf.key):
            continue
        ctx.saw_fn(f)
        n += 1
        if APPEND_PRIM.search(s["callee"]):
            prim += 1
        tail = s["callee"].split("::")[-1]
        buf = fmt_ident(f, s["ident"])
        tkey = "%s|%s|%s" % (lf.key, tail, buf)
        loc = f.loc(s["block"])
        public = lf.vis == "pub" or lf.trait is not None
        if s["cyc_open"]:
            if tkey in ACCUMULATING:
                ctx.ok(rule, "%s appends to %s in a loop" % (lf.key, buf), "tabled accumulation: " + ACCUMULATING[tkey], loc)
            else:
                ctx.violation(rule, "%s/loop-append-no-reset/%s/%s" % (rule, lf.key, tail),
                              "%s calls %s(.., %s) on a cycle on which nothing clears or overwrites the buffer: `read_line`/`read_until` "
                              "append, so the second iteration sees the first line too" % (lf.key, tail, buf), loc)
            continue
        if s["entry_open"]:
            if s["ident"][0][0] == "p" and not public:
                ctx.ok(rule, "%s appends to its caller's buffer %s" % (lf.key, buf),
                       "obligation handed to its %s caller(s) (non-public helper)" % ("workspace"), loc)
                continue
            if tkey in PUBLIC_APPENDERS:
                ctx.ok(rule, "%s appends to %s without a reset" % (lf.key, buf), "tabled public contract: " + PUBLIC_APPENDERS[tkey], loc)
            else:
                ctx.violation(rule, "%s/append-no-reset/%s/%s" % (rule, lf.key, tail),
                              "%s hands %s to %s without clearing it on every path from its entry: a reused buffer keeps the previous "
                              "record's bytes in front of the new line" % (lf.key, buf, tail), loc)
            continue
        ctx.ok(rule, "%s resets %s before %s appends to it" % (lf.key, buf, tail), "all entry paths and all cycles pass a clear/overwrite", loc)
    ctx.count("append_sites", n)
    ctx.floor(rule, "append sites (primitive + via workspace appenders) in scope", n, floor_sites)
    return n


# ------------------------------------------------------------------------------------------------ writer scratch buffers
WRITE_ALL_RX = re.compile(r"(std::io::Write::write_all|AsyncWriteExt::write_all)$")
SHARED_VIEW_RX = re.compile(r"(\bDeref\b.*::deref|\bAsRef\b.*::as_ref|\bBorrow\b.*::borrow|Vec::<T, A>::as_slice|String::as_bytes|string::String::as_str)$")
READONLY_RX = re.compile(r"(::len|::is_empty|::as_slice|::deref|::as_ref|::capacity|::iter|::get|::first|::last)$")


def _shared_pointee(bd, op, depth=0):
    """Identity of the storage a shared reference operand views (through reborrows and Deref/AsRef of an owned buffer)."""
    if op[0] not in ("c", "m") or depth > 8:
        return None
    pl = op[1]
    if not pl[1]:
        ds = [x for x in bd.defs.get(pl[0], []) if x[0] in ("=", "call", "yield")]
        if len(ds) == 1 and ds[0][0] == "call":
            c = ds[0][2]
            if SHARED_VIEW_RX.search(c.get("f") or "") and c["args"]:
                return _shared_pointee(bd, c["args"][0], depth + 1)
        if len(ds) == 1 and ds[0][0] == "=":
            rv = ds[0][3]
            if rv[0] == "ref":
                src = rv[2]
                if list(src[1]) == ["*"]:          # reborrow `&*x`
                    return _shared_pointee(bd, ["c", [src[0], []]], depth + 1)
                return bd.place_id([src[0], list(src[1])])
            if rv[0] in ("use", "cast"):
                o = rv[1] if rv[0] == "use" else rv[2]
                if o[0] in ("c", "m"):
                    return _shared_pointee(bd, o, depth + 1)
    return bd.pointee(op)


def scratch_buffer_rule(ctx, rule, scope_rx, floor):
    """Writer scratch buffers: a field of `*self` that a function (a) hands by `&mut` to an encoder / inner writer and then (b)
    hands, as the whole record, to `write_all` on the destination, must be reset on every path from the function's entry to
    (a): a reset that only follows the write leaves the partial output of a rejected record in front of the next one."""
    fb = ctx.fb
    rx = re.compile(scope_rx)
    memo = {}
    n = 0
    for f in sorted(fb.fns.values(), key=lambda f: f.key):
        lf = logical(fb, f)
        if not f.blocks or not rx.search(lf.key):
            continue
        bd = None
        for bi, c in f.calls():
            if not WRITE_ALL_RX.search(c.get("f") or "") or len(c["args"]) < 2:
                continue
            if bd is None:
                bd = Body(fb, f)
            ident = _shared_pointee(bd, c["args"][1])
            if ident is None or ident[0] != ("p", 1) or not any(isinstance(p, tuple) and p[0] == "f" for p in ident[1]):
                continue
            producers = []
            for bj, c2 in f.calls():
                fk2 = c2.get("f") or ""
                if bj == bi or KILL_RX.search(fk2) or READONLY_RX.search(fk2) or WRITE_ALL_RX.search(fk2):
                    continue
                for a in c2["args"]:
                    if a[0] in ("c", "m") and not a[1][1] and f.locals[a[1][0]].startswith("&mut ") and bd.pointee(a) == ident:
                        producers.append((bj, fk2))
            if not producers:
                continue
            n += 1
            ctx.saw_fn(f)
            kb = kill_blocks(fb, bd, ident, memo)
            open_ = C.reachable(f, 0, removed=kb) if 0 not in kb else set()
            bad = [(bj, fk2) for bj, fk2 in producers if bj in open_]
            buf = fmt_ident(f, ident)
            if bad:
                ctx.violation(rule, "%s/scratch-not-reset-before-fill/%s" % (rule, lf.key),
                              "%s fills its scratch buffer %s through %s and then writes the whole buffer to the destination, but some path "
                              "from the entry reaches the fill without a clear: whatever an earlier call left there (the partial output of "
                              "a rejected record) is written in front of this record" % (lf.key, buf, bad[0][1].split("::")[-1]), f.loc(bad[0][0]))
            else:
                ctx.ok(rule, "%s clears %s before %s fills it" % (lf.key, buf, producers[0][1].split("::")[-1]),
                       "every entry path to the fill passes a reset; the buffer written is exactly this record", f.loc(bi))
    ctx.floor(rule, "writer functions that fill a scratch field and write it out", n, floor)
    return n


# ------------------------------------------------------------------------------------------------ element-wise resets
ITER_SRC_RX = re.compile(r"(IntoIterator>::into_iter|::iter_mut)$")


def _derived_from(f, seed):
    """Forward closure: locals built from `seed` by moves, copies, borrows, projections, aggregates and results of calls that
    are handed a derived value (iterator adapters, `next`, payload moves)."""
    der = {seed}
    changed = True
    while changed:
        changed = False
        for blk in f.blocks:
            if blk.get("cu"):
                continue
            for st in blk["s"]:
                if st[0] != "=" or st[1][0] in der:
                    continue
                if any(l in der for op in R.rvalue_operands(st[2]) for l in R.operand_locals(op)):
                    der.add(st[1][0])
                    changed = True
            t = blk["t"]
            if t[0] == "call":
                d = t[1].get("dest")
                if d is not None and not d[1] and d[0] not in der:
                    if any(C.op_local(a) in der for a in t[1]["args"] if C.op_local(a) is not None):
                        der.add(d[0])
                        changed = True
    return der


def element_reset_rule(ctx, rule, fkey, param, field_name, adt_key, what):
    """A reused collection of buffers (`param.field`: one Vec per sample) whose ELEMENTS are handed to a filling callee: every
    element is reset before it is filled — by a loop over the collection that clears each element (or a clear of the whole
    collection) passed on every path from the entry, or by a callee that itself resets its destination on all of its success
    paths. An element that is only filled conditionally keeps the previous record's content otherwise."""
    fb = ctx.fb
    f = ctx.body(rule, fkey)
    adt = fb.adts.get(adt_key)
    if f is None:
        return
    fields = ((adt or {}).get("variants") or [{}])[0].get("fields") or []
    idx = next((i for i, fl in enumerate(fields) if fl["name"] == field_name), None)
    if idx is None:
        ctx.violation(rule, "%s/ANCHOR-MISSING/%s.%s" % (rule, adt_key, field_name), "field %s.%s not found" % (adt_key, field_name), f.loc())
        return
    bd = Body(fb, f)
    X = (("p", param), ("*", ("f", idx)))
    memo = {}
    # iterators over X
    fills, elem_kills, whole_kills = [], [], []
    for bi, c in f.calls():
        fk = c.get("f") or ""
        if not ITER_SRC_RX.search(fk) or not c["args"] or c.get("dest") is None or c["dest"][1]:
            continue
        pt = bd.pointee(c["args"][0])
        if pt != X:
            continue
        der = _derived_from(f, c["dest"][0])
        for bj, c2 in f.calls():
            fk2 = c2.get("f") or ""
            if bj == bi:
                continue
            if fk2.endswith("::for_each") and len(c2["args"]) == 2 and C.op_local(c2["args"][0]) in der:
                # `xs.iter_mut().for_each(Vec::clear)` / `.for_each(|v| v.clear())`
                a1 = c2["args"][1]
                ty = a1[1].get("ty", "") if a1[0] == "k" else f.locals[C.op_local(a1)] if C.op_local(a1) is not None else ""
                clos = [h for h in fb.fns.values() if h.is_closure and h.parent == f.key and h.blocks and
                        any(KILL_RX.search(cc.get("f") or "") for _b, cc in h.calls())]
                if re.search(r"::clear\b", ty) or ("closure" in ty and clos):
                    whole_kills.append(bj)
                continue
            hit = [j for j, a in enumerate(c2["args"]) if C.op_local(a) in der and f.locals[C.op_local(a)].startswith("&mut ")
                   and "Iter" not in f.locals[C.op_local(a)] and "Zip" not in f.locals[C.op_local(a)]]
            if not hit:
                continue
            if KILL_RX.search(fk2):
                elem_kills.append((bj, bi))
            elif fk2 in fb.fns:
                fills.append((bj, fk2, hit[0]))
    loops = C.natural_loops(f)
    kill_gates = set(kill_blocks(fb, bd, X, memo)) | set(whole_kills)          # a clear of the whole collection / for_each(clear)
    for kb, _src in elem_kills:
        for h, body in loops:
            if kb in body:
                kill_gates.add(h)                            # passing the loop head = running the clearing loop
    if not fills:
        ctx.violation(rule, "%s/ANCHOR-MISSING/%s/fill" % (rule, fkey), "%s no longer hands the elements of %s to a filling callee" % (fkey, what), f.loc())
        return
    for bj, gk, j in fills:
        g = fb.fns[gk]
        if R.param_definitely_reset(fb, g, j + 1, 2, {}):
            ctx.ok(rule, "%s -> %s" % (fkey, gk.split("::")[-1]), "the callee resets its destination on every success path", f.loc(bj))
            continue
        open_ = C.reachable(f, 0, removed=kill_gates) if 0 not in kill_gates else set()
        if bj in open_:
            ctx.violation(rule, "%s/element-not-reset/%s/%s" % (rule, fkey, gk.split("::")[-1]),
                          "%s hands each element of %s to %s, which can return Ok without clearing or overwriting it (early return / "
                          "conditional fill), and no loop clears the elements on the way from the entry: with a reused destination an element "
                          "that is not filled this time keeps the previous record's values" % (fkey, what, gk.split("::")[-1]), f.loc(bj))
        else:
            ctx.ok(rule, "%s -> %s" % (fkey, gk.split("::")[-1]),
                   "every entry path to the fill passes a loop that clears each element (or a clear of the whole collection)", f.loc(bj))


# ------------------------------------------------------------------------------------------------ CR pop takes bytes of this call
POP_RX = re.compile(r"(Vec::<T, A>::pop|string::String::pop)$")
ENDS_WITH_RX = re.compile(r"::ends_with$")


def _needle_values(f, op, depth=0):
    """Constant byte/char values a needle operand is built from (char const, &[u8; N] of consts)."""
    if depth > 8:
        return set()
    if op[0] == "k":
        v = op[1].get("v")
        if isinstance(v, int):
            return {v}
        raw = op[1].get("raw")
        if raw and len(raw) <= 8:
            return set(bytes.fromhex(raw))
        return set()
    l = C.op_local(op)
    if l is None:
        pl = C.op_place(op)
        l = pl[0] if pl else None
    if l is None:
        return set()
    out = set()
    for d in C.defs(f).get(l, []):
        if d[0] != "=":
            continue
        rv = d[3]
        if rv[0] == "agg":
            for o in rv[4]:
                out |= _needle_values(f, o, depth + 1)
        else:
            for o in R.rvalue_operands(rv):
                out |= _needle_values(f, o, depth + 1)
    return out


def _count_guarded(f, bi):
    """Is block bi reachable only through an edge that establishes `count >= 2` for some integer (n > 1, n >= 2, 1 < n, 2 <= n, n != 1
    after a zero test is NOT accepted)?"""
    for b, kind, ops, t_t, f_t in R._cmp_switches(f):
        if kind not in ("Gt", "Ge", "Lt", "Le"):
            continue
        ka, kb_ = C.op_const(ops[0]), C.op_const(ops[1])
        va = ka.get("v") if ka else None
        vb = kb_.get("v") if kb_ else None
        enough = None       # which edge establishes count >= 2
        if kind == "Gt" and isinstance(vb, int) and vb >= 1:
            enough = t_t
        elif kind == "Ge" and isinstance(vb, int) and vb >= 2:
            enough = t_t
        elif kind == "Lt" and isinstance(va, int) and va >= 1:
            enough = t_t
        elif kind == "Le" and isinstance(va, int) and va >= 2:
            enough = t_t
        elif kind == "Le" and isinstance(vb, int) and vb >= 1:      # !(n <= 1)
            enough = f_t
        elif kind == "Lt" and isinstance(vb, int) and vb >= 2:      # !(n < 2)
            enough = f_t
        if enough is None:
            continue
        other = f_t if enough == t_t else t_t
        if bi in C.reachable(f, enough, removed={b}) and bi not in C.reachable(f, other, removed={b}) and bi not in C.reachable(f, 0, removed={b}):
            return True
    return False


def cr_pop_rule(ctx, rule, scope_rx, floor):
    """A line reader that appends to a buffer it did not empty (its caller's) and then strips the line ending must not remove a
    byte that was there before the call. The LF is safe (the call read at least one byte and the buffer ends with it); the CR pop
    needs `bytes read by this call >= 2` — or every caller hands over a buffer that is EMPTY at the call (reset, and no other call
    was given `&mut` access to it since). Defect F30: read_field / read_line after earlier fields popped the previous field's CR."""
    fb = ctx.fb
    rx = re.compile(scope_rx)
    memo = {}
    bodies = {}

    def body(f):
        if f.key not in bodies:
            bodies[f.key] = Body(fb, f)
        return bodies[f.key]

    # 1. direct unguarded CR pops on a parameter-rooted buffer that the function does not reset first
    poppers = defaultdict(dict)     # logical key -> {param: (fn, block)}
    npop = 0
    for f in sorted(fb.fns.values(), key=lambda f: f.key):
        if not f.blocks or not rx.search(logical(fb, f).key):
            continue
        bd = None
        for bi, c in f.calls():
            if not POP_RX.search(c.get("f") or "") or not c["args"]:
                continue
            bd = bd or body(f)
            ident = bd.pointee(c["args"][0])
            if ident is None or ident[0][0] != "p" or ident[1] != ("*",):
                continue
            # is this the CR pop?  dominated by an ends_with(.., CR) on the same buffer
            cr = False
            for bj, c2 in f.calls():
                if ENDS_WITH_RX.search(c2.get("f") or "") and len(c2["args"]) == 2 and C.dominates(f, bj, bi) and 13 in _needle_values(f, c2["args"][1]):
                    if _shared_pointee(bd, c2["args"][0]) == ident:
                        cr = True
            if not cr:
                continue
            npop += 1
            ctx.saw_fn(f)
            kb = kill_blocks(fb, bd, ident, memo)
            if 0 in kb or bi not in C.reachable(f, 0, removed=kb):
                ctx.ok(rule, "%s :: CR pop" % f.key, "the function empties the buffer itself before it appends", f.loc(bi))
                continue
            if _count_guarded(f, bi):
                ctx.ok(rule, "%s :: CR pop" % f.key, "guarded by `bytes read by this call >= 2`: the byte removed was read by this call", f.loc(bi))
                continue
            poppers[logical(fb, f).key][ident[0][1]] = (f, bi)
    # 2. callers: the buffer must be empty at the call, or the obligation moves up
    changed = True
    rounds = 0
    checked = set()
    while changed and rounds < 6:
        changed = False
        rounds += 1
        for f in sorted(fb.fns.values(), key=lambda f: f.key):
            if not f.blocks:
                continue
            bd = None
            for bi, c in f.calls():
                fk = c.get("f") or ""
                if fk not in poppers:
                    continue
                for pi, (pf, pb) in list(poppers[fk].items()):
                    if pi - 1 >= len(c["args"]) or (f.key, bi, pi) in checked:
                        continue
                    bd = bd or body(f)
                    ident = bd.pointee(c["args"][pi - 1])
                    if ident is None:
                        continue
                    checked.add((f.key, bi, pi))
                    kb = kill_blocks(fb, bd, ident, memo)
                    # other calls that get &mut access to the same buffer
                    writers = set()
                    for bj, c2 in f.calls():
                        fk2 = c2.get("f") or ""
                        if KILL_RX.search(fk2) or READONLY_RX.search(fk2) or POP_RX.search(fk2) or VIEW_RX.search(fk2):
                            continue
                        g2 = fb.fns.get(fk2)
                        if g2 is not None and g2.argc == 1 and g2.locals[0].startswith("&mut ") and g2.locals[1].startswith("&mut "):
                            continue        # `&mut self -> &mut Field` accessor: a view, not a write
                        for a in c2["args"]:
                            l = C.op_local(a)
                            if l is not None and f.locals[l].startswith("&mut ") and bd.pointee(a) == ident:
                                writers.add(bj)
                    entry_open = bi in (C.reachable(f, 0, removed=kb) if 0 not in kb else set())
                    dirty = [w for w in writers if f.blocks[w]["t"][1].get("t") is not None and f.blocks[w]["t"][1]["t"] not in kb
                             and bi in C.reachable(f, f.blocks[w]["t"][1]["t"], removed=kb)]
                    lf = logical(fb, f)
                    if ident[0][0] == "p" and entry_open and not dirty:
                        # hands its own caller's buffer on untouched: the obligation moves up
                        if ident[0][1] not in poppers[lf.key]:
                            poppers[lf.key][ident[0][1]] = (pf, pb)
                            changed = True
                        continue
                    ctx.saw_fn(f)
                    if dirty or entry_open:
                        via = f.blocks[dirty[0]]["t"][1].get("f", "").split("::")[-1] if dirty else "the function entry"
                        ctx.violation(rule, "%s/cr-pop-takes-earlier-byte/%s/%s" % (rule, lf.key, fk.split("::")[-1]),
                                      "%s calls %s on %s after %s already wrote to the buffer (no reset in between), and %s strips a trailing "
                                      "CR from the whole buffer without checking that this call read at least two bytes: when it reads only the "
                                      "line feed, the CR removed is the last byte of the earlier content, whose recorded end then lies past the "
                                      "end of the buffer (accessor panics on a record returned Ok)" % (
                                          lf.key, fk.split("::")[-1], fmt_ident(f, ident), via, pf.key), f.loc(bi))
                    else:
                        ctx.ok(rule, "%s -> %s" % (lf.key, fk.split("::")[-1]), "the buffer is empty at the call (reset on every path, no writer in between)", f.loc(bi))
    ctx.count("unguarded_cr_poppers", len(poppers))
    ctx.floor(rule, "CR pops on a caller-provided buffer", npop, floor)


# ---------------------------------------------------------------------------------------------------------------------------------
# memo coherence: `if cur != prev { cache = compute(cur) } .. prev = cur` inside a loop
def memo_sites(f):
    """Loop-carried memos: a comparison (PartialEq::ne / eq) of a loop-carried local K (`prev`) with a place P, a value local V assigned
    on the 'differs' side only, and an assignment K = P somewhere in the loop. Returns one dict per (K, comparison) with the blocks where
    K is updated although, on some path of that iteration, neither V was refreshed nor the 'same' edge was taken."""
    out = []
    loops = C.natural_loops(f)
    if not loops:
        return out
    defs = C.defs(f)

    def ref_place(op):
        l = C.op_local(op)
        if l is None:
            return None
        d = C.single_def(f, l)
        if d is not None and d[0] == "=" and d[3][0] == "ref":
            return d[3][2]
        return None

    for b, c in f.calls():
        fk = c.get("f") or ""
        m = re.search(r"cmp::PartialEq(<.*>)?>?::(ne|eq)$", fk)
        if not m or len(c["args"]) != 2:
            continue
        mine = [(h, body) for h, body in loops if b in body]
        if not mine:
            continue
        body = set().union(*[bd for _h, bd in mine])
        heads = {h for h, _bd in mine}
        p0, p1 = ref_place(c["args"][0]), ref_place(c["args"][1])
        if p0 is None or p1 is None:
            continue
        for kp, other in ((p0, p1), (p1, p0)):
            if kp[1]:
                continue            # the key is a bare local
            K = kp[0]
            # K is assigned inside the loop from the other operand's place
            ak = []
            for bi in body:
                for st in f.blocks[bi]["s"]:
                    if st[0] == "=" and st[1][0] == K and not st[1][1] and st[2][0] == "use":
                        pl = C.op_place(st[2][1])
                        if pl is not None and not pl[1]:      # through one temporary: `_t = copy (*record).id; prev = move _t`
                            d1 = C.single_def(f, pl[0])
                            if d1 is not None and d1[0] == "=" and d1[3][0] == "use" and C.op_place(d1[3][1]) is not None:
                                pl = C.op_place(d1[3][1])
                        if pl is not None and json.dumps(pl) == json.dumps(other):
                            ak.append(bi)
            if not ak:
                continue
            nxt = c.get("t")
            if nxt is None or f.blocks[nxt]["t"][0] != "sw":
                continue
            t = f.blocks[nxt]["t"]
            vals = dict((v, tg) for v, tg in t[2])
            if 0 not in vals:
                continue
            zero, nonzero = vals[0], t[3]
            differs, same = (nonzero, zero) if m.group(2) == "ne" else (zero, nonzero)
            # V: named locals assigned only in blocks dominated by the differs target (inside the loop) and read elsewhere
            dom_region = {x for x in body if C.dominates(f, differs, x)}
            named = {int(i) for i, _n in f.names}
            vs = {}
            for bi in dom_region:
                blk = f.blocks[bi]
                for st in blk["s"]:
                    if st[0] == "=" and not st[1][1] and st[1][0] in named and st[1][0] != K:
                        vs.setdefault(st[1][0], set()).add(bi)
                tt = blk["t"]
                if tt[0] == "call" and tt[1].get("dest") and not tt[1]["dest"][1] and tt[1]["dest"][0] in named and tt[1]["dest"][0] != K:
                    vs.setdefault(tt[1]["dest"][0], set()).add(bi)
            # keep those whose every in-loop assignment lies in the region (a value refreshed only when the key differs)
            keep = {}
            for V, blks in vs.items():
                allb = set()
                for bi in body:
                    for st in f.blocks[bi]["s"]:
                        if st[0] == "=" and st[1][0] == V and not st[1][1]:
                            allb.add(bi)
                    tt = f.blocks[bi]["t"]
                    if tt[0] == "call" and tt[1].get("dest") and tt[1]["dest"][0] == V and not tt[1]["dest"][1]:
                        allb.add(bi)
                if allb and allb <= dom_region:
                    keep[V] = allb
            if not keep:
                continue
            refresh = set().union(*keep.values())
            # one iteration: from each loop head, never re-enter a head, never pass a refresh block or the `same` edge
            bad = []
            for h in heads:
                reach = C.reachable(f, h, removed=(refresh | (heads - {h})) | (set(range(len(f.blocks))) - body),
                                    removed_edges={(nxt, same)} | {(x, h) for x in body})
                bad += [a for a in ak if a in reach]
            out.append({"fn": f.key, "key": K, "values": sorted(keep), "cmp": b, "updates": sorted(set(ak)), "bad": sorted(set(bad))})
    return out


def memo_coherence_rule(ctx, rule, scope_rx):
    fb = ctx.fb
    n = 0
    names = {}
    for k, f in sorted(fb.fns.items()):
        if not f.blocks or not re.search(scope_rx, k) or not getattr(f, "names", None):
            continue
        for s_ in memo_sites(f):
            n += 1
            ctx.saw_fn(f)
            nm = {int(i): x for i, x in f.names}
            if s_["bad"]:
                ctx.violation(rule, "%s/stale-memo/%s/%s" % (rule, f.root, nm.get(s_["key"], s_["key"])),
                              "%s keeps `%s` as the key of a loop-carried memo (%s refreshed only when the key differs) but updates the key on a "
                              "path of the iteration that passes neither the refresh nor the equal edge: the next iteration finds an equal "
                              "key and reuses the value of an older one" % (
                                  f.root, nm.get(s_["key"], s_["key"]), ", ".join("`%s`" % nm.get(v, v) for v in s_["values"])), f.loc(s_["bad"][0]))
            else:
                ctx.ok(rule, "%s :: memo keyed by `%s`" % (f.root, nm.get(s_["key"], s_["key"])),
                       "every update of the key passes the refresh of %s or the equal edge" % ", ".join("`%s`" % nm.get(v, v) for v in s_["values"]), f.loc(s_["cmp"]))
    return n
