"""A11 — finite abstract interpretation of small pure predicates (presence tables).

Some predicates touch their inputs only through `Option` discriminants: `interval_is_unbounded(interval)` asks whether the two
bounds of a region are present, nothing else. Over the domain {None, Some(_)} per input such a function is a finite truth table,
and the table can be computed from the MIR without running anything: the interpreter below walks the body once per input
combination over the abstract values

    ("opt", is_some)   an Option whose payload is unknown
    ("bool", b) / ("int", n)
    ("struct", {field index: value})
    None               unknown

models the handful of `Option` combinators the workspace uses and follows workspace callees (accessors) through their own MIR.
Anything it does not know makes the row UNDECIDED — never a violation: the rule built on it fires only on a row that was
computed and is wrong.
"""
from . import cfg as C

UNDECIDED = object()


class _Abort(Exception):
    pass


def _opt(v):
    return v is not None and v[0] == "opt"


def _bool(v):
    return v is not None and v[0] == "bool"


MODELS = {}


def _model(name):
    def deco(fn):
        MODELS[name] = fn
        return fn
    return deco


@_model("core::option::Option::<T>::is_none")
def _m_is_none(a):
    return ("bool", not a[0][1]) if _opt(a[0]) else None


@_model("core::option::Option::<T>::is_some")
def _m_is_some(a):
    return ("bool", a[0][1]) if _opt(a[0]) else None


@_model("core::option::Option::<T>::and")
def _m_and(a):
    return ("opt", a[0][1] and a[1][1]) if _opt(a[0]) and _opt(a[1]) else None


@_model("core::option::Option::<T>::or")
def _m_or(a):
    return ("opt", a[0][1] or a[1][1]) if _opt(a[0]) and _opt(a[1]) else None


@_model("core::option::Option::<T>::xor")
def _m_xor(a):
    return ("opt", a[0][1] != a[1][1]) if _opt(a[0]) and _opt(a[1]) else None


@_model("core::option::Option::<T>::zip")
def _m_zip(a):
    return ("opt", a[0][1] and a[1][1]) if _opt(a[0]) and _opt(a[1]) else None


def _ident(a):
    return a[0]


for _n in ("core::option::Option::<T>::as_ref", "core::option::Option::<T>::as_mut", "core::option::Option::<T>::copied",
           "core::option::Option::<&T>::copied", "core::option::Option::<&T>::cloned", "core::option::Option::<T>::take",
           "<core::option::Option<T> as core::clone::Clone>::clone", "core::option::Option::<T>::as_deref"):
    MODELS[_n] = _ident


def _read(env, place):
    v = env.get(place[0])
    for p in place[1]:
        if v is None:
            return None
        if p == "*":
            continue
        if isinstance(p, list) and p[0] == "f":
            if v[0] == "struct":
                v = v[1].get(p[1])
            elif v[0] == "tuple":
                v = v[1][p[1]] if p[1] < len(v[1]) else None
            else:
                return None
        elif isinstance(p, list) and p[0] == "dc":
            return None         # payloads are unknown
        else:
            return None
    return v


def _operand(env, op):
    if op[0] in ("c", "m"):
        return _read(env, op[1])
    if op[0] == "k":
        k = op[1]
        ty = k.get("ty", "")
        if "v" in k:
            if ty == "bool":
                return ("bool", bool(k["v"]))
            return ("int", k["v"])
        return None
    return None


def _rvalue(env, rv):
    k = rv[0]
    if k == "use":
        return _operand(env, rv[1])
    if k == "ref" or k == "rawptr":
        return _read(env, rv[2])
    if k == "cast":
        return _operand(env, rv[2])
    if k == "discr":
        v = _read(env, rv[1])
        return ("int", 1 if v[1] else 0) if _opt(v) else None
    if k == "un":
        v = _operand(env, rv[2])
        if rv[1] == "Not" and _bool(v):
            return ("bool", not v[1])
        return None
    if k == "bin":
        a, b = _operand(env, rv[2]), _operand(env, rv[3])
        if a is None or b is None:
            return None
        x, y = a[1], b[1]
        op = rv[1]
        if a[0] in ("bool", "int") and b[0] in ("bool", "int"):
            if op in ("BitAnd",):
                return (a[0], x & y if a[0] == "int" else (x and y))
            if op in ("BitOr",):
                return (a[0], x | y if a[0] == "int" else (x or y))
            if op in ("BitXor",):
                return (a[0], x ^ y if a[0] == "int" else (x != y))
            if op == "Eq":
                return ("bool", x == y)
            if op == "Ne":
                return ("bool", x != y)
        return None
    if k == "agg":
        if rv[1] == "adt" and rv[2] == "core::option::Option":
            return ("opt", rv[3] == "Some")
        if rv[1] == "tuple":
            return ("tuple", [_operand(env, o) for o in rv[4]])
        return None
    return None


def interpret(fb, fn, args, depth=0, fuel=400):
    """Abstractly executes fn on the abstract argument values; returns the abstract result, or raises _Abort."""
    env = {i + 1: a for i, a in enumerate(args)}
    b = 0
    while fuel > 0:
        fuel -= 1
        blk = fn.blocks[b]
        for st in blk["s"]:
            if st[0] != "=":
                continue
            v = _rvalue(env, st[2])
            if st[1][1]:
                continue        # partial stores are not modelled (value stays as it was: conservative only for pure code)
            env[st[1][0]] = v
        t = blk["t"]
        k = t[0]
        if k == "ret":
            return env.get(0)
        if k == "goto":
            b = t[1]
        elif k == "fe":
            b = t[1]
        elif k == "fu":
            b = t[1]
        elif k == "drop":
            b = t[2]
        elif k == "assert":
            b = t[4]
        elif k == "sw":
            v = _operand(env, t[1])
            if v is None or v[0] not in ("bool", "int"):
                raise _Abort("switch on an unknown value")
            n = int(v[1])
            nxt = None
            for val, tgt in t[2]:
                if val == n:
                    nxt = tgt
            b = nxt if nxt is not None else t[3]
            if b is None:
                raise _Abort("no switch target")
        elif k == "call":
            c = t[1]
            fk = c.get("f") or ""
            a = [_operand(env, x) for x in c["args"]]
            res = None
            if fk in MODELS:
                try:
                    res = MODELS[fk](a)
                except Exception:
                    res = None
            else:
                g = fb.fns.get(fk)
                if g is not None and g.blocks and depth < 3 and not g.is_closure:
                    try:
                        res = interpret(fb, g, a, depth + 1, fuel=100)
                    except _Abort:
                        res = None
            d = c.get("dest")
            if d is not None and not d[1]:
                env[d[0]] = res
            if c.get("t") is None:
                raise _Abort("diverging call")
            b = c["t"]
        else:
            raise _Abort("terminator " + k)
    raise _Abort("out of fuel")


def presence_table(fb, fn, shape):
    """shape(bits) -> list of abstract arguments for one combination of `bits` (tuple of booleans).
    Returns {bits: True | False | UNDECIDED}."""
    import itertools
    n = shape.__code__.co_argcount
    out = {}
    for bits in itertools.product((False, True), repeat=n):
        try:
            r = interpret(fb, fn, shape(*bits))
            out[bits] = r[1] if _bool(r) else UNDECIDED
        except _Abort:
            out[bits] = UNDECIDED
    return out
