"""A11 — finite abstract interpretation of small pure predicates (presence tables).

Some predicates touch their inputs only through `Option` discriminants: `interval_is_unbounded(interval)` asks whether the two
bounds of a region are present, nothing else. Over the domain {None, Some(_)} per input such a function is a finite truth table,
and the table can be computed from the MIR without running anything: the interpreter below walks the body once per input
combination over the abstract values

    ("opt", is_some)   an Option whose payload is unknown
    ("bool", b) / ("int", n)
    ("struct", {field index: value})
    None               unknown

models the handful of `Option` combinators the workspace uses and follows workspace callees (accessors) through their own MIR.
Anything it does not know makes the row UNDECIDED — never a violation: the rule built on it fires only on a row that was
computed and is wrong.
"""
from . import cfg as C

UNDECIDED = object()


class _Abort(Exception):
    pass


def _opt(v):
    return v is not None and v[0] == "opt"


def _bool(v):
    return v is not None and v[0] == "bool"


MODELS = {}


def _model(name):
    def deco(fn):
        MODELS[name] = fn
        return fn
    return deco


@_model("core::option::Option::<T>::is_none")
def _m_is_none(a):
    return ("bool", not a[0][1]) if _opt(a[0]) else None


@_model("core::option::Option::<T>::is_some")
def _m_is_some(a):
    return ("bool", a[0][1]) if _opt(a[0]) else None


@_model("core::option::Option::<T>::and")
def _m_and(a):
    return ("opt", a[0][1] and a[1][1]) if _opt(a[0]) and _opt(a[1]) else None


@_model("core::option::Option::<T>::or")
def _m_or(a):
    return ("opt", a[0][1] or a[1][1]) if _opt(a[0]) and _opt(a[1]) else None


@_model("core::option::Option::<T>::xor")
def _m_xor(a):
    return ("opt", a[0][1] != a[1][1]) if _opt(a[0]) and _opt(a[1]) else None


@_model("core::option::Option::<T>::zip")
def _m_zip(a):
    return ("opt", a[0][1] and a[1][1]) if _opt(a[0]) and _opt(a[1]) else None


def _ident(a):
    return a[0]


for _n in ("core::option::Option::<T>::as_ref", "core::option::Option::<T>::as_mut", "core::option::Option::<T>::copied",
           "core::option::Option::<&T>::copied", "core::option::Option::<&T>::cloned", "core::option::Option::<T>::take",
           "<core::option::Option<T> as core::clone::Clone>::clone", "core::option::Option::<T>::as_deref"):
    MODELS[_n] = _ident


def _read(env, place):
    v = env.get(place[0])
    for p in place[1]:
        if v is None:
            return None
        if p == "*":
            continue
        if isinstance(p, list) and p[0] == "f":
            if v[0] == "struct":
                v = v[1].get(p[1])
            elif v[0] == "tuple":
                v = v[1][p[1]] if p[1] < len(v[1]) else None
            else:
                return None
        elif isinstance(p, list) and p[0] == "dc":
            return None         # payloads are unknown
        else:
            return None
    return v


def _operand(env, op):
    if op[0] in ("c", "m"):
        return _read(env, op[1])
    if op[0] == "k":
        k = op[1]
        ty = k.get("ty", "")
        if "v" in k:
            if ty == "bool":
                return ("bool", bool(k["v"]))
            return ("int", k["v"])
        return None
    return None


def _rvalue(env, rv):
    k = rv[0]
    if k == "use":
        return _operand(env, rv[1])
    if k == "ref" or k == "rawptr":
        return _read(env, rv[2])
    if k == "cast":
        return _operand(env, rv[2])
    if k == "discr":
        v = _read(env, rv[1])
        return ("int", 1 if v[1] else 0) if _opt(v) else None
    if k == "un":
        v = _operand(env, rv[2])
        if rv[1] == "Not" and _bool(v):
            return ("bool", not v[1])
        return None
    if k == "bin":
        a, b = _operand(env, rv[2]), _operand(env, rv[3])
        if a is None or b is None:
            return None
        x, y = a[1], b[1]
        op = rv[1]
        if a[0] in ("bool", "int") and b[0] in ("bool", "int"):
            if op in ("BitAnd",):
                return (a[0], x & y if a[0] == "int" else (x and y))
            if op in ("BitOr",):
                return (a[0], x | y if a[0] == "int" else (x or y))
            if op in ("BitXor",):
                return (a[0], x ^ y if a[0] == "int" else (x != y))
            if op == "Eq":
                return ("bool", x == y)
            if op == "Ne":
                return ("bool", x != y)
        return None
    if k == "agg":
        if rv[1] == "adt" and rv[2] == "core::option::Option":
            return ("opt", rv[3] == "Some")
        if rv[1] == "tuple":
            return ("tuple", [_operand(env, o) for o in rv[4]])
        return None
    return None


def interpret(fb, fn, args, depth=0, fuel=400):
    """Abstractly executes fn on the abstract argument values; returns the abstract result, or raises _Abort."""
    env = {i + 1: a for i, a in enumerate(args)}
    b = 0
    while fuel > 0:
        fuel -= 1
        blk = fn.blocks[b]
        for st in blk["s"]:
            if st[0] != "=":
                continue
            v = _rvalue(env, st[2])
            if st[1][1]:
                continue        # partial stores are not modelled (value stays as it was: conservative only for pure code)
            env[st[1][0]] = v
        t = blk["t"]
        k = t[0]
        if k == "ret":
            return env.get(0)
        if k == "goto":
            b = t[1]
        elif k == "fe":
            b = t[1]
        elif k == "fu":
            b = t[1]
        elif k == "drop":
            b = t[2]
        elif k == "assert":
            b = t[4]
        elif k == "sw":
            v = _operand(env, t[1])
            if v is None or v[0] not in ("bool", "int"):
                raise _Abort("switch on an unknown value")
            n = int(v[1])
            nxt = None
            for val, tgt in t[2]:
                if val == n:
                    nxt = tgt
            b = nxt if nxt is not None else t[3]
            if b is None:
                raise _Abort("no switch target")
        elif k == "call":
            c = t[1]
            fk = c.get("f") or ""
            a = [_operand(env, x) for x in c["args"]]
            res = None
            if fk in MODELS:
                try:
                    res = MODELS[fk](a)
                except Exception:
                    res = None
            else:
                g = fb.fns.get(fk)
                if g is not None and g.blocks and depth < 3 and not g.is_closure:
                    try:
                        res = interpret(fb, g, a, depth + 1, fuel=100)
                    except _Abort:
                        res = None
            d = c.get("dest")
            if d is not None and not d[1]:
                env[d[0]] = res
            if c.get("t") is None:
                raise _Abort("diverging call")
            b = c["t"]
        else:
            raise _Abort("terminator " + k)
    raise _Abort("out of fuel")


def presence_table(fb, fn, shape):
    """shape(bits) -> list of abstract arguments for one combination of `bits` (tuple of booleans).
    Returns {bits: True | False | UNDECIDED}."""
    import itertools
    n = shape.__code__.co_argcount
    out = {}
    for bits in itertools.product((False, True), repeat=n):
        try:
            r = interpret(fb, fn, shape(*bits))
            out[bits] = r[1] if _bool(r) else UNDECIDED
        except _Abort:
            out[bits] = UNDECIDED
    return out


# ================================================================================================ bit-length classes
# A second finite domain: an i32 seen only through shifts, comparisons with 0 and leading_zeros is characterised by the bit
# length of its unsigned image, c = 32 - (n as u32).leading_zeros() in 0..=32 (32 = negative). Two functions that partition the
# integers by magnitude — how many bytes an ITF-8 value is DECLARED to take and how many are WRITTEN — can be compared class by
# class without running either.
import re as _re


def _bits_model_call(fk, args, dest_ty):
    tail = fk.split("::")[-1]
    if tail == "leading_zeros" and args and args[0] is not None and args[0][0] == "cls":
        return ("int", 32 - args[0][1])
    if tail in ("to_be_bytes", "to_le_bytes", "to_ne_bytes"):
        m = _re.match(r"\[u8; (\d+)\]", dest_ty or "")
        return ("arr", int(m.group(1))) if m else None
    return None


def interpret_bits(fb, fn, args, fuel=600):
    """Returns (abstract result, bytes handed to write_all) or raises _Abort."""
    env = {i + 1: a for i, a in enumerate(args)}
    written = 0
    b = 0

    def val(op):
        if op[0] == "k":
            k = op[1]
            if "v" in k and isinstance(k["v"], (int, bool)):
                return ("bool", bool(k["v"])) if k.get("ty") == "bool" else ("int", int(k["v"]))
            return None
        if op[0] in ("c", "m"):
            v = env.get(op[1][0])
            for p in op[1][1]:
                if v is None:
                    return None
                if p == "*":
                    continue
                if isinstance(p, list) and p[0] == "f" and v[0] == "tuple":
                    v = v[1][p[1]] if p[1] < len(v[1]) else None
                elif isinstance(p, list) and p[0] in ("dc",):
                    continue
                elif isinstance(p, list) and p[0] == "f" and v[0] == "cf":
                    v = ("unit",)
                else:
                    return None
            return v
        return None

    def lty(op):
        l = C.op_local(op)
        return fn.locals[l] if l is not None else (op[1].get("ty") if op[0] == "k" else None)

    while fuel > 0:
        fuel -= 1
        blk = fn.blocks[b]
        for st in blk["s"]:
            if st[0] != "=" or st[1][1]:
                continue
            rv = st[2]
            k = rv[0]
            v = None
            if k == "use":
                v = val(rv[1])
            elif k == "ref":
                v = val(["c", rv[2]])
            elif k == "cast":
                src = val(rv[2])
                if rv[1] == "IntToInt":
                    if src is not None and src[0] == "cls":
                        frm, to = rv[3], rv[4]
                        v = src if to in ("u32", "i32", "u64", "i64", "usize", "isize") and not (src[1] == 32 and to in ("u64", "i64", "usize", "isize")) else None
                    else:
                        v = src
                elif rv[1] == "Coerce:Unsize":
                    m = _re.match(r"&(?:mut )?\[u8; (\d+)\]", rv[3] or "")
                    v = ("arr", int(m.group(1))) if m else src
                else:
                    v = src
            elif k == "agg":
                if rv[1] == "array":
                    v = ("arr", len(rv[4]))
                elif rv[1] == "tuple":
                    v = ("tuple", [val(o) for o in rv[4]])
                elif rv[1] == "adt" and "ops::range::RangeFrom" in rv[2]:
                    v = ("rangefrom", val(rv[4][0]))
                elif rv[1] == "adt" and rv[2].endswith("ops::range::RangeTo"):
                    v = ("rangeto", val(rv[4][0]))
                elif rv[1] == "adt" and rv[2].endswith("ops::range::Range"):
                    v = ("range", val(rv[4][0]), val(rv[4][1]))
            elif k == "discr":
                src = val(["c", rv[1]])
                v = ("int", 0) if src is not None and src[0] == "cf" else None
            elif k == "un":
                src = val(rv[2])
                if rv[1] == "Not" and src is not None and src[0] == "bool":
                    v = ("bool", not src[1])
            elif k == "bin":
                a, c_ = val(rv[2]), val(rv[3])
                op = rv[1]
                if a is not None and c_ is not None:
                    if a[0] == "int" and c_[0] == "int":
                        x, y = a[1], c_[1]
                        base = op.replace("WithOverflow", "")
                        r = {"Add": x + y, "Sub": x - y, "Mul": x * y, "Shl": x << y if 0 <= y < 64 else 0, "Shr": x >> y if 0 <= y < 64 else 0,
                             "BitAnd": x & y, "BitOr": x | y, "BitXor": x ^ y}.get(base)
                        if r is not None:
                            v = ("tuple", [("int", r), ("bool", False)]) if op.endswith("WithOverflow") else ("int", r)
                        elif op in ("Eq", "Ne", "Lt", "Le", "Gt", "Ge"):
                            v = ("bool", {"Eq": x == y, "Ne": x != y, "Lt": x < y, "Le": x <= y, "Gt": x > y, "Ge": x >= y}[op])
                    elif a[0] == "cls" and c_[0] == "int":
                        c0, y = a[1], c_[1]
                        signed = (lty(rv[2]) or "").startswith("i")
                        if op == "Shr":
                            v = ("cls", 32) if (c0 == 32 and signed) else ("cls", max(c0 - y, 0))
                        elif op in ("Eq", "Ne") and y == 0:
                            v = ("bool", (c0 == 0) if op == "Eq" else (c0 != 0))
                        elif op in ("Lt", "Le", "Gt", "Ge") and y >= 0 and not (c0 == 32 and signed):
                            # n < 2^k  <=>  bit length <= k ;  n <= 2^k - 1 likewise
                            yy = y + 1 if op in ("Le", "Gt") else y
                            if yy > 0 and yy & (yy - 1) == 0:
                                kbits = yy.bit_length() - 1
                                lt = c0 <= kbits
                                v = ("bool", lt if op in ("Lt", "Le") else not lt)
                        elif op in ("Lt", "Le") and c0 == 32 and signed and y >= 0:
                            v = ("bool", True)
                        elif op in ("Gt", "Ge") and c0 == 32 and signed and y >= 0:
                            v = ("bool", False)
            env[st[1][0]] = v
        t = blk["t"]
        k = t[0]
        if k == "ret":
            return env.get(0), written
        if k in ("goto", "fu"):
            b = t[1]
        elif k == "fe":
            b = t[1]
        elif k == "drop":
            b = t[2]
        elif k == "assert":
            b = t[4]
        elif k == "sw":
            v = val(t[1])
            if v is None or v[0] not in ("bool", "int"):
                raise _Abort("switch on an unknown value")
            n = int(v[1])
            nxt = None
            for vv, tgt in t[2]:
                if vv == n:
                    nxt = tgt
            b = nxt if nxt is not None else t[3]
            if b is None:
                raise _Abort("no switch target")
        elif k == "call":
            c = t[1]
            fk = c.get("f") or ""
            a = [val(x) for x in c["args"]]
            d = c.get("dest")
            dty = fn.locals[d[0]] if d is not None and not d[1] else None
            res = _bits_model_call(fk, a, dty)
            tail = fk.split("::")[-1]
            if res is None:
                if _re.search(r"Write>?::write_all$", fk) and len(a) == 2 and a[1] is not None and a[1][0] == "arr":
                    written += a[1][1]
                    res = ("ok",)
                elif _re.search(r"Write>?::write_all$", fk):
                    raise _Abort("write_all of a buffer of unknown length")
                elif tail == "branch" and a and a[0] is not None and a[0][0] == "ok":
                    res = ("cf",)
                elif _re.search(r"ops::index::Index<.*>::index$", fk) and len(a) == 2 and a[1] is not None and (
                        (a[0] is not None and a[0][0] == "arr") or _re.match(r"&(?:mut )?\[u8; (\d+)\]", lty(c["args"][0]) or "")):
                    if a[0] is None or a[0][0] != "arr":
                        a[0] = ("arr", int(_re.match(r"&(?:mut )?\[u8; (\d+)\]", lty(c["args"][0])).group(1)))
                    n0, r = a[0][1], a[1]
                    if r[0] == "rangefrom" and r[1] is not None and r[1][0] == "int":
                        res = ("arr", n0 - r[1][1])
                    elif r[0] == "rangeto" and r[1] is not None and r[1][0] == "int":
                        res = ("arr", r[1][1])
                    elif r[0] == "range" and None not in (r[1], r[2]) and r[1][0] == "int" and r[2][0] == "int":
                        res = ("arr", r[2][1] - r[1][1])
            if d is not None and not d[1]:
                env[d[0]] = res
            if c.get("t") is None:
                raise _Abort("diverging call")
            b = c["t"]
        else:
            raise _Abort("terminator " + k)
    raise _Abort("out of fuel")


def bit_class_table(fb, fn, argpos, nargs, want):
    """want: 'result' (the integer returned) or 'written' (bytes handed to write_all). Returns {class: int | UNDECIDED}."""
    out = {}
    for c in range(0, 33):
        args = [None] * nargs
        args[argpos] = ("cls", c)
        try:
            r, w = interpret_bits(fb, fn, args)
            if want == "written":
                out[c] = w
            else:
                out[c] = r[1] if r is not None and r[0] == "int" else UNDECIDED
        except _Abort:
            out[c] = UNDECIDED
    return out
