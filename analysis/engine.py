"""Check context: obligations, violations, known findings, evidence and report writing."""
import json
import os
import re
import time

VERIF = os.path.dirname(os.path.dirname(os.path.abspath(__file__)))
KNOWN_FILE = os.path.join(VERIF, "KNOWN_FINDINGS.txt")
EVIDENCE_DIR = os.environ.get("VERIF_EVIDENCE_DIR", os.path.join(VERIF, "evidence"))


def load_known():
    known = {}   # (prop, key) -> [count, text]
    fixed = []
    if not os.path.exists(KNOWN_FILE):
        return known, fixed
    for line in open(KNOWN_FILE):
        line = line.rstrip("\n")
        if not line or line.startswith("#"):
            continue
        m = re.match(r"known: property=(C\d+) key=(\S+)(?: count=(\d+))? :: (.*)$", line)
        if m:
            known[(m.group(1), m.group(2))] = [int(m.group(3) or 1), m.group(4)]
            continue
        if line.startswith("fixed:"):
            fixed.append(line)
    return known, fixed


class Ctx:
    def __init__(self, prop, tier, fb, extract_info, seed=0):
        self.prop = prop
        self.tier = tier
        self.fb = fb
        self.seed = seed
        self.extract_info = extract_info
        self.t0 = time.time()
        self.obligations = []      # dicts: rule, instance, verdict, detail, loc
        self.violations = []       # dicts: key, rule, what, loc, detail
        self.notes = []
        self.counters = {}
        self.rules_run = {}        # rule id -> description
        self.fn_seen = set()
        self.callsites_seen = 0
        self.not_decided = []
        self.cfg = (fb.cfgs[0] if getattr(fb, "cfgs", None) else "D")
        self._first_pass_keys = None
        self.fb_total = {"functions": len(fb.fns), "consts": len(fb.consts), "crates": len(fb.crates), "configs": list(fb.cfgs)}

    def next_config(self, cfg, fb):
        """Thorough tier: decide every rule again on another build configuration. Violations whose key was already
        reported (with the same multiplicity) on the first configuration are the same construct seen twice and are not
        repeated; obligations of the second pass are tagged with the configuration."""
        from collections import Counter
        self._first_pass_keys = Counter(v["key"] for v in self.violations)
        self._second_seen = Counter()
        self.cfg = cfg
        self.fb = fb
        self.fb_total["configs"].append(cfg)
        self.fb_total["functions_" + cfg] = len(fb.fns)

    # ---- bookkeeping -----------------------------------------------------------------------
    def rule(self, rid, desc):
        self.rules_run[rid] = desc

    def count(self, name, n=1):
        self.counters[name] = self.counters.get(name, 0) + n

    def saw_fn(self, fn):
        if fn is not None:
            self.fn_seen.add(fn.key)

    def _tag(self, instance):
        return instance if self._first_pass_keys is None else "%s [cfg %s]" % (instance, self.cfg)

    def ok(self, rule, instance, detail="", loc=""):
        self.obligations.append({"rule": rule, "instance": self._tag(instance), "verdict": "holds",
                                 "detail": detail, "loc": loc})

    def violation(self, rule, key, what, loc="", detail=None):
        """key: stable key without line numbers: '<rule>/<kind>/<function>[/<extra>]'."""
        key = re.sub(r"\s+", "_", key)
        if self._first_pass_keys is not None:
            self._second_seen[key] += 1
            if self._second_seen[key] <= self._first_pass_keys.get(key, 0):
                return      # the same construct, already reported on the first configuration
            what = "[cfg %s] %s" % (self.cfg, what)
        self.obligations.append({"rule": rule, "instance": self._tag(key), "verdict": "VIOLATED",
                                 "detail": what, "loc": loc})
        self.violations.append({"key": key, "rule": rule, "what": what, "loc": loc, "detail": detail})

    def anchor(self, rule, key):
        """Look up a function that a rule instance is anchored on; fail closed if it is gone."""
        f = self.fb.fn(key)
        if f is None:
            self.violation(rule, "%s/ANCHOR-MISSING/%s" % (rule, key),
                           "anchor function %s not found in the fact base (renamed or removed): "
                           "re-anchor the rule instance" % key)
            return None
        self.saw_fn(f)
        return f

    def body(self, rule, key):
        """Like anchor(), but for an `async fn` returns the coroutine body that holds the code."""
        f = self.anchor(rule, key)
        if f is None:
            return None
        if f.is_async:
            kids = [self.fb.fn(k) for k in self.fb.children.get(key, [])]
            kids = [k for k in kids if k is not None and k.coro]
            if len(kids) == 1:
                self.saw_fn(kids[0])
                return kids[0]
        return f

    def floor(self, rule, what, n, minimum):
        if n < minimum:
            self.violation(rule, "%s/FLOOR/%s" % (rule, what),
                           "rule matched %d instances of %s, fewer than the %d confirmed by hand: "
                           "the rule would pass vacuously" % (n, what, minimum))
        else:
            self.ok(rule, "floor:%s" % what, "%d >= %d" % (n, minimum))

    # ---- finishing -------------------------------------------------------------------------
    def finish(self, explanation, assumptions, not_decided):
        known, fixed = load_known()
        reports_dir = os.path.join(EVIDENCE_DIR, "reports")
        os.makedirs(reports_dir, exist_ok=True)
        # remove stale reports of this property
        for f in os.listdir(reports_dir):
            if f.startswith(self.prop + "-"):
                os.remove(os.path.join(reports_dir, f))
        remaining = {k: v[0] for k, v in known.items() if k[0] == self.prop}
        real = []
        known_hit = []
        for v in self.violations:
            kk = (self.prop, v["key"])
            if remaining.get(kk, 0) > 0:
                remaining[kk] -= 1
                known_hit.append((v, known[kk][1]))
            else:
                real.append(v)
        printed = set()
        for v, text in known_hit:
            line = "KNOWN-FINDING: property=%s %s [%s]" % (self.prop, text, v["key"])
            if line not in printed:
                print(line)
                printed.add(line)
        for i, v in enumerate(real):
            path = os.path.join(reports_dir, "%s-%d.json" % (self.prop, i))
            with open(path, "w") as fh:
                json.dump(v, fh, indent=1)
            print("  violation: [%s] %s  @ %s\n             key=%s" % (v["rule"], v["what"], v["loc"], v["key"]))
            print("VIOLATION property=%s replay=%s" % (self.prop, path))
        held = [o for o in self.obligations if o["verdict"] == "holds"]
        n_obl = len(self.obligations)
        distinct = len({(o["rule"], o["instance"]) for o in self.obligations})
        samples = []
        seen_rules = set()
        for o in self.obligations:
            if o["rule"] not in seen_rules:
                seen_rules.add(o["rule"])
                samples.append(o)
        samples = samples[:40]
        ev = {
            "property_id": self.prop,
            "tier": self.tier,
            "seed": self.seed,
            "level": "other",
            "coverage": {
                "explanation": explanation,
                "technique": "static analysis over rustc MIR/HIR facts of /repo's current tree (no execution)",
                "evaluations": n_obl,
                "distinct_nontrivial": distinct,
                "rule": "one evaluation = one rule instance (obligation) decided on the fact base; "
                        "distinct = distinct (rule, instance) pairs; every instance is anchored on a named "
                        "function/constant/table of the current tree and is non-trivial in that a floor "
                        "check fails the run if the anchor set shrinks",
                "obligations": n_obl,
                "discharged": len(held),
                "known_findings_matched": len(known_hit),
                "violations_new": len(real),
                "rules": self.rules_run,
                "functions_analysed": len(self.fn_seen),
                "fact_base": {
                    "functions_total": self.fb_total["functions"],
                    "consts_total": self.fb_total["consts"],
                    "configs": self.fb_total["configs"],
                    "crates": self.fb_total["crates"],
                    "per_config": {k: v for k, v in self.fb_total.items() if k.startswith("functions_")},
                    "extract": self.extract_info,
                },
                "counters": self.counters,
                "not_decided": not_decided,
                "samples": samples,
                "exhaustive": False,
            },
            "assumptions": assumptions,
            "wall_s": round(time.time() - self.t0, 2),
            "violations": len(real),
        }
        os.makedirs(EVIDENCE_DIR, exist_ok=True)
        with open(os.path.join(EVIDENCE_DIR, self.prop + ".json"), "w") as fh:
            json.dump(ev, fh, indent=1)
        print("%s tier=%s obligations=%d discharged=%d known=%d violations=%d functions=%d wall=%.1fs" % (
            self.prop, self.tier, n_obl, len(held), len(known_hit), len(real), len(self.fn_seen),
            time.time() - self.t0))
        return 1 if real else 0
