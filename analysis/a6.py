"""A6 — panic-site inventory over the read-side closure (DESIGN.md §4 A6)."""
import re
from collections import Counter, defaultdict

from . import cfg as C
from . import rules as R

SKIP_CRATES = ("noodles_htsget", "noodles_refget", "noodles")

# write-side code is not an entry for hostile input and the traversal does not enter it
WRITE_RX = re.compile(r"(writer|::write::|::write_|::write\b|encoder|::encode\b|::encode::|::encode_)")

PANIC_RX = re.compile(r"^(core::panicking::|std::rt::begin_panic|std::panicking::begin_panic|core::option::unwrap_failed|"
                      r"core::result::unwrap_failed|core::option::expect_failed|core::slice::index::slice_|core::str::slice_error_fail)")
UNWRAP_RX = re.compile(r"(option::Option::<T>::(unwrap|expect)|result::Result::<T, E>::(unwrap|expect|unwrap_err|expect_err))$")
INDEX_RX = re.compile(
    r"(ops::index::Index<[^>]*>>::index|ops::index::IndexMut<[^>]*>>::index_mut|"
    r"ops::index::Index<I> for [^>]*>::index|ops::index::IndexMut<I> for [^>]*>::index_mut|"
    r"Index<.*>>::index|IndexMut<.*>>::index_mut|"
    r"slice::<impl \[T\]>::(split_at|split_at_mut|copy_from_slice|clone_from_slice|copy_within|swap|chunks|chunks_exact|"
    r"chunks_mut|windows|rotate_left|rotate_right|rchunks|select_nth_unstable)|"
    r"str::<impl str>::split_at|"
    r"Vec::<T, A>::(remove|insert|drain|swap_remove|split_off)|VecDeque::<T, A>::(remove|insert|drain)|"
    r"bytes::buf::buf_impl::Buf::(advance|get_u8|get_u16_le|get_u32_le|get_u64_le|get_i8|get_i16_le|get_i32_le|get_i64_le|"
    r"get_f32_le|copy_to_slice|get_u16|get_u32|split_to)|BytesMut::(split_to|advance)|Bytes::(split_to|slice|advance)|"
    # std APIs that assert a precondition on their arguments (min <= max, step != 0, divisor != 0, radix <= 36, value != 0)
    r"core::cmp::Ord::clamp|<impl f(32|64)>::clamp|core::iter::traits::iterator::Iterator::step_by|"
    r"<impl [iu](8|16|32|64|128|size)>::(clamp|div_euclid|rem_euclid|ilog2|ilog10|ilog|div_ceil|next_multiple_of|isqrt)|"
    r"core::char::methods::<impl char>::(from_digit|to_digit))$")


def is_write_side(key):
    return bool(WRITE_RX.search(key))


def scope(fb):
    """Read-side closure: from every pub fn that is not write-side, never entering write-side functions."""
    roots = [k for k, f in fb.fns.items() if f.vis == "pub" and f.crate not in SKIP_CRATES and not is_write_side(k)]
    cg = fb.callgraph()
    seen = set()
    stack = list(roots)
    while stack:
        k = stack.pop()
        if k in seen:
            continue
        f = fb.fns.get(k)
        if f is None or f.crate in SKIP_CRATES or is_write_side(k):
            continue
        seen.add(k)
        for c in cg.get(k, ()):
            if c not in seen:
                stack.append(c)
        # closures nested in the function belong to it
        for ch in fb.children.get(k, ()):
            if ch not in seen:
                stack.append(ch)
    return seen, len(roots)


def _const_range_in_array(f, c):
    """Index::index on [T; N] with a constant Range / RangeTo / RangeFrom inside N."""
    k = c.get("f") or ""
    if "for [T; N]>" not in k:
        return False
    m = re.match(r"\[\[[^;\]]+; (\d+)_usize\]", c.get("ga") or "")
    if not m or len(c["args"]) < 2:
        return False
    n = int(m.group(1))
    l = C.op_local(c["args"][1])
    kc = C.eval_const(f, c["args"][1])
    if kc is not None:
        return 0 <= kc < n
    d = C.single_def(f, l) if l is not None else None
    if d is None or d[0] != "=" or d[3][0] != "agg":
        return False
    name = d[3][2]
    vals = [C.eval_const(f, o) for o in d[3][4]]
    if any(v is None for v in vals):
        return False
    if name.endswith("range::Range") and len(vals) == 2:
        return 0 <= vals[0] <= vals[1] <= n
    if name.endswith("range::RangeTo") and len(vals) == 1:
        return 0 <= vals[0] <= n
    if name.endswith("range::RangeFrom") and len(vals) == 1:
        return 0 <= vals[0] <= n
    if name.endswith("range::RangeInclusive"):
        return len(vals) >= 2 and 0 <= vals[0] <= vals[1] < n
    return False


def sites(fb, scope_keys, with_overflow=False):
    """Yields dict(fn, block, kind, what, discharged) for every panic-capable construct."""
    for k in sorted(scope_keys):
        f = fb.fns[k]
        for bi, blk in enumerate(f.blocks):
            if blk.get("cu"):
                continue
            t = blk["t"]
            if t[0] == "call":
                c = t[1]
                fk = c.get("f") or ""
                if PANIC_RX.search(fk):
                    mac = (c.get("mac") or "")
                    names = [m for m in mac.split(">") if m and not m.startswith("desugar")]
                    # outermost user-facing macro
                    outer = names[-1] if names else fk.split("::")[-1]
                    if outer in ("panic", "panic_2021", "panic_2015") and len(names) > 1:
                        outer = names[-1]
                    yield {"fn": k, "block": bi, "kind": "K1", "what": outer, "discharged": None}
                elif UNWRAP_RX.search(fk):
                    yield {"fn": k, "block": bi, "kind": "K2", "what": fk.split("::")[-1], "discharged": None}
                elif INDEX_RX.search(fk):
                    dis = "constant range inside a fixed-size array" if _const_range_in_array(f, c) else None
                    last = fk.split("::")[-1]
                    if last in ("div_ceil", "div_euclid", "rem_euclid", "next_multiple_of", "step_by") and len(c["args"]) > 1:
                        dv = C.eval_const(f, c["args"][1])
                        if dv not in (None, 0):
                            dis = "constant non-zero divisor/step %s" % dv
                    elif last == "clamp" and len(c["args"]) > 2:
                        lo, hi = C.eval_const(f, c["args"][1]), C.eval_const(f, c["args"][2])
                        if lo is not None and hi is not None and lo <= hi:
                            dis = "constant bounds %s <= %s" % (lo, hi)
                    elif last in ("from_digit", "to_digit") and len(c["args"]) > 1:
                        rx_ = C.eval_const(f, c["args"][1])
                        if rx_ is not None and 2 <= rx_ <= 36:
                            dis = "constant radix %s" % rx_
                    yield {"fn": k, "block": bi, "kind": "K3", "what": fk.split("::")[-1], "discharged": dis}
            elif t[0] == "assert":
                a = t[1]
                if a == "BoundsCheck":
                    ln = C.eval_const(f, t[5][0]) if t[5] else None
                    ix = C.eval_const(f, t[5][1]) if len(t[5]) > 1 else None
                    dis = "constant index %s < constant length %s" % (ix, ln) if ln is not None and ix is not None and 0 <= ix < ln else None
                    yield {"fn": k, "block": bi, "kind": "K3", "what": "bounds", "discharged": dis}
                elif a in ("DivisionByZero", "RemainderByZero"):
                    # the assert's operand is the dividend; the divisor is what the condition compares with 0
                    dv = None
                    cl = C.op_local(t[2])
                    cd = C.single_def(f, cl) if cl is not None else None
                    if cd is not None and cd[0] == "=" and cd[3][0] == "bin" and cd[3][1] == "Eq":
                        dv = C.eval_const(f, cd[3][2])
                    dis = "constant non-zero divisor %s" % dv if dv not in (None, 0) else None
                    yield {"fn": k, "block": bi, "kind": "K4", "what": "div", "discharged": dis}
                elif a in ("Overflow:Shl", "Overflow:Shr"):
                    sh = C.eval_const(f, t[5][1]) if len(t[5]) > 1 else None
                    dis = "constant shift amount %s" % sh if sh is not None and 0 <= sh < 8 else None
                    # the shift width bound depends on the operand type; only amounts < 8 are width-independent
                    yield {"fn": k, "block": bi, "kind": "K4", "what": "shift", "discharged": dis}
                elif a.startswith("Overflow") and with_overflow:
                    yield {"fn": k, "block": bi, "kind": "K5", "what": a.split(":")[1].lower(), "discharged": None}


def inventory(fb, with_overflow=False):
    sc, nroots = scope(fb)
    per = defaultdict(Counter)
    dis = Counter()
    total = Counter()
    locs = {}
    for s in sites(fb, sc, with_overflow):
        total[s["kind"]] += 1
        if s["discharged"]:
            dis[s["kind"]] += 1
            continue
        key = "%s:%s" % (s["kind"], s["what"])
        # closures are counted with the function they are written in (closure indices shift under benign edits)
        root = fb.fns[s["fn"]].root
        per[root][key] += 1
        locs.setdefault((root, key), (s["fn"], s["block"]))
    return {"scope": sc, "roots": nroots, "per_fn": per, "auto_discharged": dis, "total": total, "locs": locs}
