"""Debug helper: python3 -m analysis.dump <regex> [--cfg D]  — pretty-prints MIR facts of matching fns."""
import re
import sys

from . import extract, facts


def fmt_place(p):
    s = "_%d" % p[0]
    for pr in p[1]:
        if pr == "*":
            s = "(*%s)" % s
        elif isinstance(pr, list):
            if pr[0] == "f":
                s += ".%s" % pr[2]
            elif pr[0] == "i":
                s += "[_%d]" % pr[1]
            elif pr[0] == "ci":
                s += "[%s%d]" % ("-" if pr[3] else "", pr[1])
            elif pr[0] == "ss":
                s += "[%d..%s%d]" % (pr[1], "-" if pr[3] else "", pr[2])
            elif pr[0] == "dc":
                s += " as %s" % pr[1]
        else:
            s += "<%s>" % pr
    return s


def fmt_op(o):
    if o[0] in ("c", "m"):
        return ("move " if o[0] == "m" else "") + fmt_place(o[1])
    if o[0] == "k":
        c = o[1]
        if "fn" in c:
            return "fn:" + c["fn"]
        if "closure" in c:
            return "closure:" + c["closure"]
        v = c.get("v", c.get("raw", c.get("bits", "?")))
        d = c.get("def")
        return "const %s%s: %s" % (v, " (%s)" % d if d else "", c["ty"])
    return "?"


def fmt_rv(rv):
    k = rv[0]
    if k == "use":
        return fmt_op(rv[1])
    if k == "ref":
        return "&%s%s" % ("mut " if rv[1] == "m" else "", fmt_place(rv[2]))
    if k == "cast":
        return "%s as %s (%s)" % (fmt_op(rv[2]), rv[4], rv[1])
    if k == "bin":
        return "%s(%s, %s)" % (rv[1], fmt_op(rv[2]), fmt_op(rv[3]))
    if k == "un":
        return "%s(%s)" % (rv[1], fmt_op(rv[2]))
    if k == "discr":
        return "discriminant(%s)" % fmt_place(rv[1])
    if k == "agg":
        return "%s %s%s(%s)" % (rv[1], rv[2], "::" + rv[3] if rv[3] else "", ", ".join(fmt_op(o) for o in rv[4]))
    return str(rv)


def dump(f):
    print("fn %s  [%s] %s:%d vis=%s async=%s closure=%s coro=%s trait=%s" % (
        f.key, f.cfg, f.file, f.line, f.vis, f.is_async, f.is_closure, f.coro, f.trait))
    for i, t in enumerate(f.locals):
        print("    let _%d: %s%s" % (i, t, "  // %s" % f.local_name(i) if f.local_name(i) else ""))
    if f.captures is not None:
        print("    captures:", f.captures)
    for bi, blk in enumerate(f.blocks):
        print("  bb%d%s:  (line %d)" % (bi, " (cleanup)" if blk.get("cu") else "", blk["l"]))
        for st in blk["s"]:
            if st[0] == "=":
                print("      %s = %s" % (fmt_place(st[1]), fmt_rv(st[2])))
            else:
                print("      %s" % st)
        t = blk["t"]
        if t[0] == "call":
            c = t[1]
            print("      %s = %s(%s) -> %s%s%s%s" % (
                fmt_place(c["dest"]), c.get("f") or fmt_op(c["fop"]), ", ".join(fmt_op(a) for a in c["args"]),
                "bb%s" % c["t"] if c["t"] is not None else "!", "  [unresolved trait call on %s]" % c.get("self") if c.get("tr") else "",
                "  mac=%s" % c["mac"] if c.get("mac") else "", "  ga=%s" % c.get("ga", "")))
        elif t[0] == "sw":
            print("      switch %s [%s] otherwise bb%d  (%s)" % (fmt_op(t[1]), ", ".join("%d->bb%d" % (v, b) for v, b in t[2]), t[3], t[4]))
        elif t[0] == "assert":
            print("      assert %s (%s == %s) -> bb%d" % (t[1], fmt_op(t[2]), t[3], t[4]))
        elif t[0] == "drop":
            print("      drop(%s) -> bb%d" % (fmt_place(t[1]), t[2]))
        else:
            print("      %s" % (t,))


if __name__ == "__main__":
    args = [a for a in sys.argv[1:] if not a.startswith("--")]
    cfgname = "D"
    d, info = extract.facts_dir(cfgname)
    fb = facts.load({cfgname: d})
    rx = re.compile(args[0])
    for k, f in fb.fns.items():
        if rx.search(k):
            dump(f)
            print()
