#!/usr/bin/env python3
"""Development helper: build a selftest patch from (file, old, new) replacements against /repo.

usage (python):  from mkpatch import mk;  mk("mutants", "name", "C01 C14", ["C01.R5/bypass"], [(file, old, new), ...], note)
"""
import difflib
import os

HERE = os.path.dirname(os.path.abspath(__file__))
REPO = "/repo"


def mk(kind, name, props, expect, edits, note=""):
    out = ["# property: %s\n" % props]
    for e in expect:
        out.append("# expect: %s\n" % e)
    if note:
        out.append("# note: %s\n" % note)
    by_file = {}
    for f, old, new in edits:
        by_file.setdefault(f, []).append((old, new))
    for f, reps in by_file.items():
        src = open(os.path.join(REPO, f)).read()
        dst = src
        for old, new in reps:
            if dst.count(old) != 1:
                raise SystemExit("%s: pattern occurs %d times in %s: %r" % (name, dst.count(old), f, old[:60]))
            dst = dst.replace(old, new)
        diff = difflib.unified_diff(src.splitlines(True), dst.splitlines(True), "a/" + f, "b/" + f)
        out.extend(diff)
    os.makedirs(os.path.join(HERE, kind), exist_ok=True)
    with open(os.path.join(HERE, kind, name + ".patch"), "w") as fh:
        fh.writelines(out)
