#!/usr/bin/env python3
"""Selftest of the checker (development tool, not part of any property verdict).

  selftest/run.py [name-regex]

For each selftest/mutants/<name>.patch: applies it to a scratch copy of /repo (outside /repo and
/verif), runs the checks named in its header and expects exit 1 with a violation key containing the
`expect:` string.  For each selftest/equivalent/<name>.patch: expects every named check to stay
silent (exit 0).  The scratch copy is removed at the end.

Patch header lines (before the diff):
  # property: C01 C14
  # expect: C01.R5/bypass
  # note: free text
"""
import os
import re
import shutil
import subprocess
import sys
import tempfile

HERE = os.path.dirname(os.path.abspath(__file__))
VERIF = os.path.dirname(HERE)
REPO = "/repo"


def header(path):
    props, expect = [], []
    for line in open(path):
        if line.startswith("# property:"):
            props = line.split(":", 1)[1].split()
        elif line.startswith("# expect:"):
            expect.append(line.split(":", 1)[1].strip())
        elif line.startswith("diff ") or line.startswith("--- "):
            break
    return props, expect


def main():
    rx = re.compile(sys.argv[1]) if len(sys.argv) > 1 else None
    scratch = tempfile.mkdtemp(prefix="noodles-selftest-")
    evdir = tempfile.mkdtemp(prefix="noodles-selftest-ev-")
    results = []
    try:
        subprocess.check_call(["rsync", "-a", "--exclude", "target", "--exclude", ".git", REPO + "/", scratch + "/"])
        env = dict(os.environ, NOODLES_REPO=scratch, VERIF_EVIDENCE_DIR=evdir,
                   VERIF_CACHE=os.environ.get("SELFTEST_CACHE", os.path.join(VERIF, ".cache-selftest")))
        work = []
        for kind in ("mutants", "equivalent"):
            d = os.path.join(HERE, kind)
            if not os.path.isdir(d):
                continue
            for name in sorted(os.listdir(d)):
                if not name.endswith(".patch") or (rx and not rx.search(name)):
                    continue
                path = os.path.join(d, name)
                props, expect = header(path)
                work.append((kind, name, path, props, expect))
        # the independently seeded changes: expectations come from their meta.json (detected_by); a seed that no check of
        # its own property reports is listed there under missed_by and is expected to stay silent for that property
        sd = os.path.join(VERIF, "seeded")
        for name in sorted(os.listdir(sd)) if os.path.isdir(sd) else []:
            label = "seeded/" + name
            if rx and not rx.search(label):
                continue
            import json
            meta = json.load(open(os.path.join(sd, name, "meta.json")))
            det = meta.get("detected_by") or {}
            props = sorted(det)
            expect = []
            for p_, keys_ in det.items():
                for k_ in keys_:
                    expect.append("/".join(k_.split(" ")[0].split("/")[:2]).rstrip("."))
            if props:
                work.append(("mutants", label, os.path.join(sd, name, "patch.diff"), props, expect))
        for kind, name, path, props, expect in work:
            if True:
                r = subprocess.run(["patch", "-p1", "-s", "-i", path], cwd=scratch, stdout=subprocess.PIPE,
                                   stderr=subprocess.STDOUT, text=True)
                if r.returncode != 0:
                    results.append((kind, name, "PATCH-FAILED", r.stdout.strip()[:200]))
                    subprocess.run(["rsync", "-a", "--delete", "--exclude", "target", "--exclude", ".git", REPO + "/", scratch + "/"])
                    continue
                try:
                    for p in props:
                        rr = subprocess.run([os.path.join(VERIF, "check"), p], cwd=VERIF, env=env,
                                            stdout=subprocess.PIPE, stderr=subprocess.STDOUT, text=True)
                        out = rr.stdout
                        keys = re.findall(r"key=(\S+)", out)
                        if "EXTRACTION-FAILED" in out:
                            results.append((kind, name, "DOES-NOT-COMPILE", p))
                        elif kind == "mutants":
                            want = [e for e in expect if e.startswith(p)] or expect
                            hit = [k for k in keys if any(w in k for w in want)]
                            if rr.returncode == 1 and hit:
                                results.append((kind, name, "ok", "%s fired: %s" % (p, hit[0])))
                            elif rr.returncode == 1:
                                results.append((kind, name, "WRONG-INSTANCE", "%s fired %s, expected %s" % (p, keys[:3], want)))
                            else:
                                results.append((kind, name, "MISSED", "%s stayed silent (rc=%d)" % (p, rr.returncode)))
                        else:
                            if rr.returncode == 0 and "VIOLATION" not in out:
                                results.append((kind, name, "ok", "%s silent" % p))
                            else:
                                results.append((kind, name, "FALSE-ALARM", "%s: %s" % (p, keys[:3])))
                finally:
                    subprocess.run(["patch", "-p1", "-R", "-s", "-i", path], cwd=scratch, stdout=subprocess.DEVNULL)
    finally:
        shutil.rmtree(scratch, ignore_errors=True)
        shutil.rmtree(evdir, ignore_errors=True)
    bad = 0
    for kind, name, verdict, detail in results:
        print("%-10s %-55s %-16s %s" % (kind, name, verdict, detail))
        if verdict != "ok":
            bad += 1
    print("selftest: %d results, %d not ok" % (len(results), bad))
    return 1 if bad else 0


if __name__ == "__main__":
    sys.exit(main())
