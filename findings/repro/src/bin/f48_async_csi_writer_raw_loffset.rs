//! F48 (C16): the sync CSI writer writes, for every bin, the minimum of the bin's own first-record offset and those of its
//! (contiguously present) ancestors; the async CSI writer wrote the bin's own offset. For the same `write_index` call the two
//! writers' outputs decode to different indexes whenever an ancestor bin holds an earlier record.
use std::io;

use noodles_bgzf as bgzf;
use noodles_csi::{self as csi, binning_index::{Indexer, index::reference_sequence::{bin::Chunk, index::BinnedIndex}}};
use noodles_core::Position;

#[tokio::main(flavor = "current_thread")]
async fn main() -> io::Result<()> {
    let mut indexer = Indexer::<BinnedIndex>::new(14, 5);
    // a long feature first (lands in an inner bin, offset 0), then a short one in a leaf bin below it (offset 100)
    let recs = [(1usize, 40000usize, 0u64, 100u64), (100, 200, 100, 200)];
    for (s, e, a, b) in recs {
        let chunk = Chunk::new(bgzf::VirtualPosition::from(a << 16), bgzf::VirtualPosition::from(b << 16));
        indexer.add_record(Some((0, Position::try_from(s).unwrap(), Position::try_from(e).unwrap(), true)), chunk)?;
    }
    let index = indexer.build(1);

    let mut sync_writer = csi::io::Writer::new(Vec::new());
    sync_writer.write_index(&index)?;
    let sync_file = sync_writer.into_inner().finish()?;

    let mut async_writer = csi::r#async::io::Writer::new(Vec::new());
    async_writer.write_index(&index).await?;
    async_writer.shutdown().await?;
    let async_file: Vec<u8> = async_writer.into_inner().into_inner();

    let a = csi::io::Reader::new(&sync_file[..]).read_index()?;
    let b = csi::io::Reader::new(&async_file[..]).read_index()?;
    let mut bad = false;
    if a != b {
        println!("VIOLATED: the sync-written and the async-written index decode to different indexes");
        for (x, y) in a.reference_sequences().iter().zip(b.reference_sequences()) {
            println!("  sync  loffsets: {:?}", x.index());
            println!("  async loffsets: {:?}", y.index());
        }
        bad = true;
    }
    if decompress(&sync_file)? != decompress(&async_file)? {
        println!("VIOLATED: async and sync CSI writers emit different bytes for the same index");
        bad = true;
    }
    if bad { std::process::exit(1); }
    println!("holds");
    Ok(())
}

fn decompress(src: &[u8]) -> io::Result<Vec<u8>> {
    use std::io::Read;
    let mut r = bgzf::io::Reader::new(src);
    let mut out = Vec::new();
    r.read_to_end(&mut out)?;
    Ok(out)
}
