//! F5 (C15, C19): `cram::fs::index` on a multi-reference slice that holds a record with a reference sequence id but no
//! alignment start (a placed-unmapped read written with POS 0 — legal SAM) reaches `todo!("unhandled interval")`.
use std::{io, num::NonZero};

use noodles_core::Position;
use noodles_cram as cram;
use noodles_fasta as fasta;
use noodles_sam::{
    self as sam,
    alignment::{io::Write as _, record::Flags, record_buf::{QualityScores, Sequence}, RecordBuf},
    header::record::value::{Map, map::ReferenceSequence},
};

fn rec(name: &str, rid: usize, start: Option<usize>) -> RecordBuf {
    let mut b = RecordBuf::builder()
        .set_name(name)
        .set_flags(Flags::UNMAPPED)
        .set_reference_sequence_id(rid)
        .set_sequence(Sequence::from(b"ACGT"))
        .set_quality_scores(QualityScores::from(vec![30, 30, 30, 30]));
    if let Some(s) = start {
        b = b.set_alignment_start(Position::try_from(s).unwrap());
    }
    b.build()
}

fn main() -> io::Result<()> {
    let header = sam::Header::builder()
        .add_reference_sequence("sq0", Map::<ReferenceSequence>::new(NonZero::new(1000).unwrap()))
        .add_reference_sequence("sq1", Map::<ReferenceSequence>::new(NonZero::new(1000).unwrap()))
        .build();
    let path = std::env::temp_dir().join("f5_placed_without_start.cram");
    {
        let seq = vec![b'A'; 1000];
        let repository = fasta::Repository::new(vec![
            fasta::Record::new(fasta::record::Definition::new("sq0", None), fasta::record::Sequence::from(seq.clone())),
            fasta::Record::new(fasta::record::Definition::new("sq1", None), fasta::record::Sequence::from(seq)),
        ]);
        let mut writer = cram::io::writer::Builder::default()
            .set_reference_sequence_repository(repository)
            .build_from_writer(std::fs::File::create(&path)?);
        writer.write_header(&header)?;
        writer.write_alignment_record(&header, &rec("r0", 0, None))?;
        writer.write_alignment_record(&header, &rec("r1", 1, Some(5)))?;
        writer.try_finish(&header)?;
    }
    // the file reads back fine
    {
        let mut reader = cram::io::Reader::new(std::fs::File::open(&path)?);
        reader.read_header()?;
        let n = reader.records(&header).collect::<io::Result<Vec<_>>>()?.len();
        println!("scan: {n} records");
    }
    let p = path.clone();
    match std::panic::catch_unwind(move || cram::fs::index(&p)) {
        Ok(Ok(ix)) => println!("ok: indexed, {} entries", ix.len()),
        Ok(Err(e)) => println!("ok: index error: {e}"),
        Err(_) => {
            println!("DEFECT: cram::fs::index panics (todo!(\"unhandled interval\")) on a noodles-written file");
            std::process::exit(1)
        }
    }
    Ok(())
}
