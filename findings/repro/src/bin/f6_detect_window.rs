//! F6 (C12, C20): noodles-util autodetection inspects a single fill_buf() window. The same BAM bytes read back with
//! one reference sequence from a slice, and as an empty SAM (0 references, no error) from a source that delivers
//! one byte per read() call.
use std::io::{self, Read};

use noodles_bam as bam;
use noodles_sam::{
    self as sam,
    header::record::value::{Map, map::ReferenceSequence},
};
use noodles_util::alignment;
use std::num::NonZero;

struct OneByte<'a>(&'a [u8]);
impl Read for OneByte<'_> {
    fn read(&mut self, buf: &mut [u8]) -> io::Result<usize> {
        if self.0.is_empty() || buf.is_empty() {
            return Ok(0);
        }
        buf[0] = self.0[0];
        self.0 = &self.0[1..];
        Ok(1)
    }
}

fn main() -> io::Result<()> {
    let header = sam::Header::builder()
        .add_reference_sequence("sq0", Map::<ReferenceSequence>::new(NonZero::new(8).unwrap()))
        .build();
    let mut w = bam::io::Writer::new(Vec::new());
    w.write_header(&header)?;
    w.try_finish()?;
    let data = w.get_ref().get_ref().clone();

    let mut r = alignment::io::reader::Builder::default().build_from_reader(&data[..])?;
    let h1 = r.read_header()?;
    let mut r = alignment::io::reader::Builder::default().build_from_reader(OneByte(&data))?;
    let h2 = r.read_header();
    println!("slice source: {} reference sequence(s)", h1.reference_sequences().len());
    match h2 {
        Ok(h) => println!("1-byte source: Ok, {} reference sequence(s)", h.reference_sequences().len()),
        Err(e) => println!("1-byte source: Err({e})"),
    }
    Ok(())
}
