//! F52 (C15): the async gzi reader pre-sized its Vec with the entry count read from the file: a count of 2^60 panicked with
//! "capacity overflow" (the sync reader, which collects without pre-sizing, returns UnexpectedEof for the same bytes).
use noodles_bgzf::gzi;

#[tokio::main(flavor = "current_thread")]
async fn main() {
    let src = [0x00u8, 0x00, 0x00, 0x00, 0x00, 0x00, 0x00, 0x10];
    let s = gzi::io::Reader::new(&src[..]).read_index();
    println!("sync : {:?}", s.as_ref().map(|_| ()).map_err(|e| e.kind()));
    let r = tokio::task::spawn(async move {
        let mut reader = gzi::r#async::io::Reader::new(&src[..]);
        reader.read_index().await.map(|_| ())
    }).await;
    match r {
        Ok(res) => { println!("async: {:?}", res.map_err(|e| e.kind())); println!("holds (no panic)"); }
        Err(e) if e.is_panic() => { println!("VIOLATED: the async gzi reader panicked on a hostile entry count"); std::process::exit(1); }
        Err(e) => { println!("join error {e}"); std::process::exit(2); }
    }
}
