//! F24 (C17): `Bin::add_chunk` ("Adds or merges a chunk") merges an overlapping chunk as (last.start, chunk.end) without taking
//! the maximum of the two ends: adding a nested chunk SHRINKS the stored chunk and uncovers a file range that was covered.
use noodles_bgzf::VirtualPosition;
use noodles_csi::binning_index::index::reference_sequence::{Bin, bin::Chunk};

fn main() {
    let vp = |n: u64| VirtualPosition::from(n);
    let mut bin = Bin::new(Vec::new());
    bin.add_chunk(Chunk::new(vp(5), vp(21)));
    bin.add_chunk(Chunk::new(vp(8), vp(13))); // nested in the first
    let chunks = bin.chunks();
    println!("chunks after adding (5,21) then (8,13): {:?}", chunks.iter().map(|c| (u64::from(c.start()), u64::from(c.end()))).collect::<Vec<_>>());
    if chunks.len() == 1 && chunks[0].end() == vp(21) {
        println!("ok: the merged chunk still covers 5..21");
    } else {
        println!("DEFECT: merging a nested chunk uncovered 13..21");
        std::process::exit(1);
    }
}
