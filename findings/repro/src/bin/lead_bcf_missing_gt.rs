//! lead: VCF -> BCF of a record whose GT is missing for one sample (`.`)
use std::io;
use noodles_bcf as bcf;
use noodles_vcf::{self as vcf, variant::{io::Write as _, RecordBuf}};
fn main() -> io::Result<()> {
    for gt in ["0/1\t.", ".\t0/1", "./.\t0/1", ".\t."] {
        let text = format!("##fileformat=VCFv4.3\n##FORMAT=<ID=GT,Number=1,Type=String,Description=\"Genotype\">\n##FORMAT=<ID=DP,Number=1,Type=Integer,Description=\"d\">\n##contig=<ID=sq0,length=1000>\n#CHROM\tPOS\tID\tREF\tALT\tQUAL\tFILTER\tINFO\tFORMAT\ts0\ts1\nsq0\t1\t.\tA\tC\t.\t.\t.\tGT\t{gt}\n");
        let mut vr = vcf::io::Reader::new(text.as_bytes());
        let header = vr.read_header()?;
        let original: RecordBuf = vr.record_bufs(&header).next().unwrap()?;
        let mut w = bcf::io::Writer::new(Vec::new());
        w.write_variant_header(&header)?;
        let r = w.write_variant_record(&header, &original);
        // and through the lazy VCF record
        let mut vr2 = vcf::io::Reader::new(text.as_bytes());
        let h2 = vr2.read_header()?;
        let mut lazy = vcf::Record::default();
        vr2.read_record(&mut lazy)?;
        let mut w2 = bcf::io::Writer::new(Vec::new());
        w2.write_variant_header(&h2)?;
        let r2 = w2.write_variant_record(&h2, &lazy);
        println!("GT {:?}: eager -> {:?}; lazy -> {:?}", gt, r.map_err(|e| e.to_string()), r2.map_err(|e| e.to_string()));
    }
    Ok(())
}
