//! F65 (C07): the CRAM reader recomputed TLEN of mates stored "attached" (same slice) from their positions alone: a pair whose mates lie
//! on DIFFERENT reference sequences (TLEN 0 by the SAM specification) read back with the distance
//! between two unrelated coordinates (0/0 -> 21/-21).
use std::io;

use noodles_cram as cram;
use noodles_fasta as fasta;
use noodles_sam::{self as sam, alignment::{io::Write as _, record::{Flags, cigar::{Op, op::Kind}}, record_buf::{Cigar, QualityScores, Sequence}, RecordBuf},
    header::record::value::{Map, map::ReferenceSequence}};
use noodles_core::Position;
use std::num::NonZero;

fn main() -> io::Result<()> {
    let refs = vec![
        fasta::Record::new(fasta::record::Definition::new("sq0", None), fasta::record::Sequence::from(vec![b'A'; 200])),
        fasta::Record::new(fasta::record::Definition::new("sq1", None), fasta::record::Sequence::from(vec![b'C'; 200])),
    ];
    let repository = fasta::Repository::new(refs);
    let header = sam::Header::builder()
        .add_reference_sequence("sq0", Map::<ReferenceSequence>::new(NonZero::new(200).unwrap()))
        .add_reference_sequence("sq1", Map::<ReferenceSequence>::new(NonZero::new(200).unwrap()))
        .build();
    let mk = |flags: Flags, rid: usize, pos: usize, mrid: usize, mpos: usize, base: u8| RecordBuf::builder()
        .set_name("pair")
        .set_flags(flags)
        .set_reference_sequence_id(rid)
        .set_alignment_start(Position::new(pos).unwrap())
        .set_mapping_quality(sam::alignment::record::MappingQuality::new(30).unwrap())
        .set_cigar(Cigar::from(vec![Op::new(Kind::Match, 8)]))
        .set_mate_reference_sequence_id(mrid)
        .set_mate_alignment_start(Position::new(mpos).unwrap())
        .set_template_length(0)
        .set_sequence(Sequence::from(vec![base; 8]))
        .set_quality_scores(QualityScores::from(vec![30; 8]))
        .build();
    let records = [
        mk(Flags::SEGMENTED | Flags::FIRST_SEGMENT, 0, 20, 1, 33, b'A'),
        mk(Flags::SEGMENTED | Flags::LAST_SEGMENT, 1, 33, 0, 20, b'C'),
    ];
    let mut writer = cram::io::writer::Builder::default().set_reference_sequence_repository(repository.clone()).build_from_writer(Vec::new());
    writer.write_header(&header)?;
    for r in &records { writer.write_alignment_record(&header, r)?; }
    writer.try_finish(&header)?;
    let bytes = writer.get_ref().clone();

    let mut reader = cram::io::reader::Builder::default().set_reference_sequence_repository(repository).build_from_reader(&bytes[..]);
    let h = reader.read_header()?;
    let back: Vec<_> = reader.records(&h).collect::<io::Result<_>>()?;
    let tlens: Vec<i32> = back.iter().map(|r| r.template_length()).collect();
    println!("written TLEN [0, 0] (mates on sq0:20 and sq1:33), read back {:?}", tlens);
    if tlens != [0, 0] { println!("VIOLATED: TLEN of a pair spanning two references was recomputed from unrelated coordinates"); std::process::exit(1); }
    println!("holds");
    Ok(())
}
