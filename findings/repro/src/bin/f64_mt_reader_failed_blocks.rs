//! F64 (C03): the multithreaded BGZF reader dropped the pooled buffer of every block that failed to parse (the reader thread then waits for
//! a buffer that never comes back: after worker_count + 2 failed blocks a caller that keeps reading HANGS), and did not advance its
//! position over a failed frame (after F63 the single-threaded reader does: the two readers reported different virtual positions).
use std::io::{self, Read, Write};
use std::{num::NonZero, sync::mpsc, thread, time::Duration};

use noodles_bgzf as bgzf;

fn build(n_bad: usize) -> Vec<u8> {
    let mut w = bgzf::io::Writer::new(Vec::new());
    let mut starts = Vec::new();
    w.write_all(b"head").unwrap(); w.flush().unwrap();
    for _ in 0..n_bad { starts.push(u64::from(w.virtual_position()) >> 16); w.write_all(b"x").unwrap(); w.flush().unwrap(); }
    w.write_all(b"tail").unwrap();
    let mut data = w.finish().unwrap();
    for s in starts {
        let s = s as usize;
        let bsize = u16::from_le_bytes([data[s + 16], data[s + 17]]) as usize + 1;
        data[s + bsize - 8] ^= 0x01;
    }
    data
}

fn run<R: Read>(mut r: R, pos: impl Fn(&R) -> u64) -> (Vec<u8>, usize, Vec<u64>) {
    let (mut out, mut errors, mut positions) = (Vec::new(), 0, Vec::new());
    let mut buf = [0u8; 16];
    loop {
        match r.read(&mut buf) {
            Ok(0) => break,
            Ok(n) => { out.extend_from_slice(&buf[..n]); positions.push(pos(&r)); }
            Err(_) => { errors += 1; if errors > 100 { break; } }
        }
    }
    (out, errors, positions)
}

fn main() -> io::Result<()> {
    let mut bad = false;
    for n_bad in [1usize, 8] {
        let data = build(n_bad);
        let st = run(bgzf::io::Reader::new(&data[..]), |r| u64::from(r.virtual_position()) >> 16);
        let data2 = data.clone();
        let (tx, rx) = mpsc::channel();
        thread::spawn(move || {
            let r = bgzf::io::MultithreadedReader::with_worker_count(NonZero::new(2).unwrap(), io::Cursor::new(data2));
            let _ = tx.send(run(r, |r| u64::from(r.virtual_position()) >> 16));
        });
        match rx.recv_timeout(Duration::from_secs(10)) {
            Ok(mt) => {
                println!("{n_bad} corrupt block(s): ST {:?} errors {} positions {:?}; MT {:?} errors {} positions {:?}", String::from_utf8_lossy(&st.0), st.1, st.2, String::from_utf8_lossy(&mt.0), mt.1, mt.2);
                if st != mt { println!("VIOLATED: the multithreaded reader differs from the single-threaded reader"); bad = true; }
            }
            Err(_) => { println!("{n_bad} corrupt block(s): VIOLATED: the multithreaded reader HANGS (2 workers, 4 buffers)"); bad = true; }
        }
    }
    if bad { std::process::exit(1); }
    println!("holds");
    Ok(())
}
