//! F7 (C18): the GFF3 writer percent-encodes column 1 (seqid) but no read view decodes it, so a sequence id with a
//! reserved character does not round-trip: "sq 0" is written as "sq%200" and read back as "sq%200".
use std::io;

use noodles_core::Position;
use noodles_gff::{self as gff, feature::RecordBuf};

fn main() -> io::Result<()> {
    let record = RecordBuf::builder()
        .set_reference_sequence_name("sq 0")
        .set_start(Position::MIN)
        .set_end(Position::MIN)
        .build();
    let mut w = gff::io::Writer::new(Vec::new());
    w.write_record(&record)?;
    let text = String::from_utf8(w.into_inner()).unwrap();
    print!("written: {text}");
    let mut r = gff::io::Reader::new(text.as_bytes());
    let back = r.record_bufs().next().unwrap()?;
    println!("read back seqid: {:?}", back.reference_sequence_name());
    if back.reference_sequence_name() != record.reference_sequence_name() {
        println!("DEFECT REPRODUCED");
        std::process::exit(1);
    }
    Ok(())
}
