//! F3 (C04): BinnedIndex::min_offset returns the loffset of the first existing ancestor-or-self bin of the query start.
//! A long record that lives in an ancestor bin and starts earlier in the file is pruned by optimize_chunks, so a CSI
//! query misses a record that a linear scan (and the BAI-style linear index) keeps. F4 (C17): writing the same index
//! and reading it back does not give an equal index (the writer stores a transformed loffset).
use std::io;

use noodles_bgzf as bgzf;
use noodles_core::Position;
use noodles_csi::{
    self as csi, BinningIndex,
    binning_index::{Indexer, index::reference_sequence::{bin::Chunk, index::BinnedIndex}},
};

fn pos(n: usize) -> Position { Position::try_from(n).unwrap() }
fn vp(n: u64) -> bgzf::VirtualPosition { bgzf::VirtualPosition::from(n) }

fn main() -> io::Result<()> {
    // three records of one reference, sorted by start; (start, end, chunk in the file)
    let records = [(1, 200_000, 100u64, 200u64), (40_000, 40_010, 3000, 3100), (50_000, 50_010, 5000, 5100)];
    let mut indexer = Indexer::<BinnedIndex>::new(14, 5);
    for (s, e, b, en) in records {
        indexer.add_record(Some((0, pos(s), pos(e), true)), Chunk::new(vp(b), vp(en)))?;
    }
    let index = indexer.build(1);
    let q = (pos(50_005)..=pos(50_006)).into();
    let chunks = index.query(0, q)?;
    println!("query 50005-50006 -> chunks {:?}", chunks.iter().map(|c| (u64::from(c.start()), u64::from(c.end()))).collect::<Vec<_>>());
    let covers_long = chunks.iter().any(|c| u64::from(c.start()) <= 100 && u64::from(c.end()) >= 200);
    println!("record [1,200000] at file offset 100 intersects the region; covered by the chunks: {covers_long}");

    let mut w = csi::io::Writer::new(Vec::new());
    w.write_index(&index)?;
    let data = w.into_inner().finish()?;
    let back = csi::io::Reader::new(&data[..]).read_index()?;
    let same = format!("{:?}", back.reference_sequences()) == format!("{:?}", index.reference_sequences());
    println!("read(write(index)) == index: {same}");
    if !covers_long {
        println!("DEFECT REPRODUCED (F3)");
        std::process::exit(1);
    }
    Ok(())
}
