//! F21 (C07, C15; C08 territory): a CRAM written by noodles with the rANS Nx16 codec as block encoder does not read back
//! with noodles' own reader.
use std::io;

use noodles_cram::{self as cram, codecs::{Encoder, rans_nx16}, container::{BlockContentEncoderMap, compression_header::data_series_encodings::DataSeries}};
use noodles_sam::{
    self as sam,
    alignment::{io::Write as _, record::Flags, record_buf::{QualityScores, Sequence}, RecordBuf},
};

fn main() -> io::Result<()> {
    let header = sam::Header::default();
    let mut failures = 0;
    // the same data through the other block codecs (rANS 4x8 order 0/1, adaptive arithmetic coder order 0/1)
    for (label, encoder) in [
        ("rans4x8 o0", Encoder::Rans4x8(cram::codecs::rans_4x8::Order::Zero)),
        ("rans4x8 o1", Encoder::Rans4x8(cram::codecs::rans_4x8::Order::One)),
        ("aac o0", Encoder::AdaptiveArithmeticCoding(cram::codecs::aac::Flags::empty())),
        ("aac o1", Encoder::AdaptiveArithmeticCoding(cram::codecs::aac::Flags::ORDER)),
        ("fqzcomp", Encoder::Fqzcomp),
    ] {
        for n in [1usize, 10, 300, 3000] {
            let map = BlockContentEncoderMap::builder()
                .set_data_series_encoder(DataSeries::QualityScores, Some(encoder.clone()))
                .build();
            let result = std::panic::catch_unwind(|| -> io::Result<usize> {
                let mut writer = cram::io::writer::Builder::default().set_block_content_encoder_map(map).build_from_writer(Vec::new());
                writer.write_header(&header)?;
                for i in 0..n {
                    let seq: Vec<u8> = (0..50).map(|j| b"ACGT"[(i * 7 + j * 3) % 4]).collect();
                    let qual: Vec<u8> = (0..50).map(|j| ((i * 31 + j * j * 17 + (i >> 3)) % 42) as u8).collect();
                    let record = RecordBuf::builder().set_name(format!("r{i}")).set_flags(Flags::UNMAPPED)
                        .set_sequence(Sequence::from(seq)).set_quality_scores(QualityScores::from(qual)).build();
                    writer.write_alignment_record(&header, &record)?;
                }
                writer.try_finish(&header)?;
                let data = writer.get_ref().clone();
                let mut reader = cram::io::Reader::new(&data[..]);
                let h = reader.read_header()?;
                let mut m = 0;
                for r in reader.records(&h) { r?; m += 1; }
                Ok(m)
            });
            match result {
                Ok(Ok(m)) if m == n => {}
                other => { println!("{label}, {n} records: {other:?}"); failures += 1; }
            }
        }
    }
    for (label, flags) in [
        ("order 0", rans_nx16::Flags::empty()),
        ("order 1", rans_nx16::Flags::ORDER),
        ("order 0 + pack", rans_nx16::Flags::PACK),
        ("order 0 + rle", rans_nx16::Flags::RLE),
        ("order 1 + stripe", rans_nx16::Flags::ORDER | rans_nx16::Flags::STRIPE),
    ] {
        for n in [1usize, 10, 300, 3000, 26314] {
            let map = if label.starts_with("order 1") {
                BlockContentEncoderMap::builder()
                    .set_data_series_encoder(DataSeries::BamFlags, Some(Encoder::RansNx16(rans_nx16::Flags::empty())))
                    .set_data_series_encoder(DataSeries::QualityScores, Some(Encoder::RansNx16(flags)))
                    .build()
            } else {
                BlockContentEncoderMap::builder().set_default_encoder(Some(Encoder::RansNx16(flags))).build()
            };
            let result = std::panic::catch_unwind(|| -> io::Result<usize> {
                let mut writer = cram::io::writer::Builder::default()
                    .set_block_content_encoder_map(map)
                    .build_from_writer(Vec::new());
                writer.write_header(&header)?;
                for i in 0..n {
                    let seq: Vec<u8> = (0..50).map(|j| b"ACGT"[(i * 7 + j * 3) % 4]).collect();
                    let qual: Vec<u8> = (0..50).map(|j| ((i * 31 + j * j * 17 + (i >> 3)) % 42) as u8).collect();
                    let record = RecordBuf::builder()
                        .set_name(format!("r{i}"))
                        .set_flags(Flags::UNMAPPED)
                        .set_sequence(Sequence::from(seq))
                        .set_quality_scores(QualityScores::from(qual))
                        .build();
                    writer.write_alignment_record(&header, &record)?;
                }
                writer.try_finish(&header)?;
                let data = writer.get_ref().clone();
                let mut reader = cram::io::Reader::new(&data[..]);
                let h = reader.read_header()?;
                let mut m = 0;
                for r in reader.records(&h) {
                    r?;
                    m += 1;
                }
                Ok(m)
            });
            match result {
                Ok(Ok(m)) if m == n => {}
                Ok(Ok(m)) => {
                    println!("{label}, {n} records: read back {m}");
                    failures += 1;
                }
                Ok(Err(e)) => {
                    println!("{label}, {n} records: {e}");
                    failures += 1;
                }
                Err(_) => {
                    println!("{label}, {n} records: PANIC");
                    failures += 1;
                }
            }
        }
    }
    if failures > 0 {
        println!("DEFECT: {failures} of 25 rANS Nx16 configurations do not round-trip through noodles' own writer and reader");
        std::process::exit(1);
    }
    println!("ok: all rANS Nx16 configurations round-trip");
    Ok(())
}
