//! F33 (C12, C11): the sync FASTQ definition reader strips the CR of a CRLF only when it is in the same fill_buf window as the LF:
//! with a refill boundary between CR and LF the CR stays in the read name (or the description).
use std::io::BufReader;

use noodles_fastq as fastq;

fn main() {
    let data = b"@r0\r\nACGT\r\n+\r\nIIII\r\n@r1 desc\r\nAC\r\n+\r\nII\r\n";
    let mut bad = Vec::new();
    for cap in 1..=48 {
        let mut reader = fastq::io::Reader::new(BufReader::with_capacity(cap, &data[..]));
        let mut names = Vec::new();
        for r in reader.records() {
            let r = r.expect("record");
            names.push((r.name().to_vec(), r.description().to_vec(), r.sequence().to_vec(), r.quality_scores().to_vec()));
        }
        let expected = vec![
            (b"r0".to_vec(), b"".to_vec(), b"ACGT".to_vec(), b"IIII".to_vec()),
            (b"r1".to_vec(), b"desc".to_vec(), b"AC".to_vec(), b"II".to_vec()),
        ];
        if names != expected {
            bad.push((cap, names));
        }
    }
    if bad.is_empty() {
        println!("holds: the same records for every BufReader capacity 1..=48");
    } else {
        for (cap, names) in bad.iter().take(4) {
            println!("capacity {cap}: {:?}", names.iter().map(|(n, d, s, q)| (String::from_utf8_lossy(n).into_owned(), String::from_utf8_lossy(d).into_owned(), String::from_utf8_lossy(s).into_owned(), String::from_utf8_lossy(q).into_owned())).collect::<Vec<_>>());
        }
        println!("VIOLATED: {} of 48 buffer capacities change the decoded records", bad.len());
        std::process::exit(1);
    }
}
