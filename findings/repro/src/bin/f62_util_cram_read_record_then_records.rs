//! F62 (C20): the generic alignment reader lost records of a CRAM file when `read_record` was followed by `records()`: read_record goes
//! through cram::io::BufReader, which decodes a whole container at a time and buffers it; records() bypassed that buffer
//! (`reader.get_mut().records()`), so the rest of the buffered container was silently dropped (BAM / SAM continue where they were).
use std::io;

use noodles_sam::{self as sam, alignment::{io::Write as _, RecordBuf, record_buf::{QualityScores, Sequence}}};
use noodles_util::alignment;

fn count(format: alignment::io::Format) -> io::Result<(usize, usize)> {
    let header = sam::Header::default();
    let mut buf = Vec::new();
    {
        let mut writer = alignment::io::writer::Builder::default().set_format(format).build_from_writer(&mut buf)?;
        writer.write_header(&header)?;
        for i in 0..3 {
            let rec = RecordBuf::builder()
                .set_name(format!("r{i}"))
                .set_flags(sam::alignment::record::Flags::UNMAPPED)
                .set_sequence(Sequence::from(b"ACGT".to_vec()))
                .set_quality_scores(QualityScores::from(vec![30, 30, 30, 30]))
                .build();
            writer.write_record(&header, &rec)?;
        }
        writer.finish(&header)?;
    }
    let mut reader = alignment::io::reader::Builder::default().build_from_reader(&buf[..])?;
    let h = reader.read_header()?;
    let mut record = alignment::Record::default();
    let first = reader.read_record(&h, &mut record)?;
    let mut rest = 0;
    for r in reader.records(&h) { r?; rest += 1; }
    Ok((if first == 0 { 0 } else { 1 }, rest))
}

fn main() -> io::Result<()> {
    let mut bad = 0;
    for (name, format) in [("SAM", alignment::io::Format::Sam), ("BAM", alignment::io::Format::Bam), ("CRAM", alignment::io::Format::Cram)] {
        let (a, b) = count(format)?;
        println!("{name}: read_record -> {a}, then records() -> {b} more (3 written)");
        if a + b != 3 { bad += 1; }
    }
    if bad > 0 { println!("VIOLATED: records lost when read_record is followed by records()"); std::process::exit(1); }
    println!("holds");
    Ok(())
}
