//! F56 (C10): the lazy BCF INFO reader returned a SCALAR for an array-typed Integer field (Number=A/R/G/.) holding one value that needs
//! int16 or int32 (`AC=300`): the int8 arm of read_integer_array_value wraps the value in a one-element array, the int16 / int32 arms
//! were copied from the scalar reader. Eager and lazy views disagreed, and the lazy record did not convert back to what was written.
use std::io;

use noodles_bcf as bcf;
use noodles_vcf::{self as vcf, variant::{io::Write as _, RecordBuf}};

fn main() -> io::Result<()> {
    let text = "##fileformat=VCFv4.3\n##INFO=<ID=AC,Number=A,Type=Integer,Description=\"Allele count\">\n##contig=<ID=sq0,length=1000>\n#CHROM\tPOS\tID\tREF\tALT\tQUAL\tFILTER\tINFO\nsq0\t1\t.\tA\tC\t.\t.\tAC=3\nsq0\t2\t.\tA\tC\t.\t.\tAC=300\nsq0\t3\t.\tA\tC\t.\t.\tAC=70000\n";
    let mut vr = vcf::io::Reader::new(text.as_bytes());
    let header = vr.read_header()?;
    let originals: Vec<RecordBuf> = vr.record_bufs(&header).collect::<io::Result<_>>()?;

    let mut w = bcf::io::Writer::new(Vec::new());
    w.write_variant_header(&header)?;
    for r in &originals { w.write_variant_record(&header, r)?; }
    w.try_finish()?;
    let bytes = w.into_inner().into_inner();

    let mut br = bcf::io::Reader::new(&bytes[..]);
    let header2 = br.read_header()?;
    let mut bad = 0;
    for (i, original) in originals.iter().enumerate() {
        let mut lazy = bcf::Record::default();
        br.read_record(&mut lazy)?;
        let back = RecordBuf::try_from_variant_record(&header2, &lazy)?;
        let ok = back.info() == original.info();
        println!("record {}: written {:?}, lazy read {:?}{}", i, original.info().get("AC"), back.info().get("AC"), if ok { "" } else { "  <-- differ" });
        if !ok { bad += 1; }
    }
    if bad > 0 { println!("VIOLATED: {bad} record(s) read back with a scalar for an array-typed INFO field"); std::process::exit(1); }
    println!("holds");
    Ok(())
}
