//! F44 (C05): a BAM record with more than 65535 CIGAR operations, read as a lazy bam::Record and written back through the BAM
//! writer, gets TWO CG fields (the carrier tag copied from the raw data and the one the encoder appends): the output does not
//! decode (DuplicateTag(CG)).
use std::io;

use noodles_bam as bam;
use noodles_core::Position;
use noodles_sam::{self as sam, alignment::{io::Write as _, record::cigar::{op::Kind, Op}, record::{Flags, MappingQuality}, record_buf::{Cigar, QualityScores, Sequence}, RecordBuf}, header::record::value::{map::ReferenceSequence, Map}};

fn main() -> io::Result<()> {
    let header = sam::Header::builder().add_reference_sequence("sq0", Map::<ReferenceSequence>::new(std::num::NonZero::new(1 << 28).unwrap())).build();
    let n = 70000;
    let ops: Vec<Op> = (0..n).map(|i| Op::new(if i % 2 == 0 { Kind::Match } else { Kind::Deletion }, 1)).collect();
    let read_len = ops.iter().filter(|o| o.kind() == Kind::Match).count();
    let record = RecordBuf::builder().set_name("r0").set_flags(Flags::empty()).set_reference_sequence_id(0).set_alignment_start(Position::MIN)
        .set_mapping_quality(MappingQuality::new(30).unwrap()).set_cigar(Cigar::from(ops)).set_sequence(Sequence::from(vec![b'A'; read_len]))
        .set_quality_scores(QualityScores::from(vec![30; read_len])).build();

    let mut writer = bam::io::Writer::new(Vec::new());
    writer.write_header(&header)?;
    writer.write_alignment_record(&header, &record)?;
    let first = writer.into_inner().finish()?;

    // lazy read, write back
    let mut reader = bam::io::Reader::new(&first[..]);
    let h = reader.read_header()?;
    let mut lazy = bam::Record::default();
    reader.read_record(&mut lazy)?;
    let mut writer = bam::io::Writer::new(Vec::new());
    writer.write_header(&h)?;
    writer.write_alignment_record(&h, &lazy)?;
    let second = writer.into_inner().finish()?;

    let mut reader = bam::io::Reader::new(&second[..]);
    let h = reader.read_header()?;
    let mut back = RecordBuf::default();
    match reader.read_record_buf(&h, &mut back) {
        Ok(_) if back.cigar().as_ref().len() == n && back.data().is_empty() => println!("holds: {} ops, no leftover tag", back.cigar().as_ref().len()),
        Ok(_) => { println!("VIOLATED: re-written record decodes to {} ops and {} data fields", back.cigar().as_ref().len(), back.data().len()); std::process::exit(1); }
        Err(e) => { println!("VIOLATED: the re-written record does not decode: {e}"); std::process::exit(1); }
    }
    Ok(())
}
