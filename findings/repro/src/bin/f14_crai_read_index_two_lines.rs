//! F14 (C19, C17): `crai::io::Reader::read_index` (and its async twin) passes one line buffer to `read_record` for every
//! line and never clears it; `BufRead::read_line` appends, so the second line is parsed as
//! "<line 1><line 2>" and the sixth field ("317811" + "0") followed by more tabs fails to parse. Every CRAI with
//! more than one entry — i.e. every real index, including the one noodles' own writer produces — is unreadable
//! through `read_index` (and hence `crai::fs::read` and the indexed CRAM reader builder).
use std::io;

use noodles_core::Position;
use noodles_cram::crai;

fn main() -> io::Result<()> {
    let index = vec![
        crai::Record::new(Some(0), Position::new(1), 100, 26, 0, 100),
        crai::Record::new(Some(0), Position::new(101), 100, 126, 0, 100),
    ];
    // noodles' own writer output
    let mut writer = crai::io::Writer::new(Vec::new());
    writer.write_index(&index)?;
    let text = writer.finish()?;
    let mut reader = crai::io::Reader::new(&text[..]);
    match reader.read_index() {
        Ok(read) if read == index => {
            println!("ok: two-line CRAI read back as written");
            Ok(())
        }
        Ok(read) => {
            println!("DEFECT: read {} records, not equal to what was written", read.len());
            std::process::exit(1)
        }
        Err(e) => {
            println!("DEFECT: read_index fails on a two-line CRAI: {e}");
            std::process::exit(1)
        }
    }
}
