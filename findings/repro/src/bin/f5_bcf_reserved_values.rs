//! F5/BCF (C15): reserved / end-of-vector codes in a typed value are plain file-provided bytes, yet the decoders and
//! the lazy sample accessors hit `todo!()` on them. A valid BCF written by noodles is patched in one byte
//! (sample DP Int8 value 5 -> 0x81 = end-of-vector) and then read back eagerly and lazily.
use std::io;

use noodles_bcf as bcf;
use noodles_vcf::{
    self as vcf,
    header::record::value::{Map, map::{Contig, Format}},
    variant::{io::Write as _, record_buf::{Samples, samples::{Keys, sample::Value}}, RecordBuf},
};
use noodles_core::Position;

fn main() -> io::Result<()> {
    std::panic::set_hook(Box::new(|_| {}));
    let header = vcf::Header::builder()
        .add_contig("sq0", Map::<Contig>::new())
        .add_format("DP", Map::<Format>::from("DP"))
        .add_sample_name("s0")
        .build();
    let keys: Keys = [String::from("DP")].into_iter().collect();
    let samples = Samples::new(keys, vec![vec![Some(Value::from(5))]]);
    let record = RecordBuf::builder()
        .set_reference_sequence_name("sq0")
        .set_variant_start(Position::MIN)
        .set_reference_bases("A")
        .set_samples(samples)
        .build();
    let mut w = bcf::io::Writer::from(Vec::new());
    w.write_variant_header(&header)?;
    w.write_variant_record(&header, &record)?;
    let mut data = w.into_inner();
    // the last byte of the stream is the DP value of the single sample
    assert_eq!(*data.last().unwrap(), 5);
    *data.last_mut().unwrap() = 0x81;

    let d = data.clone();
    let eager = std::panic::catch_unwind(move || {
        let mut r = bcf::io::Reader::from(&d[..]);
        let h = r.read_header().unwrap();
        let mut rec = RecordBuf::default();
        r.read_record_buf(&h, &mut rec).map(|_| ()).map_err(|e| e.to_string())
    });
    println!("eager read_record_buf: {:?}", eager.as_ref().map_err(|_| "PANIC"));
    let lazy = std::panic::catch_unwind(move || {
        let mut r = bcf::io::Reader::from(&data[..]);
        let h = r.read_header().unwrap();
        let mut rec = bcf::Record::default();
        r.read_record(&mut rec).unwrap();
        let samples = rec.samples().unwrap();
        let series = samples.series().next().unwrap().unwrap();
        series.get(&h, 0).map(|v| v.map(|_| ()))
    });
    println!("lazy Series::get: {:?}", lazy.as_ref().map_err(|_| "PANIC"));
    if eager.is_err() || lazy.is_err() {
        println!("DEFECT REPRODUCED");
        std::process::exit(1);
    }
    Ok(())
}
