//! F53 (C15): the lazy GFF record's `attributes().iter()` yielded the same error for ever once a field had no `=` (field::next does not
//! advance the cursor on that error): `count()` / `filter_map(Result::ok)` over the attributes of a line cut inside a tag never ended.
use noodles_gff as gff;

fn main() {
    let src = b"sq0\t.\tgene\t1\t10\t.\t+\t.\tID=1;Name\n";
    let mut reader = gff::io::Reader::new(&src[..]);
    let mut line = gff::Line::default();
    reader.read_line(&mut line).expect("read_line");
    let record = line.as_record().expect("record").expect("valid record");
    let attributes = record.attributes();
    let mut n = 0usize;
    let mut errors = 0usize;
    for result in attributes.iter() {
        n += 1;
        if result.is_err() { errors += 1; }
        if n >= 100_000 { break; }
    }
    println!("items yielded: {n} ({errors} errors)");
    if n >= 100_000 {
        println!("VIOLATED: the attributes iterator does not terminate on a field without '='");
        std::process::exit(1);
    }
    println!("holds");
}
