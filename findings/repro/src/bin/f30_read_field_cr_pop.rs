//! F30 (C15): the lazy line readers of VCF, SAM and BED strip a trailing CR from the WHOLE line buffer when the last field they read
//! ended the line. When that last field is empty and the previous field ends in CR, the byte removed belongs to the previous field:
//! its recorded end is now past the end of the buffer and an accessor of the record that was returned Ok panics.
use std::panic::catch_unwind;

fn main() {
    let mut failures = 0;

    // VCF: FILTER = ".\r", INFO empty
    let r = catch_unwind(|| {
        let data = b".\t1\t.\tN\t.\t.\t.\r\t\n";
        let mut reader = noodles_vcf::io::Reader::new(&data[..]);
        let mut record = noodles_vcf::Record::default();
        let n = reader.read_record(&mut record).expect("read_record");
        let _ = format!("{:?}", record.filters().as_ref());
        let _ = format!("{:?}", record.info().as_ref());
        n
    });
    println!("vcf: {:?}", r.as_ref().map_err(|_| "PANIC in an accessor of a record returned Ok"));
    failures += r.is_err() as i32;

    // SAM: SEQ = "A\r", QUAL empty
    let r = catch_unwind(|| {
        let data = b"r0\t4\t*\t0\t255\t*\t*\t0\t0\tA\r\t\n";
        let mut reader = noodles_sam::io::Reader::new(&data[..]);
        let mut record = noodles_sam::Record::default();
        let n = reader.read_record(&mut record).expect("read_record");
        let _ = record.sequence().as_ref().len();
        let _ = record.quality_scores().as_ref().len();
        n
    });
    println!("sam: {:?}", r.as_ref().map_err(|_| "PANIC in an accessor of a record returned Ok"));
    failures += r.is_err() as i32;

    // BED3: feature start = "0\r", feature end empty
    let r = catch_unwind(|| {
        let data = b"sq0\t0\r\t\n";
        let mut reader = noodles_bed::io::Reader::<3, _>::new(&data[..]);
        let mut record = noodles_bed::Record::<3>::default();
        let n = reader.read_record(&mut record).expect("read_record");
        let _ = record.feature_start();
        let _ = record.feature_end();
        n
    });
    println!("bed: {:?}", r.as_ref().map_err(|_| "PANIC in an accessor of a record returned Ok"));
    failures += r.is_err() as i32;

    // the same through the helper that reads the rest of the line: VCF INFO = "DP=1\r", then an empty tail
    let r = catch_unwind(|| {
        let data = b".\t1\t.\tN\t.\t.\t.\tDP=1\r\t\n";
        let mut reader = noodles_vcf::io::Reader::new(&data[..]);
        let mut record = noodles_vcf::Record::default();
        let n = reader.read_record(&mut record).expect("read_record");
        let _ = format!("{:?}", record.info().as_ref());
        let _ = record.samples().as_ref().len();
        n
    });
    println!("vcf (tail): {:?}", r.as_ref().map_err(|_| "PANIC in an accessor of a record returned Ok"));
    failures += r.is_err() as i32;

    // SAM QUAL = "I\r", then an empty data tail
    let r = catch_unwind(|| {
        let data = b"r0\t4\t*\t0\t255\t*\t*\t0\t0\tA\tI\r\t\n";
        let mut reader = noodles_sam::io::Reader::new(&data[..]);
        let mut record = noodles_sam::Record::default();
        let n = reader.read_record(&mut record).expect("read_record");
        let _ = record.quality_scores().as_ref().len();
        let _ = record.data().as_ref().len();
        n
    });
    println!("sam (tail): {:?}", r.as_ref().map_err(|_| "PANIC in an accessor of a record returned Ok"));
    failures += r.is_err() as i32;

    if failures > 0 {
        println!("VIOLATED: {failures} reader(s) returned Ok for a record whose accessors panic");
        std::process::exit(1);
    }
    println!("holds");
}
