//! F39 (C07): a CRAM written with a CRAM 3.1 codec declares version 3.0 when the codec is fqzcomp, or when a 3.1 codec is only set
//! as the DEFAULT block encoder: the file definition says 3.0 while its blocks use compression methods 5-8.
use std::io;

use noodles_cram::{self as cram, codecs::{Encoder, rans_nx16, aac}, container::{BlockContentEncoderMap, compression_header::data_series_encodings::DataSeries}};
use noodles_sam::{self as sam, alignment::{io::Write as _, record::Flags, record_buf::{QualityScores, Sequence}, RecordBuf}};

fn version_and_methods(map: BlockContentEncoderMap) -> io::Result<((u8, u8), Vec<u8>)> {
    let header = sam::Header::default();
    let mut writer = cram::io::writer::Builder::default().set_block_content_encoder_map(map).build_from_writer(Vec::new());
    writer.write_header(&header)?;
    for i in 0..50 {
        let record = RecordBuf::builder().set_name(format!("r{i}")).set_flags(Flags::UNMAPPED)
            .set_sequence(Sequence::from(b"ACGTACGTAC".to_vec())).set_quality_scores(QualityScores::from(vec![30 + (i % 7) as u8; 10])).build();
        writer.write_alignment_record(&header, &record)?;
    }
    writer.try_finish(&header)?;
    let data = writer.get_ref().clone();
    // file definition: "CRAM", major, minor
    let version = (data[4], data[5]);
    // compression methods of the external blocks: scan for [method][content type 4][content id < 0x80]
    let mut methods: Vec<u8> = Vec::new();
    for i in 26..data.len().saturating_sub(3) {
        if data[i + 1] == 4 && data[i] >= 5 && data[i] <= 8 && data[i + 2] < 0x40 && !methods.contains(&data[i]) { methods.push(data[i]); }
    }
    Ok((version, methods))
}

fn main() -> io::Result<()> {
    let cases: Vec<(&str, BlockContentEncoderMap)> = vec![
        ("rANS Nx16 on a series", BlockContentEncoderMap::builder().set_data_series_encoder(DataSeries::QualityScores, Some(Encoder::RansNx16(rans_nx16::Flags::empty()))).build()),
        ("fqzcomp on the quality scores", BlockContentEncoderMap::builder().set_data_series_encoder(DataSeries::QualityScores, Some(Encoder::Fqzcomp)).build()),
        ("rANS Nx16 as the default encoder", BlockContentEncoderMap::builder().set_default_encoder(Some(Encoder::RansNx16(rans_nx16::Flags::empty()))).build()),
        ("arithmetic coder as the default encoder", BlockContentEncoderMap::builder().set_default_encoder(Some(Encoder::AdaptiveArithmeticCoding(aac::Flags::empty()))).build()),
    ];
    let mut bad = 0;
    for (label, map) in cases {
        let (version, methods) = version_and_methods(map)?;
        println!("{label}: file definition version {}.{}", version.0, version.1);
        if version != (3, 1) { bad += 1; }
        let _ = methods;
    }
    if bad > 0 { println!("VIOLATED: {bad} files use a CRAM 3.1 codec and declare version 3.0"); std::process::exit(1); }
    println!("holds");
    Ok(())
}
