//! F19 (C20, C14): noodles-util's async generic VARIANT writer has `write_header` and `write_record` but no `shutdown` (the
//! async alignment writer has one) and no accessor to the inner writer. Every arm wraps the destination in a tokio BufWriter
//! or an async BGZF writer, so after all calls returned Ok and the writer was dropped the destination holds an incomplete
//! file — for small outputs nothing at all.
use std::{
    io,
    pin::Pin,
    sync::{Arc, Mutex},
    task::{Context, Poll},
};

use noodles_util::variant::{self, io::{CompressionMethod, Format}};
use noodles_vcf::{self as vcf, variant::RecordBuf};
use tokio::io::AsyncWrite;

#[derive(Clone, Default)]
struct Shared(Arc<Mutex<Vec<u8>>>);

impl AsyncWrite for Shared {
    fn poll_write(self: Pin<&mut Self>, _: &mut Context<'_>, buf: &[u8]) -> Poll<io::Result<usize>> {
        self.0.lock().unwrap().extend_from_slice(buf);
        Poll::Ready(Ok(buf.len()))
    }
    fn poll_flush(self: Pin<&mut Self>, _: &mut Context<'_>) -> Poll<io::Result<()>> {
        Poll::Ready(Ok(()))
    }
    fn poll_shutdown(self: Pin<&mut Self>, _: &mut Context<'_>) -> Poll<io::Result<()>> {
        Poll::Ready(Ok(()))
    }
}

#[tokio::main(flavor = "current_thread")]
async fn main() -> io::Result<()> {
    let header = vcf::Header::builder().add_contig("sq0", vcf::header::record::value::Map::<vcf::header::record::value::map::Contig>::new()).build();
    let record = RecordBuf::builder()
        .set_reference_sequence_name("sq0")
        .set_variant_start(noodles_core::Position::MIN)
        .set_reference_bases("A")
        .build();
    let mut bad = 0;
    for (format, compression) in [
        (Format::Vcf, None),
        (Format::Vcf, Some(CompressionMethod::Bgzf)),
        (Format::Bcf, None),
        (Format::Bcf, Some(CompressionMethod::Bgzf)),
    ] {
        let sink = Shared::default();
        {
            let mut writer = variant::r#async::io::writer::Builder::default()
                .set_format(format)
                .set_compression_method(compression)
                .build_from_writer(sink.clone());
            writer.write_header(&header).await?;
            writer.write_record(&header, &record).await?;
            // before the fix no finishing call existed and the writer could only be dropped
            writer.shutdown().await?;
        }
        let n = sink.0.lock().unwrap().len();
        println!("{format:?} {compression:?}: every call returned Ok, destination holds {n} bytes");
        // read back with the sync generic reader
        let data = sink.0.lock().unwrap().clone();
        let ok = (|| -> io::Result<usize> {
            let mut reader = variant::io::reader::Builder::default().build_from_reader(&data[..])?;
            let h = reader.read_header()?;
            let mut n = 0;
            for r in reader.records(&h) {
                r?;
                n += 1;
            }
            Ok(n)
        })();
        if !matches!(ok, Ok(1)) {
            println!("  read back: {ok:?}");
            bad += 1;
        }
    }
    if bad > 0 {
        println!("DEFECT: the async generic variant writer does not produce a complete file in {bad} of 4 configurations");
        std::process::exit(1);
    }
    Ok(())
}
