//! F60 (C10): copying a BCF record through the lazy `bcf::Record` corrupted per-sample arrays of unequal length: the lazy array's
//! `len()` counted the end-of-vector padding that `iter()` drops, so the encoder (which pads with `max_len - len()`) added no padding
//! and the series came out short: `GT:XD 0/1:1,2,3 0/0:4` copied BCF -> bcf::Record -> BCF did not decode.
use std::io;

use noodles_bcf as bcf;
use noodles_vcf::{self as vcf, variant::{io::Write as _, RecordBuf}};

fn main() -> io::Result<()> {
    let text = "##fileformat=VCFv4.3\n##FORMAT=<ID=GT,Number=1,Type=String,Description=\"Genotype\">\n##FORMAT=<ID=XD,Number=.,Type=Integer,Description=\"x\">\n##FORMAT=<ID=XF,Number=.,Type=Float,Description=\"x\">\n##contig=<ID=sq0,length=1000>\n#CHROM\tPOS\tID\tREF\tALT\tQUAL\tFILTER\tINFO\tFORMAT\ts0\ts1\nsq0\t1\t.\tA\tC\t.\t.\t.\tGT:XD:XF\t0/1:1,2,3:0.5,1.5\t0/0:4:2.5\nsq0\t2\t.\tA\tC\t.\t.\t.\tGT:XD\t0/1:300,2,3\t0/0:4\n";
    let mut vr = vcf::io::Reader::new(text.as_bytes());
    let header = vr.read_header()?;
    let originals: Vec<RecordBuf> = vr.record_bufs(&header).collect::<io::Result<_>>()?;

    let mut w = bcf::io::Writer::new(Vec::new());
    w.write_variant_header(&header)?;
    for r in &originals { w.write_variant_record(&header, r)?; }
    w.try_finish()?;
    let first = w.into_inner().into_inner();

    // copy: BCF -> lazy bcf::Record -> BCF
    let mut br = bcf::io::Reader::new(&first[..]);
    let h2 = br.read_header()?;
    let mut w2 = bcf::io::Writer::new(Vec::new());
    w2.write_variant_header(&h2)?;
    let mut lazy = bcf::Record::default();
    while br.read_record(&mut lazy)? != 0 { w2.write_variant_record(&h2, &lazy)?; }
    w2.try_finish()?;
    let second = w2.into_inner().into_inner();

    let mut br2 = bcf::io::Reader::new(&second[..]);
    let h3 = br2.read_header()?;
    let mut bad = 0;
    for (i, (result, original)) in br2.record_bufs(&h3).zip(&originals).enumerate() {
        match result {
            Ok(r) if r.samples() == original.samples() => println!("record {i}: copy reads back equal"),
            Ok(r) => { println!("record {i}: copy reads back DIFFERENT: {:?}", r.samples()); bad += 1; }
            Err(e) => { println!("record {i}: copy does not decode: {e}"); bad += 1; }
        }
    }
    if bad > 0 { println!("VIOLATED: {bad} record(s) corrupted by a lazy BCF -> BCF copy"); std::process::exit(1); }
    println!("holds");
    Ok(())
}
