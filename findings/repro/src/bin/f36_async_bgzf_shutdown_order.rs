//! F36 (C14, C01, C16): the async BGZF writer's poll_shutdown closes its sink — which shuts the DESTINATION down — before it
//! writes the EOF block, and never flushes afterwards. With a buffering destination (tokio::io::BufWriter) the EOF block stays
//! in the buffer: every call returns Ok and the file has no EOF block.
use noodles_bgzf as bgzf;
use tokio::io::{self, AsyncWriteExt};

const BGZF_EOF: [u8; 28] = [0x1f, 0x8b, 0x08, 0x04, 0, 0, 0, 0, 0, 0xff, 0x06, 0, 0x42, 0x43, 0x02, 0, 0x1b, 0, 0x03, 0, 0, 0, 0, 0, 0, 0, 0, 0];

#[tokio::main(flavor = "current_thread")]
async fn main() -> io::Result<()> {
    let mut failed = 0;
    for (label, buffered) in [("Vec<u8>", false), ("tokio BufWriter<Vec<u8>>", true)] {
        let bytes = if buffered {
            let mut writer = bgzf::r#async::io::Writer::new(io::BufWriter::new(Vec::new()));
            writer.write_all(b"noodles").await?;
            writer.shutdown().await?;
            writer.into_inner().into_inner()
        } else {
            let mut writer = bgzf::r#async::io::Writer::new(Vec::new());
            writer.write_all(b"noodles").await?;
            writer.shutdown().await?;
            writer.into_inner()
        };
        let ok = bytes.ends_with(&BGZF_EOF);
        println!("{label}: {} bytes after shutdown() = Ok, ends with the EOF block: {ok}", bytes.len());
        if !ok { failed += 1; }
    }
    if failed > 0 {
        println!("VIOLATED: all calls returned Ok and the destination does not hold a complete BGZF file");
        std::process::exit(1);
    }
    println!("holds");
    Ok(())
}
