//! F15 (C15, C18): `<gtf::Record as gff::feature::Record>::attributes` is `Box::new(self.attributes().unwrap()) // TODO`.
//! The GTF line reader does not validate the attributes column, so a line whose attributes are malformed is handed out
//! as an Ok lazy record and panics as soon as it is converted (`record_bufs()`, `RecordBuf::try_from_feature_record`).
use std::io;

use noodles_gtf as gtf;

fn main() -> io::Result<()> {
    // the value of gene_id is not terminated
    let data = b"sq0\tsrc\tgene\t1\t10\t.\t+\t.\tgene_id \"g0\n";
    let result = std::panic::catch_unwind(|| -> io::Result<usize> {
        let mut reader = gtf::io::Reader::new(&data[..]);
        let mut n = 0;
        for r in reader.record_bufs() {
            r?;
            n += 1;
        }
        Ok(n)
    });
    match result {
        Ok(Ok(n)) => println!("read {n} record(s)"),
        Ok(Err(e)) => println!("ok: malformed attributes reported as an error: {e}"),
        Err(_) => {
            println!("DEFECT: a GTF line with malformed attributes makes record_bufs() panic");
            std::process::exit(1)
        }
    }
    Ok(())
}
