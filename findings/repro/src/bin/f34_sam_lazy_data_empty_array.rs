//! F34 (C06, C15): lazy sam::Record data: an empty `B` array followed by another field ("XA:B:C\tXB:i:1", which noodles' own SAM
//! writer produces for an empty array) fails with "invalid delimiter", and the field iterator never terminates after that error.
use std::{sync::mpsc, thread, time::Duration};

use noodles_sam as sam;
use sam::alignment::record::Data as _;

fn main() {
    let line = b"r0\t4\t*\t0\t255\t*\t*\t0\t0\t*\t*\tXA:B:C\tXB:i:1\n";
    let (tx, rx) = mpsc::channel();
    thread::spawn(move || {
        let mut reader = sam::io::Reader::new(&line[..]);
        let mut record = sam::Record::default();
        reader.read_record(&mut record).expect("read_record");
        let data = record.data();
        let mut n = 0usize;
        let mut errors = 0usize;
        for result in data.iter() {
            n += 1;
            if result.is_err() { errors += 1; }
            if n > 1_000_000 { break; }
        }
        let _ = tx.send((n, errors));
    });
    match rx.recv_timeout(Duration::from_secs(20)) {
        Ok((n, 0)) if n == 2 => println!("holds: 2 fields, no error"),
        Ok((n, e)) if n > 1_000_000 => { println!("VIOLATED: the lazy data iterator does not terminate ({n} items, {e} errors) on noodles' own output for an empty array"); std::process::exit(1); }
        Ok((n, e)) => { println!("VIOLATED: {n} items, {e} errors for `XA:B:C\\tXB:i:1` (an empty array followed by a field)"); std::process::exit(1); }
        Err(_) => { println!("VIOLATED: timeout"); std::process::exit(1); }
    }
}
