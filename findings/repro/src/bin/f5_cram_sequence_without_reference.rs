//! F5 (C15): a CRAM written with reference-based compression (the writer default) and read WITHOUT the reference (a
//! reader built with the default, empty repository): are the records returned as Ok, and does touching their sequence
//! panic (`panic!("next: missing reference sequence")` in record::sequence::Iter::next)?
use std::{io, num::NonZero};

use noodles_core::Position;
use noodles_cram as cram;
use noodles_fasta as fasta;
use noodles_sam::{
    self as sam,
    alignment::{io::Write as _, record::{cigar::{op::Kind, Op}, Flags}, record_buf::{Cigar, QualityScores, Sequence}, RecordBuf},
    header::record::value::{Map, map::ReferenceSequence},
};

fn main() -> io::Result<()> {
    let seq = vec![b'A'; 1000];
    let repository = fasta::Repository::new(vec![fasta::Record::new(
        fasta::record::Definition::new("sq0", None),
        fasta::record::Sequence::from(seq),
    )]);
    let header = sam::Header::builder()
        .add_reference_sequence("sq0", Map::<ReferenceSequence>::new(NonZero::new(1000).unwrap()))
        .build();
    let record = RecordBuf::builder()
        .set_name("r0")
        .set_flags(Flags::empty())
        .set_reference_sequence_id(0)
        .set_alignment_start(Position::try_from(10).unwrap())
        .set_cigar([Op::new(Kind::Match, 4)].into_iter().collect::<Cigar>())
        .set_sequence(Sequence::from(b"ACGT")) // three substitutions against the all-A reference
        .set_quality_scores(QualityScores::from(vec![30, 30, 30, 30]))
        .build();
    let mut writer = cram::io::writer::Builder::default()
        .set_reference_sequence_repository(repository)
        .build_from_writer(Vec::new());
    writer.write_header(&header)?;
    writer.write_alignment_record(&header, &record)?;
    writer.try_finish(&header)?;
    let data = writer.get_ref().clone();

    let result = std::panic::catch_unwind(|| -> io::Result<usize> {
        // no repository
        let mut reader = cram::io::Reader::new(&data[..]);
        let header = reader.read_header()?;
        let mut n = 0;
        for r in reader.records(&header) {
            let r = r?;
            n += r.sequence().as_ref().len();
        }
        Ok(n)
    });
    match result {
        Ok(Ok(n)) => println!("read {n} bases without the reference (?)"),
        Ok(Err(e)) => println!("ok: missing reference reported as an error: {e}"),
        Err(_) => {
            println!("DEFECT: reading a reference-compressed CRAM without the reference panics instead of returning an error");
            std::process::exit(1)
        }
    }
    Ok(())
}
