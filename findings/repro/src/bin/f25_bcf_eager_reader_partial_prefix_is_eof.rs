//! F25 (C13): the eager BCF record reader (`read_record_buf`, `record_bufs()`) maps UnexpectedEof while reading the 4-byte
//! l_shared prefix to `Ok(0)`: a stream that ends 1, 2 or 3 bytes into a record is reported as a clean end of file. The lazy
//! reader (`read_record`) distinguishes "no byte" from "some bytes" and returns UnexpectedEof.
use std::io;

use noodles_bcf as bcf;
use noodles_vcf::{self as vcf, header::record::value::{Map, map::Contig}, variant::{io::Write as _, RecordBuf}};

fn main() -> io::Result<()> {
    let header = vcf::Header::builder().add_contig("sq0", Map::<Contig>::new()).build();
    let record = RecordBuf::builder().set_reference_sequence_name("sq0").set_variant_start(noodles_core::Position::MIN).set_reference_bases("A").build();
    // uncompressed BCF stream: header, record, record
    let mut writer = bcf::io::Writer::from(Vec::new());
    writer.write_variant_header(&header)?;
    let after_header = writer.get_ref().len();
    writer.write_variant_record(&header, &record)?;
    let after_first = writer.get_ref().len();
    writer.write_variant_record(&header, &record)?;
    let data = writer.get_ref().clone();
    let _ = after_header;
    let mut bad = 0;
    for extra in 1..=3 {
        let cut = &data[..after_first + extra]; // the stream ends `extra` bytes into the second record
        let mut reader = bcf::io::Reader::from(cut);
        let h = reader.read_header()?;
        let mut rec = RecordBuf::default();
        let mut n = 0;
        let end = loop {
            match reader.read_record_buf(&h, &mut rec) {
                Ok(0) => break Ok(()),
                Ok(_) => n += 1,
                Err(e) => break Err(e),
            }
        };
        println!("cut {extra} byte(s) into record 2: eager reader read {n} record(s), then {:?}", end.as_ref().map_err(|e| e.kind()));
        if end.is_ok() {
            bad += 1;
        }
    }
    if bad > 0 {
        println!("DEFECT: a stream that ends inside a record is reported as a clean end of file by the eager BCF reader");
        std::process::exit(1);
    }
    println!("ok: truncation inside a record is an error");
    Ok(())
}
