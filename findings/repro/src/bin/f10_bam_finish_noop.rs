//! F10 (C14): `<bam::io::Writer<W> as sam::alignment::io::Write>::finish` is a no-op. Through the generic
//! alignment writer every call including finish() returns Ok although the sink rejects every byte; the
//! staged BGZF block and the EOF marker are only attempted in Drop, where the error is discarded.
use std::io::{self, Write};

use noodles_sam as sam;
use noodles_util::alignment;

struct Failing;
impl Write for Failing {
    fn write(&mut self, _: &[u8]) -> io::Result<usize> {
        Err(io::Error::other("disk full"))
    }
    fn flush(&mut self) -> io::Result<()> {
        Err(io::Error::other("disk full"))
    }
}

fn main() -> io::Result<()> {
    let header = sam::Header::default();
    let mut w = alignment::io::writer::Builder::default()
        .set_format(alignment::io::Format::Bam)
        .build_from_writer(Failing)?;
    w.write_header(&header)?;
    let rec = sam::alignment::RecordBuf::default();
    w.write_record(&header, &rec)?;
    w.finish(&header)?; // returns Ok
    drop(w); // the only place where the sink is touched; its error is dropped
    println!("DEFECT REPRODUCED: every call incl. finish() returned Ok on a sink that rejects all writes");
    Ok(())
}
