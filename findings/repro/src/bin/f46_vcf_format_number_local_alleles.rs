//! F46 (C09): the VCF header writer emits Number=LA / LR / LG / P / M for the FORMAT number variants of VCF 4.5, the header parser
//! knows only A, R, G and `.`: a header noodles wrote (or any VCF 4.5 header with local-allele fields) does not parse.
use noodles_vcf::{self as vcf, header::record::value::{Map, map::{Format, format::{Number, Type}}}};

fn main() -> std::io::Result<()> {
    let mut bad = 0;
    for (label, number) in [("LA", Number::LocalAlternateBases), ("LR", Number::LocalReferenceAlternateBases), ("LG", Number::LocalSamples), ("P", Number::Ploidy), ("M", Number::BaseModifications), ("A", Number::AlternateBases)] {
        let header = vcf::Header::builder().add_format("XX", Map::<Format>::new(number, Type::Integer, "test")).build();
        let mut writer = vcf::io::Writer::new(Vec::new());
        writer.write_header(&header)?;
        let text = String::from_utf8_lossy(writer.get_ref()).into_owned();
        match text.parse::<vcf::Header>() {
            Ok(h) if h == header => println!("Number={label}: round trip ok"),
            Ok(_) => { println!("Number={label}: parsed to a different header"); bad += 1; }
            Err(e) => { println!("Number={label}: written header does not parse: {e}"); bad += 1; }
        }
    }
    if bad > 0 { println!("VIOLATED: {bad} FORMAT number variants do not round-trip"); std::process::exit(1); }
    println!("holds");
    Ok(())
}
