//! F17 (C12): the lazy VCF record reader (`vcf::io::Reader::read_record`, used by `records()`/`query`) validates UTF-8 per
//! fill_buf window (`str::from_utf8(buf)` on each chunk inside read_field). A multi-byte character that straddles a buffer
//! refill boundary makes a valid line fail with InvalidData, depending only on how the stream chunks its reads.
use std::io::{self, BufReader};

use noodles_vcf as vcf;

fn main() -> io::Result<()> {
    let text = "##fileformat=VCFv4.4\n##INFO=<ID=NOTE,Number=1,Type=String,Description=\"note\">\n#CHROM\tPOS\tID\tREF\tALT\tQUAL\tFILTER\tINFO\nsq0\t1\t.\tA\t.\t.\t.\tNOTE=na\u{ef}ve_caf\u{e9}\n";
    let mut bad = 0;
    for cap in 1..=64 {
        let mut reader = vcf::io::Reader::new(BufReader::with_capacity(cap, text.as_bytes()));
        reader.read_header()?;
        let mut record = vcf::Record::default();
        match reader.read_record(&mut record) {
            Ok(_) => {}
            Err(e) => {
                if bad < 5 {
                    println!("capacity {cap}: {e}");
                }
                bad += 1;
            }
        }
    }
    if bad > 0 {
        println!("DEFECT: a valid UTF-8 VCF line is rejected for {bad} of 64 buffer capacities");
        std::process::exit(1);
    }
    println!("ok: the line is read for every buffer capacity");
    Ok(())
}
