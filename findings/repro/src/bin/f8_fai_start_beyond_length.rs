//! F8 (C11): fai::Record::query has no bound on the interval start. A start beyond the sequence length lands inside
//! the next record's definition line and its text is returned as bases.
use std::io::{self, Cursor};

use noodles_fasta as fasta;

fn main() -> io::Result<()> {
    let src = b">sq0\nACGT\nAC\n>sequence_one desc\nTTTT\n";
    let mut indexer = fasta::io::Indexer::new(&src[..]);
    let mut records = Vec::new();
    while let Some(r) = indexer.index_record().map_err(io::Error::other)? {
        records.push(r);
    }
    let index = fasta::fai::Index::from(records);
    let mut reader = fasta::io::Reader::new(Cursor::new(&src[..]));
    let region = "sq0:9-20".parse().unwrap();
    match reader.query(&index, &region) {
        Ok(r) => {
            let s = String::from_utf8_lossy(r.sequence().as_ref()).to_string();
            println!("sq0:9-20 -> Ok({s:?})  (sq0 has 6 bases)");
            if !s.is_empty() {
                println!("DEFECT REPRODUCED: bytes of the next definition line returned as bases");
                std::process::exit(1);
            }
        }
        Err(e) => println!("sq0:9-20 -> Err({e})"),
    }
    let region = "sq0:5-20".parse().unwrap();
    let r = reader.query(&index, &region)?;
    println!("sq0:5-20 -> {:?} (clipped)", String::from_utf8_lossy(r.sequence().as_ref()));
    let region = "sq0:7-20".parse().unwrap();
    let r = reader.query(&index, &region);
    println!("sq0:7-20 -> {:?}", r.map(|r| String::from_utf8_lossy(r.sequence().as_ref()).to_string()));
    Ok(())
}
