//! Lead exploration (not a finding by itself): CRAM written by noodles with every block codec / flag combination on the
//! quality-score series, over byte strings of several shapes, read back with noodles' own reader.
use std::io;

use noodles_cram::{self as cram, codecs::{Encoder, rans_nx16, aac, rans_4x8}, container::{BlockContentEncoderMap, compression_header::data_series_encodings::DataSeries}};
use noodles_sam::{
    self as sam,
    alignment::{io::Write as _, record::Flags, record_buf::{QualityScores, Sequence}, RecordBuf},
};

fn shapes() -> Vec<(String, Vec<Vec<u8>>)> {
    // each shape: list of per-record quality strings
    let mut v = Vec::new();
    for len in [1usize, 2, 3, 4, 5, 7, 31, 32, 33, 100, 257, 1000, 5000] {
        for (aname, alpha) in [("a1", 1usize), ("a2", 2), ("a3", 3), ("a4", 4), ("a5", 5), ("a16", 16), ("a17", 17), ("a94", 94), ("a256", 256)] {
            // pseudo-random
            let mut x = 0x2545F491u32 ^ (len as u32 * 7919) ^ (alpha as u32);
            let rnd: Vec<u8> = (0..len).map(|_| { x ^= x << 13; x ^= x >> 17; x ^= x << 5; (x as usize % alpha) as u8 }).collect();
            v.push((format!("rand len={len} {aname}"), vec![rnd]));
            // runs
            let runs: Vec<u8> = (0..len).map(|i| ((i / 9) % alpha) as u8).collect();
            v.push((format!("runs len={len} {aname}"), vec![runs]));
            // high symbols
            let hi: Vec<u8> = (0..len).map(|i| (if alpha > 200 { (i * 5 / 3) % alpha } else { 200 - ((i * 5 / 3) % alpha) }) as u8).collect();
            v.push((format!("high len={len} {aname}"), vec![hi]));
        }
    }
    // multi record
    for n in [2usize, 10, 300] {
        for l in [1usize, 50, 151] {
            let recs: Vec<Vec<u8>> = (0..n).map(|i| (0..l).map(|j| ((i * 31 + j * j * 17 + (i >> 3)) % 42) as u8).collect()).collect();
            v.push((format!("multi n={n} l={l}"), recs));
        }
    }
    v
}

thread_local! { static WROTE: std::cell::Cell<bool> = std::cell::Cell::new(false); }

fn round_trip(encoder: Encoder, quals: &[Vec<u8>]) -> io::Result<Vec<Vec<u8>>> {
    let header = sam::Header::default();
    let map = BlockContentEncoderMap::builder()
        .set_data_series_encoder(DataSeries::QualityScores, Some(encoder))
        .build();
    let mut writer = cram::io::writer::Builder::default().set_block_content_encoder_map(map).build_from_writer(Vec::new());
    writer.write_header(&header)?;
    for (i, q) in quals.iter().enumerate() {
        let seq: Vec<u8> = (0..q.len()).map(|j| b"ACGT"[(i * 7 + j * 3) % 4]).collect();
        let record = RecordBuf::builder().set_name(format!("r{i}")).set_flags(Flags::UNMAPPED)
            .set_sequence(Sequence::from(seq)).set_quality_scores(QualityScores::from(q.clone())).build();
        writer.write_alignment_record(&header, &record)?;
    }
    writer.try_finish(&header)?;
    WROTE.with(|w| w.set(true));
    let data = writer.get_ref().clone();
    let mut reader = cram::io::Reader::new(&data[..]);
    let h = reader.read_header()?;
    let mut out = Vec::new();
    for r in reader.records(&h) {
        let r = r?;
        out.push(r.quality_scores().as_ref().to_vec());
    }
    Ok(out)
}

fn main() {
    std::panic::set_hook(Box::new(|_| {}));
    let mut encoders: Vec<(String, Encoder)> = Vec::new();
    encoders.push(("rans4x8 o0".into(), Encoder::Rans4x8(rans_4x8::Order::Zero)));
    encoders.push(("rans4x8 o1".into(), Encoder::Rans4x8(rans_4x8::Order::One)));
    encoders.push(("fqzcomp".into(), Encoder::Fqzcomp));
    for bits in 0u16..256 {
        let b = bits as u8;
        if b & 0x02 != 0 { continue; }
        encoders.push((format!("nx16 {:?}", rans_nx16::Flags::from_bits_truncate(b)), Encoder::RansNx16(rans_nx16::Flags::from_bits_truncate(b))));
        encoders.push((format!("aac {:?}", aac::Flags::from_bits_truncate(b)), Encoder::AdaptiveArithmeticCoding(aac::Flags::from_bits_truncate(b))));
    }
    let shapes = shapes();
    let mut total = 0; let mut failed = 0;
    for (ename, enc) in &encoders {
        let mut fails: Vec<String> = Vec::new();
        for (sname, quals) in &shapes {
            total += 1;
            let e = enc.clone(); let q = quals.clone();
            WROTE.with(|w| w.set(false));
            let r = std::panic::catch_unwind(move || round_trip(e, &q));
            let side = if WROTE.with(|w| w.get()) { "READ" } else { "WRITE" };
            let msg = match r {
                Ok(Ok(out)) if &out == quals => continue,
                Ok(Ok(_)) => "MISMATCH".to_string(),
                Ok(Err(e)) => format!("Err({e})"),
                Err(p) => format!("PANIC({})", p.downcast_ref::<String>().cloned().or_else(|| p.downcast_ref::<&str>().map(|s| s.to_string())).unwrap_or_default()),
            };
            failed += 1;
            fails.push(format!("{sname}: {side} {msg}"));
        }
        if !fails.is_empty() {
            println!("{ename}\t{}\t{}", fails.len(), fails.iter().cloned().collect::<Vec<_>>().join(" | "));
        }
    }
    println!("{failed} of {total} failed");
    std::process::exit(if failed > 0 { 1 } else { 0 });
}
