//! F55 (C09): the VCF header parser stores `IDX=n` of INFO / FORMAT / FILTER / contig lines in the map's idx field (bcftools writes it
//! into every BCF header), the header writer never wrote it: a header that carries IDX did not round-trip to an equal header, and a BCF
//! re-written through noodles lost the explicit dictionary indices its records refer to.
use std::io;

use noodles_vcf as vcf;

fn main() -> io::Result<()> {
    let text = "##fileformat=VCFv4.3\n##FILTER=<ID=PASS,Description=\"All filters passed\",IDX=0>\n##INFO=<ID=DP,Number=1,Type=Integer,Description=\"Depth\",IDX=2>\n##FILTER=<ID=q10,Description=\"Quality below 10\",IDX=1>\n##FORMAT=<ID=GT,Number=1,Type=String,Description=\"Genotype\",IDX=3>\n##contig=<ID=sq0,length=8,IDX=0>\n#CHROM\tPOS\tID\tREF\tALT\tQUAL\tFILTER\tINFO\tFORMAT\ts0\n";
    let header = vcf::io::Reader::new(text.as_bytes()).read_header()?;
    let mut writer = vcf::io::Writer::new(Vec::new());
    writer.write_header(&header)?;
    let out = writer.into_inner();
    print!("{}", String::from_utf8_lossy(&out));
    let back = vcf::io::Reader::new(&out[..]).read_header()?;
    if back != header {
        println!("VIOLATED: the header does not read back equal (IDX dropped: DP idx {:?} -> {:?})",
                 header.infos().get("DP").and_then(|m| m.idx()), back.infos().get("DP").and_then(|m| m.idx()));
        std::process::exit(1);
    }
    println!("holds");
    Ok(())
}
