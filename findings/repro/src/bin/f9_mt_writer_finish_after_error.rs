//! F9 (C03, C14): after a sink failure has surfaced through a write call, `MultithreadedWriter::finish()` (and any
//! further `write`/`flush` with buffered data) hits `panic!("invalid state")` instead of returning an error: the writer
//! state became `Done` inside `send()` -> `finish_inner()`, and both `send()` and `finish_inner()` panic on `Done`.
use std::io::{self, Write};

use noodles_bgzf as bgzf;

struct FailAfter(usize);

impl Write for FailAfter {
    fn write(&mut self, buf: &[u8]) -> io::Result<usize> {
        if self.0 == 0 {
            return Err(io::Error::new(io::ErrorKind::Other, "disk full"));
        }
        self.0 -= 1;
        Ok(buf.len())
    }
    fn flush(&mut self) -> io::Result<()> {
        Ok(())
    }
}

fn main() {
    let mut writer = bgzf::io::MultithreadedWriter::new(FailAfter(3));
    let chunk = vec![b'x'; 70_000];
    let mut surfaced = None;
    for _ in 0..200 {
        if let Err(e) = writer.write_all(&chunk) {
            surfaced = Some(e);
            break;
        }
    }
    println!("error surfaced through write_all: {:?}", surfaced.as_ref().map(|e| e.to_string()));
    // what every caller does next: finish (or drop) the writer
    let r = std::panic::catch_unwind(std::panic::AssertUnwindSafe(|| writer.finish().map(|_| ())));
    match r {
        Ok(Ok(())) => println!("finish -> Ok (error hidden?)"),
        Ok(Err(e)) => println!("ok: finish -> Err({e})"),
        Err(_) => {
            println!("DEFECT: finish() after a surfaced sink error panics (\"invalid state\")");
            std::mem::forget(writer);
            std::process::exit(1)
        }
    }
}
