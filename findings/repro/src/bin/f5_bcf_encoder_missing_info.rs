//! F5/BCF encoder (C10): an INFO field whose value is missing (`DP=.` in VCF text, `None` in the data model) is a valid
//! VCF record, but the BCF encoder's value dispatch ends in `todo!("unhandled INFO field value")` instead of returning
//! an error or writing the typed missing value.
use std::io;

use noodles_bcf as bcf;
use noodles_core::Position;
use noodles_vcf::{
    self as vcf,
    header::record::value::{Map, map::{Contig, Info}},
    variant::{io::Write as _, RecordBuf},
};

fn main() -> io::Result<()> {
    std::panic::set_hook(Box::new(|_| {}));
    let header = vcf::Header::builder()
        .add_contig("sq0", Map::<Contig>::new())
        .add_info("DP", Map::<Info>::from("DP"))
        .build();
    let info = [(String::from("DP"), None)].into_iter().collect();
    let record = RecordBuf::builder()
        .set_reference_sequence_name("sq0")
        .set_variant_start(Position::MIN)
        .set_reference_bases("A")
        .set_info(info)
        .build();
    // the same record is fine as VCF text
    let mut vw = vcf::io::Writer::new(Vec::new());
    vw.write_variant_record(&header, &record)?;
    print!("as VCF: {}", String::from_utf8_lossy(vw.get_ref()));
    let r = std::panic::catch_unwind(move || {
        let mut w = bcf::io::Writer::from(Vec::new());
        w.write_variant_header(&header).unwrap();
        w.write_variant_record(&header, &record).map_err(|e| e.to_string())
    });
    println!("as BCF: {:?}", r.as_ref().map_err(|_| "PANIC"));
    if r.is_err() {
        println!("DEFECT REPRODUCED");
        std::process::exit(1);
    }
    Ok(())
}
