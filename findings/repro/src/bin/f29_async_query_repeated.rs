//! F29 (C16, C04, C02): the async BGZF reader's `poll_seek` (the seek used by every async region query) rests in
//! `SeekState::Done(p)` and treats a later request for the same position `p` as already satisfied, although the reader
//! has moved on in between. Repeating a region query on the same async reader returns no records the second time.
use std::{io, num::NonZero};

use noodles_bam as bam;
use noodles_core::Position;
use noodles_csi::{self as csi, binning_index::Indexer};
use noodles_sam::{
    self as sam,
    alignment::{io::Write as _, record::Flags, record::cigar::{op::Kind, Op}, record_buf::{Cigar, QualityScores, Sequence}, RecordBuf},
    header::record::value::{map::ReferenceSequence, Map},
};

use noodles_sam::alignment::Record as _;

#[tokio::main(flavor = "current_thread")]
async fn main() -> io::Result<()> {
    let header = sam::Header::builder()
        .add_reference_sequence("sq0", Map::<ReferenceSequence>::new(NonZero::new(100000).unwrap()))
        .build();

    let mut writer = bam::io::Writer::new(Vec::new());
    writer.write_header(&header)?;
    for i in 0..200usize {
        let record = RecordBuf::builder()
            .set_name(format!("r{i}"))
            .set_flags(Flags::empty())
            .set_reference_sequence_id(0)
            .set_alignment_start(Position::try_from(1 + i * 100).unwrap())
            .set_cigar(Cigar::from(vec![Op::new(Kind::Match, 50)]))
            .set_sequence(Sequence::from(vec![b'A'; 50]))
            .set_quality_scores(QualityScores::from(vec![30; 50]))
            .build();
        writer.write_alignment_record(&header, &record)?;
    }
    writer.try_finish()?;
    let data = writer.into_inner().into_inner();

    // index (sync, from the bytes)
    let index = {
        let mut reader = bam::io::Reader::new(&data[..]);
        let h = reader.read_header()?;
        let mut indexer = Indexer::<csi::binning_index::index::reference_sequence::index::LinearIndex>::default();
        let mut record = bam::Record::default();
        let mut start = reader.get_ref().virtual_position();
        while reader.read_record(&mut record)? != 0 {
            let end = reader.get_ref().virtual_position();
            let ctx = match (record.reference_sequence_id().transpose()?, record.alignment_start().transpose()?, record.alignment_end().transpose()?) {
                (Some(id), Some(s), Some(e)) => Some((id, s, e, !record.flags().is_unmapped())),
                _ => None,
            };
            indexer.add_record(ctx, csi::binning_index::index::reference_sequence::bin::Chunk::new(start, end))?;
            start = end;
        }
        let _ = h;
        indexer.build(header.reference_sequences().len())
    };

    let region = "sq0:5000-9000".parse().unwrap();

    // sync: the same query twice on one reader
    let mut sync_counts = Vec::new();
    {
        let mut reader = bam::io::Reader::new(io::Cursor::new(&data));
        let h = reader.read_header()?;
        for _ in 0..2 {
            let n = reader.query(&h, &index, &region)?.records().count();
            sync_counts.push(n);
        }
    }

    // async: the same query twice on one reader
    let mut async_counts = Vec::new();
    {
        let mut reader = bam::r#async::io::Reader::new(io::Cursor::new(&data));
        let h = reader.read_header().await?;
        for _ in 0..2 {
            let mut q = reader.query(&h, &index, &region)?;
            let mut n = 0;
            let mut record = bam::Record::default();
            while q.read_record(&mut record).await? != 0 {
                n += 1;
            }
            async_counts.push(n);
        }
    }

    println!("sync  reader, same query twice: {sync_counts:?}");
    println!("async reader, same query twice: {async_counts:?}");
    if sync_counts != async_counts || async_counts[0] != async_counts[1] {
        println!("VIOLATED: the repeated async query does not return the records of the first one");
        std::process::exit(1);
    }
    println!("holds");
    Ok(())
}

