//! F27 (C18): the GTF writer escapes `"` inside an attribute value as `\"`, and `unescape_string` accepts `\"`, but the field
//! tokenizer that runs first (`parse_string`) ends the value at the FIRST `"` without looking at a preceding backslash:
//! noodles' own output `gene_id "nd\"ls";` is split inside the value, so the line fails to parse (and, through F15, panics in
//! record_bufs()).
use std::io;

use noodles_gtf as gtf;

fn main() -> io::Result<()> {
    let line = b"sq0\tsrc\tgene\t1\t10\t.\t+\t.\tgene_id \"nd\\\"ls\"; tag \"x\";\n";
    print!("{}", String::from_utf8_lossy(line));
    let result = std::panic::catch_unwind(|| -> io::Result<Vec<(String, String)>> {
        let mut reader = gtf::io::Reader::new(&line[..]);
        let mut out = Vec::new();
        for r in reader.record_bufs() {
            let r = r?;
            for (k, v) in r.attributes().as_ref() {
                out.push((k.to_string(), format!("{v:?}")));
            }
        }
        Ok(out)
    });
    match result {
        Ok(Ok(attrs)) if attrs.len() == 2 && attrs[0].1.contains("nd\\\"ls") => {
            println!("ok: {attrs:?}");
            Ok(())
        }
        Ok(Ok(attrs)) => {
            println!("DEFECT: parsed attributes differ from what was written: {attrs:?}");
            std::process::exit(1)
        }
        Ok(Err(e)) => {
            println!("DEFECT: noodles-style escaped quote fails to parse: {e}");
            std::process::exit(1)
        }
        Err(_) => {
            println!("DEFECT: an escaped quote inside a GTF value makes record_bufs() panic");
            std::process::exit(1)
        }
    }
}
