//! F41 (C15): the distance to the next fragment (NF) comes from the file; resolve_mates used `i + NF + 1` as an index into the
//! slice's records without checking it: a value that points past the slice panics ("index out of bounds" / split_at_mut) inside
//! Slice::records. This program writes a pair of attached mates with the NF series stored uncompressed, replaces the stored
//! distance 0 by 100 (fixing up the block CRC32; no size changes) and decodes the slice.
use std::{io, num::NonZero};

use noodles_core::Position;
use noodles_cram::{self as cram, container::{BlockContentEncoderMap, compression_header::data_series_encodings::DataSeries}};
use noodles_fasta as fasta;
use noodles_sam::{self as sam, alignment::{io::Write as _, record::{Flags, MappingQuality, cigar::{op::Kind, Op}}, record_buf::{Cigar, QualityScores, Sequence}, RecordBuf}, header::record::value::{Map, map::ReferenceSequence}};

fn crc32(b: &[u8]) -> u32 { let mut c = flate2::Crc::new(); c.update(b); c.sum() }

fn main() -> io::Result<()> {
    let reference: Vec<u8> = (0..2000).map(|i| b"ACGT"[(i * 7 + i / 3) % 4]).collect();
    let header = sam::Header::builder().add_reference_sequence("sq0", Map::<ReferenceSequence>::new(NonZero::new(2000).unwrap())).build();
    let repo = fasta::Repository::new(vec![fasta::Record::new(fasta::record::Definition::new("sq0", None), fasta::record::Sequence::from(reference.clone()))]);
    let mk = |flags: Flags, pos: usize, mpos: usize, tlen: i32| {
        RecordBuf::builder().set_name("t0").set_flags(flags).set_reference_sequence_id(0).set_alignment_start(Position::try_from(pos).unwrap())
            .set_mapping_quality(MappingQuality::new(30).unwrap()).set_cigar(Cigar::from(vec![Op::new(Kind::Match, 80)]))
            .set_mate_reference_sequence_id(0).set_mate_alignment_start(Position::try_from(mpos).unwrap()).set_template_length(tlen)
            .set_sequence(Sequence::from(reference[pos - 1..pos + 79].to_vec())).set_quality_scores(QualityScores::from(vec![30; 80])).build()
    };
    let map = BlockContentEncoderMap::builder().set_data_series_encoder(DataSeries::MateDistances, None).build();
    let mut writer = cram::io::writer::Builder::default().set_reference_sequence_repository(repo.clone()).set_block_content_encoder_map(map).build_from_writer(Vec::new());
    writer.write_header(&header)?;
    writer.write_alignment_record(&header, &mk(Flags::SEGMENTED | Flags::FIRST_SEGMENT | Flags::MATE_REVERSE_COMPLEMENTED, 100, 500, 480))?;
    writer.write_alignment_record(&header, &mk(Flags::SEGMENTED | Flags::LAST_SEGMENT | Flags::REVERSE_COMPLEMENTED, 500, 100, -480))?;
    writer.try_finish(&header)?;
    let mut data = writer.get_ref().clone();

    // the NF block: method 0 (raw), content type 4 (external), content id 12, compressed size 1, raw size 1, one byte (distance 0), CRC32
    let pat = [0u8, 4, 12, 1, 1, 0];
    let at = data.windows(pat.len()).position(|w| w == pat).expect("uncompressed NF block with a single distance 0");
    data[at + 5] = 100;
    let crc = crc32(&data[at..at + 6]);
    data[at + 6..at + 10].copy_from_slice(&crc.to_le_bytes());

    let result = std::panic::catch_unwind(|| -> io::Result<usize> {
        let mut reader = cram::io::reader::Builder::default().set_reference_sequence_repository(repo.clone()).build_from_reader(&data[..]);
        let h = reader.read_header()?;
        let mut n = 0;
        for r in reader.records(&h) { r?; n += 1; }
        Ok(n)
    });
    match result {
        Ok(Ok(n)) => println!("read {n} records without error"),
        Ok(Err(e)) => println!("holds: the hostile distance is reported as an error: {e}"),
        Err(_) => { println!("VIOLATED: a mate distance that points past the slice panics in the reader"); std::process::exit(1); }
    }
    Ok(())
}
