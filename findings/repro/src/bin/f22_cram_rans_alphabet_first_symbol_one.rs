//! F22 (C07; C08 territory): the rANS 4x8 encoder (orders 0 and 1) and the rANS Nx16 order-0 encoder write a run length after
//! the first symbol of an alphabet when that symbol is 1 (`prev_sym` starts at 0, which conflates "no previous symbol" with
//! "the previous symbol was 0"). The decoders follow the specification, so any block whose smallest byte value is 0x01 cannot
//! be read back — or, with rANS Nx16 order 0, silently decodes to different bytes.
use std::io;

use noodles_cram::{self as cram, codecs::{Encoder, rans_4x8, rans_nx16}, container::{BlockContentEncoderMap, compression_header::data_series_encodings::DataSeries}};
use noodles_sam::{
    self as sam,
    alignment::{io::Write as _, record::Flags, record_buf::{QualityScores, Sequence}, RecordBuf},
};

fn main() -> io::Result<()> {
    let header = sam::Header::default();
    let mut failures = 0;
    for (label, encoder) in [
        ("rANS 4x8 order 0", Encoder::Rans4x8(rans_4x8::Order::Zero)),
        ("rANS 4x8 order 1", Encoder::Rans4x8(rans_4x8::Order::One)),
        ("rANS Nx16 order 0", Encoder::RansNx16(rans_nx16::Flags::empty())),
        ("rANS Nx16 order 1", Encoder::RansNx16(rans_nx16::Flags::ORDER)),
    ] {
        // quality scores 1..=40: the smallest byte of the series is 0x01
        let records: Vec<RecordBuf> = (0..100usize)
            .map(|i| {
                RecordBuf::builder()
                    .set_name(format!("r{i}"))
                    .set_flags(Flags::UNMAPPED)
                    .set_sequence(Sequence::from(vec![b'A'; 20]))
                    .set_quality_scores(QualityScores::from((0..20).map(|j| 1 + ((i * 7 + j * 3) % 40) as u8).collect::<Vec<_>>()))
                    .build()
            })
            .collect();
        let map = BlockContentEncoderMap::builder().set_data_series_encoder(DataSeries::QualityScores, Some(encoder)).build();
        let result = std::panic::catch_unwind(|| -> io::Result<bool> {
            let mut writer = cram::io::writer::Builder::default().set_block_content_encoder_map(map).build_from_writer(Vec::new());
            writer.write_header(&header)?;
            for r in &records {
                writer.write_alignment_record(&header, r)?;
            }
            writer.try_finish(&header)?;
            let data = writer.get_ref().clone();
            let mut reader = cram::io::Reader::new(&data[..]);
            let h = reader.read_header()?;
            let mut same = true;
            let mut n = 0;
            for (r, expected) in reader.records(&h).zip(&records) {
                let r = r?;
                same &= r.quality_scores() == expected.quality_scores();
                n += 1;
            }
            Ok(same && n == records.len())
        });
        match result {
            Ok(Ok(true)) => println!("{label}: ok"),
            Ok(Ok(false)) => {
                println!("{label}: read back DIFFERENT quality scores, no error");
                failures += 1;
            }
            Ok(Err(e)) => {
                println!("{label}: {e}");
                failures += 1;
            }
            Err(_) => {
                println!("{label}: PANIC");
                failures += 1;
            }
        }
    }
    if failures > 0 {
        println!("DEFECT: {failures} of 4 rANS encoders cannot round-trip a series whose smallest byte is 0x01");
        std::process::exit(1);
    }
    Ok(())
}
